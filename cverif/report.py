"""Obligations, results, evidence files, known findings and replay."""
from __future__ import annotations

import json
import os
import time
import traceback

from . import terms as T
from .model import AnalysisError, get_repo, repo_root
from .symeval import Analyses

VERIF_DIR = os.path.dirname(os.path.dirname(os.path.abspath(__file__)))
KNOWN_FILE = os.path.join(VERIF_DIR, 'known_findings.json')


def _s(x):
    if x is None:
        return None
    if isinstance(x, str):
        return x
    if isinstance(x, tuple):
        try:
            out = T.show(x)
        except Exception:       # pragma: no cover
            out = repr(x)
    else:
        out = str(x)
    if len(out) > 700:
        out = out[:520] + ' ... ' + out[-160:]
    return out


class Unrecognised(Exception):
    """A construct outside the accepted idioms: analysis-broken, not a violation."""


class Ctx:
    """Collects the obligations of one property check."""

    def __init__(self, prop, tier='quick', seed=0, repo=None):
        self.prop = prop
        self.tier = tier
        self.seed = seed
        self.repo = repo or get_repo()
        self.A = Analyses(self.repo)
        self.obligations = []       # dicts
        self.notes = []
        self.assumptions = []
        self.units = {'files': self.repo.n_files, 'functions_evaluated': 0}
        self.extra = {}
        self._rule = None
        self._missing_nested = {}

    # -- recording -----------------------------------------------------------
    def _rec(self, status, rule, instance, where, found, expected, reason, key=None):
        ob = {
            'rule': rule, 'instance': instance, 'where': where, 'status': status,
            'found': _s(found), 'expected': _s(expected), 'reason': reason,
        }
        if key is not None:
            ob['key'] = key
        self.obligations.append(ob)
        return ob

    def ok(self, rule, instance, where='', found=None, expected=None, reason=''):
        return self._rec('discharged', rule, instance, where, found, expected, reason)

    def bad(self, rule, instance, where='', found=None, expected=None, reason='', key=None):
        """A violated obligation.  ``key`` identifies the construct + normalised
        fact (never a line number) for the known-findings register."""
        if key is None:
            key = f'{rule}|{instance}|{_s(found)}'
        return self._rec('violated', rule, instance, where, found, expected, reason, key)

    def unrec(self, rule, instance, where='', found=None, expected=None, reason=''):
        return self._rec('unrecognised', rule, instance, where, found, expected, reason)

    def check(self, cond, rule, instance, where='', found=None, expected=None, reason='', key=None):
        if cond:
            return self.ok(rule, instance, where, found, expected, reason)
        return self.bad(rule, instance, where, found, expected, reason, key)

    def eq(self, rule, instance, found, expected, where='', reason='', key=None):
        return self.check(found == expected, rule, instance, where, found, expected, reason, key)

    def note(self, msg):
        self.notes.append(msg)

    def assume(self, msg):
        if msg not in self.assumptions:
            self.assumptions.append(msg)

    def fa(self, qualname):
        try:
            return self.A(qualname)
        except AnalysisError:
            # A nested function the rules are stated on is gone although its enclosing function is
            # still there: the enclosing function was rewritten without it.  What the nested function
            # did (its effects under its conditions) then has no counterpart of that role - a changed
            # mechanism, reported as a violation of the obligations stated on it (the comparison of the
            # enclosing function, which runs as well, shows what it does instead).  The rules that read
            # the nested function go on with an empty stand-in.
            if '.<locals>.' not in qualname:
                raise
            parent = qualname.rsplit('.<locals>.', 1)[0]
            if not self.repo.has_func(parent):
                raise
            if qualname not in self._missing_nested:
                pfi = self.repo.func(parent)
                self.bad('ANCHOR.nested-function', qualname.replace('cooler.', ''),
                         f'{os.path.relpath(pfi.file, self.repo.root)}:{pfi.lineno} {pfi.qualname}',
                         found='no nested function of that role in the enclosing function',
                         expected=f'nested function {qualname.rsplit(".", 1)[1]} (the property\'s rules are stated on its effects)',
                         reason='the enclosing function was rewritten without the nested function that carried part of the mechanism',
                         key=f'ANCHOR.nested-function|{qualname}')
                from .refcompare import analyze_source
                self._missing_nested[qualname] = analyze_source(
                    self.repo, pfi.module.name, 'def missing(*args, **kwargs):\n    pass\n', qual=qualname)
            return self._missing_nested[qualname]

    def where(self, fa, ev=None):
        line = ev.line if ev is not None else fa.fi.lineno
        path = os.path.relpath(fa.fi.file, self.repo.root)
        return f'{path}:{line} {fa.fi.qualname}'


def _evidence_dir():
    return os.environ.get('VERIF_EVIDENCE_DIR') or os.path.join(VERIF_DIR, 'evidence')


def _replay_dir():
    d = os.environ.get('VERIF_EVIDENCE_DIR')
    return os.path.join(d, 'replay') if d else os.path.join(VERIF_DIR, 'replay')


def load_known():
    if not os.path.exists(KNOWN_FILE):
        return {'known': [], 'fixed': []}
    with open(KNOWN_FILE) as fh:
        return json.load(fh)


def run_property(prop, fn, tier='quick', seed=0, replay=None, meta=None):
    """Run one property check; write evidence; print verdict lines; return exit code."""
    t0 = time.time()
    os.makedirs(_evidence_dir(), exist_ok=True)
    os.makedirs(_replay_dir(), exist_ok=True)
    meta = meta or {}
    try:
        ctx = Ctx(prop, tier, seed)
        fn(ctx)
        if tier == 'thorough':
            from . import sweeps
            sweeps.run(ctx, prop)
    except (AnalysisError, Unrecognised) as e:
        print(f'ANALYSIS-ERROR property={prop}: {e}')
        _write_evidence(prop, tier, seed, None, time.time() - t0, meta, error=str(e))
        return 2
    except Exception as e:      # internal error: never a violation
        traceback.print_exc()
        print(f'ANALYSIS-ERROR property={prop}: internal error {type(e).__name__}: {e}')
        _write_evidence(prop, tier, seed, None, time.time() - t0, meta, error=repr(e))
        return 2

    known = load_known()
    known_keys = {(k['property'], k['key']): k for k in known.get('known', [])}
    violations = []
    known_hits = []
    unrec = []
    for ob in ctx.obligations:
        if ob['status'] == 'violated':
            kk = (prop, ob['key'])
            if kk in known_keys:
                ob['status'] = 'known'
                known_hits.append((ob, known_keys[kk]))
            else:
                violations.append(ob)
        elif ob['status'] == 'unrecognised':
            unrec.append(ob)

    if replay is not None:
        try:
            with open(replay) as fh:
                want = json.load(fh)
        except (OSError, ValueError) as e:
            print(f'ANALYSIS-ERROR property={prop}: cannot read replay file {replay}: {e}')
            return 2
        sel = [ob for ob in ctx.obligations
               if ob['rule'] == want.get('rule') and ob['instance'] == want.get('instance')]
        if not sel:
            print(f'ANALYSIS-ERROR property={prop}: obligation {want.get("rule")}/{want.get("instance")} '
                  f'no longer exists')
            return 2
        rc = 0
        for ob in sel:
            print(f'REPLAY {prop} {ob["rule"]} [{ob["instance"]}] -> {ob["status"]}')
            print(f'   at {ob["where"]}\n   found:    {ob["found"]}\n   expected: {ob["expected"]}')
            if ob['status'] == 'violated':
                print(f'VIOLATION property={prop} replay={replay}')
                rc = 1
        return rc

    if tier == 'thorough' and replay is None and not os.environ.get('VERIF_SELFTEST'):
        ctx.extra['checker_validation'] = _checker_validation(prop)
    wall = time.time() - t0
    n_fun = len(ctx.A._cache)
    ctx.units['functions_evaluated'] = n_fun
    print(f'[{prop}] tier={tier} analysed {ctx.repo.n_files} files, evaluated {n_fun} functions, '
          f'{len(ctx.obligations)} obligations: '
          f'{sum(o["status"] == "discharged" for o in ctx.obligations)} discharged, '
          f'{len(known_hits)} known findings, {len(violations)} violations, '
          f'{len(unrec)} unrecognised  ({wall:.2f}s)')
    if os.environ.get('VERIF_VERBOSE'):
        for ob in ctx.obligations:
            print(f'  {ob["status"][:4].upper()} {ob["rule"]} [{ob["instance"]}] {ob["where"]}\n        found:    {ob["found"]}\n        expected: {ob["expected"]}')
    for ob, k in known_hits:
        print(f'KNOWN-FINDING: property={prop} {k.get("what", ob["key"])}')
    rc = 0
    if unrec:
        for ob in unrec:
            print(f'UNRECOGNISED property={prop} rule={ob["rule"]} [{ob["instance"]}] at {ob["where"]}: '
                  f'{ob["reason"]} found: {ob["found"]}')
        print(f'ANALYSIS-ERROR property={prop}: {len(unrec)} construct(s) outside the accepted idioms')
        rc = 2
    for i, ob in enumerate(violations):
        path = os.path.join(_replay_dir(), f'{prop}-{i}.json')
        with open(path, 'w') as fh:
            json.dump({'property': prop, **ob}, fh, indent=1)
        print(f'VIOLATION property={prop} replay={path}')
        print(f'   rule {ob["rule"]} [{ob["instance"]}] at {ob["where"]}')
        print(f'   found:    {ob["found"]}')
        print(f'   expected: {ob["expected"]}')
        if ob['reason']:
            print(f'   why:      {ob["reason"]}')
        rc = 1
    _write_evidence(prop, tier, seed, ctx, wall, meta, violations=violations,
                    known_hits=known_hits, unrec=unrec)
    return rc


def _checker_validation(prop):
    """Thorough tier: exercise the *checker* on scratch copies of the current tree
    (hand-written catalogue + automatic mutation sweep).  The outcome is recorded in
    the evidence and printed; it never turns the property verdict into a violation."""
    import subprocess
    import sys
    import tempfile
    out = {}
    tmpd = tempfile.mkdtemp(prefix='cverif-validation-')
    try:
        env = dict(os.environ, VERIF_SELFTEST='1')
        env.pop('VERIF_EVIDENCE_DIR', None)
        j1 = os.path.join(tmpd, 'catalogue.json')
        r = subprocess.run([sys.executable, '-B', os.path.join(VERIF_DIR, 'selftest', 'run.py'), prop, '--json', j1],
                           cwd=VERIF_DIR, env=env, capture_output=True, text=True, timeout=1500)
        try:
            rows = json.load(open(j1))
            out['catalogue'] = {
                'mutants': sum(1 for x in rows if x['kind'] == 'mutant'),
                'mutants_reported': sum(1 for x in rows if x['kind'] == 'mutant' and x['status'] == 'OK'),
                'refactors': sum(1 for x in rows if x['kind'] != 'mutant'),
                'refactors_silent': sum(1 for x in rows if x['kind'] != 'mutant' and x['status'] == 'OK'),
                'not_ok': [f"{x['status']}: {x['name']}" for x in rows if x['status'] != 'OK'],
            }
        except (OSError, ValueError):
            out['catalogue'] = {'error': (r.stdout + r.stderr)[-300:]}
        j2 = os.path.join(tmpd, 'auto.json')
        r = subprocess.run([sys.executable, '-B', os.path.join(VERIF_DIR, 'selftest', 'automutate.py'), prop, '--max', '40',
                            '--json', j2], cwd=VERIF_DIR, env=env, capture_output=True, text=True, timeout=3000)
        try:
            out['automatic_mutation_sweep'] = json.load(open(j2)).get(prop, {})
            out['automatic_mutation_sweep']['note'] = (
                'per-property figure over the functions this property reads in full (thinned to 40 mutants per file); a mutant '
                'silent here may be reported by another property that reads the same function - the cross-property figure '
                '(selftest/automutate.py --union: 1995 mutants, 1908 reported, 14 analysis-error only, 73 survivors, all triaged in '
                'selftest/automutate_triage.json) is in DESIGN.md, change log item 14')
        except (OSError, ValueError):
            out['automatic_mutation_sweep'] = {'error': (r.stdout + r.stderr)[-300:]}
        j3 = os.path.join(tmpd, 'refactor.json')
        r = subprocess.run([sys.executable, '-B', os.path.join(VERIF_DIR, 'selftest', 'autorefactor.py'), prop, '--json', j3],
                           cwd=VERIF_DIR, env=env, capture_output=True, text=True, timeout=3000)
        try:
            out['behaviour_preserving_rewrite_sweep'] = json.load(open(j3)).get(prop, {})
        except (OSError, ValueError):
            out['behaviour_preserving_rewrite_sweep'] = {'error': (r.stdout + r.stderr)[-300:]}
    except Exception as e:      # pragma: no cover - validation must never break the check
        out['error'] = repr(e)
    finally:
        import shutil
        shutil.rmtree(tmpd, ignore_errors=True)
    print(f'[{prop}] checker validation: {json.dumps(out)[:600]}')
    return out


def _write_evidence(prop, tier, seed, ctx, wall, meta, violations=(), known_hits=(), unrec=(),
                    error=None):
    path = os.path.join(_evidence_dir(), f'{prop}.json')
    if ctx is None:
        ev = {
            'property_id': prop, 'tier': tier if tier in ('quick', 'thorough') else 'quick',
            'seed': int(seed), 'level': 'other',
            'coverage': {'explanation': 'analysis aborted: ' + (error or ''), 'evaluations': 0,
                         'distinct_nontrivial': 0, 'obligations': 0, 'discharged': 0,
                         'samples': []},
            'assumptions': [], 'wall_s': round(wall, 3), 'violations': 0,
            'analysis_error': error,
        }
    else:
        obs = ctx.obligations
        distinct = {(o['rule'], o['instance']) for o in obs if o['found'] is not None or o['where']}
        # samples: a spread of actual obligations, one per rule first
        seen = set()
        samples = []
        for o in obs:
            if o['rule'] not in seen:
                seen.add(o['rule'])
                samples.append({k: o[k] for k in ('rule', 'instance', 'where', 'status', 'found', 'expected')})
        samples = samples[:60]
        rules = sorted({o['rule'] for o in obs})
        ev = {
            'property_id': prop, 'tier': tier, 'seed': int(seed), 'level': 'other',
            'coverage': {
                'explanation': meta.get('explanation', ''),
                'rule': meta.get('rule', 'one obligation = one (rule, instance) pair matched against a '
                                 'construct of the current source; non-trivial = it matched a real '
                                 'construct and compared an extracted fact with the expected fact'),
                'obligations': len(obs),
                'discharged': sum(o['status'] == 'discharged' for o in obs),
                'evaluations': len(obs),
                'distinct_nontrivial': len(distinct),
                'rules': rules,
                'samples': samples,
                'units': ctx.units,
                'exhaustive': bool(ctx.extra.get('exhaustive', False)),
                'checker_cmd': f'./check {prop} --tier {tier}',
                'trusted_base': ['CPython ast parser', 'cverif term normaliser and symbolic evaluator',
                                 'frozen expectation tables in cverif/props/' + prop + '.py'],
                **{k: v for k, v in ctx.extra.items() if k != 'exhaustive'},
            },
            'assumptions': ctx.assumptions,
            'wall_s': round(wall, 3),
            'violations': len(violations),
            'known_findings': [k.get('what', o['key']) for o, k in known_hits],
            'unrecognised': len(unrec),
            'notes': ctx.notes,
            'repo_root': repo_root(),
            'not_decided': meta.get('not_decided', []),
        }
    tmp = path + '.tmp'
    with open(tmp, 'w') as fh:
        json.dump(ev, fh, indent=1, default=str)
    os.replace(tmp, path)
