"""Term language, normaliser, printer and matcher (engine E2, part 1).

A *term* is a nested tuple whose first element is a kind string.  Terms are
built only through the constructor functions below, which put them in a
canonical form so that equivalent spellings of one computation compare equal:

* integer-linear arithmetic is a coefficient map  (``nnz + n == n + nnz``),
* comparisons have one orientation and constants on the right
  (``a - b < 1  ==  a < b + 1``,  ``not (a >= b)  ==  a < b``),
* boolean connectives are flattened, de-duplicated and sorted,
* the repository's idioms collapse to one operator each
  (``a // b``, ``np.floor(a / b)``, ``int(np.floor(a / b))``,
  ``np.floor(a / b).astype(int)``  ->  ``floordiv(a, b)``; ``np.r_[a, b]``,
  ``np.concatenate([a, b])`` -> ``cat(a, b)``; ``zip(e[:-1], e[1:])`` ->
  ``adj(e)``; both spellings of ``searchsorted`` -> ``ss(A, v, side)``).

Nothing here evaluates anything: the only "reasoning" is syntactic
normalisation.  Kinds
-----
('c', v)                    constant
('v', name)                 local symbol (parameter, unknown local); names that
                            start with ``Q_`` are metavariables in patterns
('g', dotted)               global / module-level / builtin name
('attr', base, name)
('sub', base, index)        index may be ('slice', lo, hi, step) or a tuple term
('slice', lo, hi, step)
('call', f, args, kws)      args: tuple of terms (may hold ('star', t));
                            kws: sorted tuple of ('kw', name, t) / ('dstar', t)
('lin', const, items)       items: sorted tuple of ('li', term, coef)
('mul', factors)  ('div', a, b)  ('floordiv', a, b)  ('ceildiv', a, b)
('bin', op, a, b)           any other binary operator
('neg', a) ('inv', a) ('not', a)
('cmp', op, a, b)           op in < <= == != in notin is isnot
('and', xs) ('or', xs) ('band', xs) ('bor', xs)
('ite', c, a, b)
('tuple', xs) ('list', xs) ('set', xs) ('dict', items)  items: ('kv', k, v)
('concat', xs)              ordered (string / list) concatenation
('fstr', parts)
('ss', A, v, side)          searchsorted
('cat', xs)                 array concatenation
('adj', e)                  adjacent pairs of a sequence of edges
('phi', loop, name)         loop-carried value at the head of an iteration
('after', loop, name, init, step, brk)   value after the loop
('elem', it, loop, path)    element of iterating ``it`` in loop ``loop``
('idx', loop)               iteration counter (enumerate)
('bv', name, depth)         variable bound by a comprehension / lambda
('comp', kind, elt, gens)   gens: tuple of ('gen', targetpat, iter, conds)
('lam', params, body)
('fn', qualname)            reference to a nested function
('enter', cm)               value bound by ``with cm as x``
('yieldv', id)              value sent into a generator (opaque)
('unk', why, id)            opaque
"""
from __future__ import annotations

KINDS = {
    'c', 'v', 'g', 'attr', 'sub', 'slice', 'call', 'star', 'dstar', 'kw', 'lin',
    'li', 'mul', 'div', 'floordiv', 'ceildiv', 'bin', 'neg', 'inv', 'not', 'cmp',
    'and', 'or', 'band', 'bor', 'ite', 'tuple', 'list', 'set', 'dict', 'kv',
    'concat', 'fstr', 'ss', 'cat', 'adj', 'phi', 'after', 'elem', 'idx', 'bv',
    'comp', 'gen', 'lam', 'fn', 'enter', 'yieldv', 'unk', 'await', 'starred', 'mut', 'nth',
}


def is_term(t):
    return isinstance(t, tuple) and len(t) > 0 and isinstance(t[0], str) and t[0] in KINDS


def _k(t):
    """Total order key over heterogeneous terms."""
    return repr(t)


def C(v):
    return ('c', v)


NONE = C(None)
TRUE = C(True)
FALSE = C(False)


def V(name):
    return ('v', name)


def G(name):
    return ('g', name)


def is_const(t, v=None):
    if t[0] != 'c':
        return False
    return True if v is None and False else True


def const_val(t, default=None):
    return t[1] if t[0] == 'c' else default


def is_int_const(t):
    return t[0] == 'c' and type(t[1]) is int


# ---------------------------------------------------------------------------
# linear arithmetic

def _to_lin(t):
    """-> (const, {term: coef}) or None if t is a non-numeric constant."""
    if t[0] == 'lin':
        return t[1], {li[1]: li[2] for li in t[2]}
    if t[0] == 'c':
        if type(t[1]) is int:
            return t[1], {}
        return 0, {t: 1}
    return 0, {t: 1}


def _from_lin(c, d):
    items = tuple(sorted((('li', t, k) for t, k in d.items() if k != 0), key=_k))
    if not items:
        return C(c)
    if c == 0 and len(items) == 1 and items[0][2] == 1:
        return items[0][1]
    return ('lin', c, items)


_STRINGY = {'concat', 'fstr', 'list', 'tuple'}


def _stringy(t):
    if t[0] in _STRINGY:
        return True
    if t[0] == 'c' and isinstance(t[1], (str, bytes)):
        return True
    if t[0] == 'call' and t[1] in (G('str'), G('list'), G('repr')):
        return True
    if t[0] == 'comp' and t[1] == 'list':
        return True
    return False


def concat(xs):
    """Ordered concatenation; adjacent string constants are merged so that
    "a" + f"b{x}", f"ab{x}" and "ab" + str(x) are one term."""
    flat = []
    for x in xs:
        if x[0] == 'concat':
            flat.extend(x[1])
        else:
            flat.append(x)
    out = []
    # next to a string constant a part is a string either way (`"a::" + x` needs x to be one, f"a::{x}" makes it one):
    # on every path that does not raise `x` and `str(x)` are the same part
    if any(x[0] == 'c' and isinstance(x[1], str) for x in flat):
        flat = [x[2][0] if (x[0] == 'call' and x[1] == G('str') and len(x[2]) == 1 and not x[3]
                            and not (x[2][0][0] == 'c')) else x for x in flat]
    for x in flat:
        if x[0] == 'c' and isinstance(x[1], str):
            if x[1] == '':
                continue
            if out and out[-1][0] == 'c' and isinstance(out[-1][1], str):
                out[-1] = C(out[-1][1] + x[1])
                continue
        out.append(x)
    if not out:
        return C('')
    if len(out) == 1:
        return out[0]
    return ('concat', tuple(out))


def add(a, b):
    if _stringy(a) or _stringy(b):
        return concat((a, b))
    ca, da = _to_lin(a)
    cb, db = _to_lin(b)
    d = dict(da)
    for t, k in db.items():
        d[t] = d.get(t, 0) + k
    return _from_lin(ca + cb, d)


def neg(a):
    if a[0] == 'c' and type(a[1]) in (int, float):
        return C(-a[1])
    if a[0] == 'neg':
        return a[1]
    if a[0] == 'floordiv':
        # -(-x // y) == ceil(x / y)
        n = a[1]
        nn = neg(n) if n[0] in ('lin', 'neg') else None
        if nn is not None and not _has_negative(nn):
            return ('ceildiv', nn, a[2])
    c, d = _to_lin(a)
    return _from_lin(-c, {t: -k for t, k in d.items()})


def _has_negative(t):
    if t[0] == 'lin':
        return any(li[2] < 0 for li in t[2])
    return t[0] == 'neg'


def sub_(a, b):
    if _stringy(a) or _stringy(b):
        return ('bin', '-', a, b)
    return add(a, neg(b))


def mulc(a, k):
    c, d = _to_lin(a)
    return _from_lin(c * k, {t: kk * k for t, kk in d.items()})


def mul(a, b):
    # (x,) * 2 is (x, x)
    for s, k in ((a, b), (b, a)):
        if s[0] in ('tuple', 'list') and is_int_const(k) and 0 <= k[1] <= 4 and not any(e[0] == 'star' for e in s[1]):
            return (s[0], tuple(s[1]) * k[1])
    if _stringy(a) or _stringy(b):
        return ('bin', '*', a, b)
    if is_int_const(a):
        return mulc(b, a[1])
    if is_int_const(b):
        return mulc(a, b[1])
    xs = (a[1] if a[0] == 'mul' else (a,)) + (b[1] if b[0] == 'mul' else (b,))
    return ('mul', tuple(sorted(xs, key=_k)))


def div(a, b):
    return ('div', a, b)


def floordiv(a, b):
    return ('floordiv', a, b)


def ceildiv(a, b):
    return ('ceildiv', a, b)


def binop(op, a, b):
    if op == '+':
        return add(a, b)
    if op == '-':
        return sub_(a, b)
    if op == '*':
        return mul(a, b)
    if op == '/':
        return div(a, b)
    if op == '//':
        return floordiv(a, b)
    if op == '&':
        return nary('band', (a, b))
    if op == '|':
        return nary('bor', (a, b))
    return ('bin', op, a, b)


# ---------------------------------------------------------------------------
# booleans and comparisons

_FLIP = {'<': '<=', '<=': '<'}
_NEGOP = {'==': '!=', '!=': '==', 'in': 'notin', 'notin': 'in', 'is': 'isnot', 'isnot': 'is'}


def _numericish(t):
    if t[0] == 'c':
        return type(t[1]) in (int, float)
    return t[0] not in ('tuple', 'list', 'set', 'dict', 'concat', 'fstr', 'slice', 'lam', 'fn')


_BUILDERS = {('g', n) for n in ('dict', 'list', 'tuple', 'set', 'frozenset', 'str', 'int', 'float', 'bool', 'len', 'sorted', 'range',
                                'np.array', 'np.asarray', 'np.zeros', 'np.ones', 'np.arange', 'pd.DataFrame', 'pd.Series')}


def _never_none(t):
    """Literals and results of constructors: objects that cannot be None."""
    if t[0] in ('list', 'tuple', 'dict', 'set', 'fstr', 'concat'):
        return True
    if t[0] == 'c':
        return t[1] is not None
    return t[0] == 'call' and t[1] in _BUILDERS


def cmp(op, a, b):
    # x in (c1, c2) is x == c1 or x == c2 (constant alternatives only)
    if op in ('in', 'not in', 'notin') and b[0] in ('tuple', 'list', 'set') and 1 <= len(b[1]) <= 4 \
            and all(e[0] == 'c' for e in b[1]) and a[0] != 'c':
        if op == 'in':
            return nary('or', tuple(cmp('==', a, e) for e in b[1]))
        return nary('and', tuple(cmp('!=', a, e) for e in b[1]))
    # x in {c1: v1, c2: v2} (a literal lookup table with constant keys) is x == c1 or x == c2
    if op in ('in', 'not in', 'notin') and b[0] == 'dict' and 1 <= len(b[1]) <= 12 \
            and all(kv[0] == 'kv' and kv[1][0] == 'c' for kv in b[1]) and a[0] != 'c':
        if op == 'in':
            return nary('or', tuple(cmp('==', a, kv[1]) for kv in b[1]))
        return nary('and', tuple(cmp('!=', a, kv[1]) for kv in b[1]))
    if op in ('is', 'is not', 'isnot') and a[0] == 'c' and b[0] == 'c' and (a[1] is None or b[1] is None):
        return C((a[1] is b[1]) == (op == 'is'))
    # identity with None:  a freshly built object is never None; the test distributes over a conditional
    if op in ('is', 'is not', 'isnot') and (a == ('c', None) or b == ('c', None)) and a != b:
        x = b if a == ('c', None) else a
        if _never_none(x):
            return C(op != 'is')
        if x[0] == 'ite' and (_never_none(x[2]) or _never_none(x[3]) or x[2] == ('c', None) or x[3] == ('c', None)):
            return ite(x[1], cmp(op, x[2], ('c', None)), cmp(op, x[3], ('c', None)))
    r = _cmp0(op, a, b)
    # a length is a non-negative integer: 0 < len(x), 1 <= len(x), len(x) != 0 are one test; so are
    # len(x) < 1, len(x) <= 0, len(x) == 0
    if r[0] == 'cmp':
        o, x, y = r[1], r[2], r[3]
        if (o == '<' and x == C(0) and _is_len(y)) or (o == '<=' and x == C(1) and _is_len(y)):
            return _cmp0('!=', y, C(0))
        if (o == '<' and _is_len(x) and y == C(1)) or (o == '<=' and _is_len(x) and y == C(0)):
            return _cmp0('==', x, C(0))
    return r


def _cmp0(op, a, b):
    if op == '>':
        op, a, b = '<', b, a
    elif op == '>=':
        op, a, b = '<=', b, a
    elif op == 'not in':
        op = 'notin'
    elif op == 'is not':
        op = 'isnot'
    if op in ('<', '<=', '==', '!=') and _numericish(a) and _numericish(b) \
            and not (a[0] == 'c' and type(a[1]) is float) and not (b[0] == 'c' and type(b[1]) is float):
        ca, da = _to_lin(a)
        cb, db = _to_lin(b)
        d = dict(da)
        for t, k in db.items():
            d[t] = d.get(t, 0) - k
        d = {t: k for t, k in d.items() if k != 0}
        c = ca - cb
        if not d:
            # constant comparison
            val = {'<': c < 0, '<=': c <= 0, '==': c == 0, '!=': c != 0}[op]
            return C(val)
        if op in ('==', '!='):
            first = sorted(d.items(), key=lambda kv: _k(kv[0]))[0]
            if first[1] < 0:
                d = {t: -k for t, k in d.items()}
                c = -c
        pos = {t: k for t, k in d.items() if k > 0}
        negs = {t: -k for t, k in d.items() if k < 0}
        # integer tightening of unit offsets (bin ids, offsets and lengths are integers):
        #   a < b + 1  ==  a <= b        a <= b - 1  ==  a < b
        if pos and negs:
            if op == '<' and c == -1:
                op, c = '<=', 0
            elif op == '<=' and c == 1:
                op, c = '<', 0
        if not pos:
            # constant on the left when the left side has no terms:  c < x
            return ('cmp', op, C(c), _from_lin(0, negs))
        lhs = _from_lin(0, pos)
        rhs = _from_lin(-c, negs)
        return ('cmp', op, lhs, rhs)
    if op in ('==', '!='):
        a, b = sorted((a, b), key=_k)
    return ('cmp', op, a, b)


def _is_len(t):
    return t[0] == 'call' and t[1] == ('g', 'len') and len(t[2]) == 1 and not t[3]


def not_(a):
    k = a[0]
    if _is_len(a):
        return cmp('==', a, C(0))
    if k == 'c' and isinstance(a[1], bool):
        return C(not a[1])
    if k == 'not':
        return a[1]
    if k == 'cmp':
        op = a[1]
        if op in _FLIP:
            return ('cmp', _FLIP[op], a[3], a[2])
        if op in _NEGOP:
            return ('cmp', _NEGOP[op], a[2], a[3])
    if k == 'and':
        return nary('or', tuple(not_(x) for x in a[1]))
    if k == 'or':
        return nary('and', tuple(not_(x) for x in a[1]))
    return ('not', a)


def inv(a):
    """numpy elementwise ~ on boolean masks."""
    k = a[0]
    if k == 'inv':
        return a[1]
    if k == 'cmp' and a[1] in ('<', '<=', '==', '!='):
        return not_(a)
    if k == 'band':
        return nary('bor', tuple(inv(x) for x in a[1]))
    if k == 'bor':
        return nary('band', tuple(inv(x) for x in a[1]))
    return ('inv', a)


def nary(kind, xs):
    out = []
    for x in xs:
        if x[0] == kind:
            out.extend(x[1])
        else:
            out.append(x)
    if kind in ('and', 'or'):
        absorbing = (kind == 'or')
        flt = []
        for x in out:
            if x[0] == 'c' and isinstance(x[1], bool):
                if x[1] == absorbing:
                    return C(absorbing)
                continue
            flt.append(x)
        out = flt
        if not out:
            return C(not absorbing)
    uniq = sorted(set(out), key=_k)
    if len(uniq) == 1:
        return uniq[0]
    return (kind, tuple(uniq))


def _eq_pairs(c):
    """Equalities implied by a condition: list of (a, b)."""
    if c[0] == 'cmp' and c[1] == '==':
        a, b = c[2], c[3]
        if a[0] == 'tuple' and b[0] == 'tuple' and len(a[1]) == len(b[1]):
            return list(zip(a[1], b[1]))
        return [(a, b)]
    if c[0] == 'and':
        out = []
        for x in c[1]:
            out.extend(_eq_pairs(x))
        return out
    return []


def as_cond(c):
    """A term in condition position: a bare length is the test len(x) != 0 (through and / or / not)."""
    if _is_len(c):
        return cmp('!=', c, C(0))
    if c[0] == 'call' and c[1][0] == 'g' and isinstance(c[1][1], str) and c[1][1].startswith(('$new_', '$obj')):
        return cmp('!=', call(G('len'), (c,)), C(0))       # a list / dict object is true iff it is non-empty
    if c[0] in ('and', 'or'):
        parts = tuple(as_cond(x) for x in c[1])
        return nary(c[0], parts) if parts != tuple(c[1]) else c
    if c[0] == 'not' and c[1][0] == 'call' and c[1][1][0] == 'g' and isinstance(c[1][1][1], str) and c[1][1][1].startswith(('$new_', '$obj')):
        return not_(as_cond(c[1]))
    if c[0] == 'not' and (_is_len(c[1]) or c[1][0] in ('and', 'or')):
        return not_(as_cond(c[1]))
    return c


def ite(c, a, b):
    if a == b:
        return a
    c = as_cond(c)
    if c[0] == 'c':
        return a if c[1] else b
    if c[0] == 'not':
        return ite(c[1], b, a)
    # one orientation per condition: of c and not-c exactly one is "positive" (==, <, in, is, and);
    # `x if c else y` and `y if not c else x` get the same term
    if (c[0] == 'cmp' and c[1] in ('!=', '<=', 'notin', 'isnot')) or c[0] == 'or':
        n = not_(c)
        if not ((n[0] == 'cmp' and n[1] in ('!=', '<=', 'notin', 'isnot')) or n[0] in ('or', 'not')):
            return ite(n, b, a)
    # a conditional on the same test inside one of the arms is decided there
    if a[0] == 'ite' and a[1] == c:
        return ite(c, a[2], b)
    if b[0] == 'ite' and b[1] == c:
        return ite(c, a, b[3])
    # True if c else False  is  bool(c);  False if c else True  is  not c
    if a == ('c', True) and b == ('c', False):
        def _b(x):
            return x[0] in ('cmp', 'not') or (x[0] == 'call' and x[1] in (('g', 'all'), ('g', 'any'), ('g', 'isinstance'), ('g', 'bool'),
                                                                         ('g', 'callable'), ('g', 'hasattr'), ('g', 'issubclass'))) \
                or (x[0] == 'call' and x[1][0] == 'attr' and x[1][2] in ('startswith', 'endswith', 'isdigit', 'exists'))
        boolean = _b(c) or (c[0] in ('and', 'or') and all(_b(x) for x in c[1]))
        return c if boolean else ('call', ('g', 'bool'), (c,), ())
    if a == ('c', False) and b == ('c', True):
        return not_(c)
    # nested conditionals with a shared arm:  (x if d else y) if c else y  ==  x if (c and d) else y
    if a[0] == 'ite' and a[3] == b:
        return ite(nary('and', (c, a[1])), a[2], b)
    if a[0] == 'ite' and a[2] == b:
        return ite(nary('and', (c, not_(a[1]))), a[3], b)
    if b[0] == 'ite' and b[2] == a:
        return ite(nary('and', (not_(c), not_(b[1]))), b[3], a)
    if b[0] == 'ite' and b[3] == a:
        return ite(nary('and', (not_(c), b[1])), b[2], a)
    pairs = _eq_pairs(c)
    if pairs:
        # under the condition the paired terms are equal: if rewriting one side
        # into the other makes both arms equal, the conditional is redundant
        fw = subst(a, dict(pairs))
        if fw == b or subst(b, dict(pairs)) == fw:
            return b
        bw = {y: x for x, y in pairs}
        if subst(a, bw) == subst(b, bw):
            return b
    return ('ite', c, a, b)


# ---------------------------------------------------------------------------
# structured values and calls

def tup(xs):
    return ('tuple', tuple(xs))


def lst(xs):
    return ('list', tuple(xs))


def attr(base, name):
    if base[0] == 'g' and base[1] in MODULE_NAMES:
        return G(base[1] + '.' + name)
    # slice(a, b).start is a, .stop is b
    if base[0] == 'slice' and name in ('start', 'stop'):
        return base[1 if name == 'start' else 2]
    return ('attr', base, name)


MODULE_NAMES = set()   # filled by model: dotted names that denote modules
SIGNATURES = {}        # filled by model: package function / class -> positional parameter names
DISPLAY_NAMES = {}     # canonical loop-variable name -> source identifier (display only)


def slice_(lo, hi, step=NONE):
    return ('slice', lo, hi, step)


def _cat(xs):
    """Concatenation; a one-element list literal contributes its element ([0] and 0 give the same array)."""
    return ('cat', tuple((x[1][0] if x[0] in ('list', 'tuple') and len(x[1]) == 1 and x[1][0][0] != 'star' else x) for x in xs))


def _known_scalar(t):
    """An integer scalar by its form: an end point of a span of util.partition, a length."""
    if t[0] == 'elem' and t[1][0] == 'call' and t[1][1] == G('cooler.util.partition') and len(t) > 3 and t[3] in ((0,), (1,)):
        return True
    return t[0] == 'call' and t[1] == G('len')


def sub(base, index):
    if base == G('np.r_'):
        xs = index[1] if index[0] == 'tuple' else (index,)
        return _cat(tuple(xs))
    # projection out of literal tuples/lists by constant index
    if base[0] in ('tuple', 'list') and is_int_const(index):
        i = index[1]
        if -len(base[1]) <= i < len(base[1]):
            return base[1][i]
    if base[0] == 'dict':
        for kv in base[1]:
            if kv[0] == 'kv' and kv[1] == index:
                return kv[2]
    # selecting from `offset + array` with a mask / index array:  (lo + i)[m]  is  lo + i[m]  when lo is a scalar - the
    # start of a row span (an item of util.partition) or an integer constant; the other summands are the arrays
    if base[0] == 'lin' and index[0] not in ('c', 'slice') and len(base[2]) >= 2:
        scal = [li for li in base[2] if _known_scalar(li[1])]
        arrs = [li for li in base[2] if not _known_scalar(li[1])]
        if scal and arrs:
            d = {li[1]: li[2] for li in scal}
            for li in arrs:
                d[sub(li[1], index)] = d.get(sub(li[1], index), 0) + li[2]
            return _from_lin(base[1], d)
    # a constant selector distributes over a conditional:  (a if c else b)[0]  ==  a[0] if c else b[0]
    if base[0] == 'ite' and index[0] == 'c':
        return ite(base[1], sub(base[2], index), sub(base[3], index))
    return ('sub', base, index)


_INTLIKE = {G('int'), G('np.int64'), G('np.int32'), G('np.int_'), C('int'), C('int64'),
            G('np.intp'), G('np.uint64')}
_FLOOR = {G('np.floor'), G('math.floor'), G('floor')}
_CEIL = {G('np.ceil'), G('math.ceil'), G('ceil')}


def call(f, args=(), kws=()):
    args = tuple(args)
    kws = tuple(sorted(kws, key=_k))
    nokw = not kws
    # isinstance(x, (A, B)) is isinstance(x, A) or isinstance(x, B)
    if f == ('g', 'isinstance') and nokw and len(args) == 2 and args[1][0] == 'tuple' and len(args[1][1]) >= 2 \
            and not any(e[0] == 'star' for e in args[1][1]):
        return nary('or', tuple(('call', f, (args[0], e), ()) for e in args[1][1]))
    # slice(a, b) is a:b
    if f == ('g', 'slice') and nokw and len(args) in (2, 3):
        return ('slice', args[0], args[1], args[2] if len(args) == 3 else ('c', None))
    # x.get(k, None) is x.get(k)
    if f[0] == 'attr' and f[2] == 'get' and nokw and len(args) == 2 and args[1] == ('c', None):
        args = args[:1]
    # {c1: v1, c2: v2, ...}.get(x[, d]) - a literal lookup table with constant keys - is the if-ladder
    #   v1 if x == c1 else v2 if x == c2 else ... d        (keys of one value share an arm)
    if f[0] == 'attr' and f[2] == 'get' and nokw and len(args) in (1, 2) and f[1][0] == 'dict' and 1 <= len(f[1][1]) <= 12 \
            and all(kv[0] == 'kv' and kv[1][0] == 'c' for kv in f[1][1]) and args[0][0] != 'c':
        out = args[1] if len(args) == 2 else ('c', None)
        groups = []
        for kv in f[1][1]:
            for g in groups:
                if g[0] == kv[2]:
                    g[1].append(kv[1])
                    break
            else:
                groups.append((kv[2], [kv[1]]))
        for v, keys in reversed(groups):
            out = ite(nary('or', tuple(cmp('==', args[0], k) for k in keys)), v, out)
        return out
    # range(0, n) is range(n); range(a, b, 1) is range(a, b)
    if f == ('g', 'range') and nokw and len(args) == 3 and args[2] == C(1):
        args = args[:2]
    if f == ('g', 'range') and nokw and len(args) == 2 and args[0] == C(0):
        args = args[1:]
    # floor / ceil of a true division
    if f in _FLOOR and nokw and len(args) == 1 and args[0][0] == 'div':
        return ('floordiv', args[0][1], args[0][2])
    if f in _CEIL and nokw and len(args) == 1 and args[0][0] == 'div':
        return ('ceildiv', args[0][1], args[0][2])
    if f in _FLOOR and nokw and len(args) == 1 and args[0][0] in ('floordiv', 'ceildiv'):
        return args[0]
    # int(floor(...)) / int(ceil(...)) / int(a // b)
    if f in _INTLIKE and nokw and len(args) == 1 and args[0][0] in ('floordiv', 'ceildiv'):
        return args[0]
    if f in _INTLIKE and nokw and len(args) == 1 and is_int_const(args[0]):
        return args[0]
    # X.astype(inttype) on an integral value
    if f[0] == 'attr' and f[2] == 'astype' and f[1][0] in ('floordiv', 'ceildiv') and args \
            and args[0] in _INTLIKE:
        return f[1]
    # transparent scalar casts  X.dtype.type(y)
    if f[0] == 'attr' and f[2] == 'type' and f[1][0] == 'attr' and f[1][2] == 'dtype' \
            and nokw and len(args) == 1:
        return args[0]
    # searchsorted, both spellings
    if f == G('np.searchsorted') and 2 <= len(args) <= 3:
        side = args[2] if len(args) == 3 else C('left')
        rest = []
        for kw in kws:
            if kw[0] == 'kw' and kw[1] == 'side':
                side = kw[2]
            else:
                rest.append(kw)
        if not rest:
            return ('ss', args[0], args[1], side)
    if f[0] == 'attr' and f[2] == 'searchsorted' and 1 <= len(args) <= 2:
        side = args[1] if len(args) == 2 else C('left')
        rest = []
        for kw in kws:
            if kw[0] == 'kw' and kw[1] == 'side':
                side = kw[2]
            else:
                rest.append(kw)
        if not rest:
            return ('ss', f[1], args[0], side)
    # concatenation of a literal list
    if f == G('np.concatenate') and len(args) == 1 and args[0][0] in ('list', 'tuple'):
        rest = [kw for kw in kws if not (kw[0] == 'kw' and kw[1] == 'axis' and kw[2] == C(0))]
        if not rest:
            return _cat(args[0][1])
    # np.diff(a, append=b) is np.diff(np.r_[a, b]);  np.diff(a, prepend=b) is np.diff(np.r_[b, a])
    if f == G('np.diff') and len(args) == 1 and len(kws) == 1 and kws[0][0] == 'kw' and kws[0][1] in ('append', 'prepend'):
        parts = (args[0], kws[0][2]) if kws[0][1] == 'append' else (kws[0][2], args[0])
        return ('call', f, (_cat(parts),), ())
    # dict(zip(A, range(len(B)))) with B == A or A == B[<column>] (a column of the table B has the table's length):
    # the position of every item of A - also written {v: i for i, v in enumerate(A)}
    if f == G('dict') and nokw and len(args) == 1 and args[0][0] == 'call' and args[0][1] == G('zip') and len(args[0][2]) == 2 \
            and not args[0][3]:
        a, r = args[0][2]
        if r[0] == 'call' and r[1] == G('range') and len(r[2]) == 1 and not r[3] and r[2][0][0] == 'call' and r[2][0][1] == G('len') \
                and len(r[2][0][2]) == 1:
            b = r[2][0][2][0]
            if b == a or (a[0] == 'sub' and a[1] == b and a[2][0] == 'c'):
                return ('call', G('$positions'), (a,), ())
    # a call through a conditional callee distributes:  (f if c else g)(x)  is  f(x) if c else g(x)
    if f[0] == 'ite' and f[2][0] in ('g', 'fn') and f[3][0] in ('g', 'fn', 'ite'):
        return ite(f[1], call(f[2], args, kws), call(f[3], args, kws))
    # list(d.keys()) is list(d): iterating a mapping is iterating its keys
    if f in (G('list'), G('sorted'), G('set'), G('tuple')) and nokw and len(args) == 1 and args[0][0] == 'call' \
            and args[0][1][0] == 'attr' and args[0][1][2] == 'keys' and not args[0][2] and not args[0][3]:
        args = (args[0][1][1],)
    # reversed(range(n)) counts down like range(n - 1, -1, -1)
    if f == G('reversed') and nokw and len(args) == 1 and args[0][0] == 'call' and args[0][1] == G('range') \
            and len(args[0][2]) == 1 and not args[0][3]:
        return call(G('range'), (add(args[0][2][0], C(-1)), C(-1), C(-1)))
    # functools.reduce(f, iter(xs), init) folds xs  (a bare `reduce` is functools.reduce: Python 3 has no other)
    if f == G('reduce'):
        f = G('functools.reduce')
    if f == G('functools.reduce') and nokw and len(args) in (2, 3) and args[1][0] == 'call' and args[1][1] == G('iter') \
            and len(args[1][2]) == 1 and not args[1][3]:
        args = (args[0], args[1][2][0]) + tuple(args[2:])
    # np.append(a, b) concatenates
    if f == G('np.append') and nokw and len(args) == 2:
        return _cat((args[0], args[1]))
    # x.extend([e]) is x.append(e)
    if f[0] == 'attr' and f[2] == 'extend' and nokw and len(args) == 1 and args[0][0] == 'list' and len(args[0][1]) == 1 \
            and args[0][1][0][0] != 'star':
        return ('call', ('attr', f[1], 'append'), (args[0][1][0],), ())
    # zip(e[:-1], e[1:])
    if f == G('zip') and nokw and len(args) == 2:
        a, b = args
        if a[0] == 'sub' and b[0] == 'sub' and a[1] == b[1] \
                and a[2] == slice_(NONE, C(-1)) and b[2] == slice_(C(1), NONE):
            return ('adj', a[1])
    # list(<list literal>) / tuple(<tuple literal>)
    if f == G('list') and nokw and len(args) == 1 and args[0][0] == 'list':
        return args[0]
    # max / min of positional arguments are commutative
    if f in (G('max'), G('min'), G('np.maximum'), G('np.minimum')) and nokw and len(args) >= 2 \
            and not any(a[0] == 'star' for a in args):
        args = tuple(sorted(args, key=_k))
    return ('call', f, args, kws)


def unmut(t):
    """Object identity behind a versioned ('mut') term."""
    while t[0] == 'mut':
        t = t[1]
    return t


def kw(name, t):
    return ('kw', name, t)


def get_kw(c, name, default=None):
    """Keyword argument ``name`` of a ('call', ...) term."""
    if c[0] != 'call':
        return default
    for k in c[3]:
        if k[0] == 'kw' and k[1] == name:
            return k[2]
    # a package-local callee: the evaluator passes leading keyword arguments positionally
    # (one spelling per call), so look the name up in the callee's signature
    if c[1][0] == 'g' and c[1][1] in SIGNATURES:
        params = SIGNATURES[c[1][1]]
        if name in params:
            i = params.index(name)
            if i < len(c[2]) and not any(a[0] == 'star' for a in c[2][:i + 1]):
                return c[2][i]
    return default


def call_arg(c, pos, name=None, default=None):
    """Positional-or-keyword argument of a call term."""
    if c[0] != 'call':
        return default
    args = c[2]
    if pos is not None and pos < len(args) and args[pos][0] != 'star':
        if not any(a[0] == 'star' for a in args[:pos]):
            return args[pos]
    if name is not None:
        return get_kw(c, name, default)
    return default


# ---------------------------------------------------------------------------
# generic traversal / substitution / rebuilding

def children(t):
    """Immediate sub-terms (flattening plain container tuples)."""
    out = []
    for x in t[1:]:
        if is_term(x):
            out.append(x)
        elif isinstance(x, tuple):
            for y in x:
                if is_term(y):
                    out.append(y)
    return out


def walk(t):
    """All sub-terms, pre-order."""
    stack = [t]
    while stack:
        x = stack.pop()
        yield x
        stack.extend(reversed(children(x)))


def contains(t, sub_t):
    return any(x == sub_t for x in walk(t))


def find(t, pred):
    return [x for x in walk(t) if pred(x)]


def _rebuild(t):
    k = t[0]
    if k == 'lin':
        acc = C(t[1])
        for li in t[2]:
            acc = add(acc, mulc(li[1], li[2]))
        return acc
    if k == 'mul':
        acc = None
        for x in t[1]:
            acc = x if acc is None else mul(acc, x)
        return acc
    if k == 'cmp':
        return cmp(t[1], t[2], t[3])
    if k in ('and', 'or', 'band', 'bor'):
        return nary(k, t[1])
    if k == 'not':
        return not_(t[1])
    if k == 'inv':
        return inv(t[1])
    if k == 'neg':
        return neg(t[1])
    if k == 'ite':
        return ite(t[1], t[2], t[3])
    if k == 'call':
        return call(t[1], t[2], t[3])
    if k == 'sub':
        return sub(t[1], t[2])
    if k == 'attr':
        return attr(t[1], t[2])
    if k == 'concat':
        return concat(t[1])
    return t


def subst(t, mapping):
    """Replace every occurrence of the keys of ``mapping`` and renormalise."""
    if not mapping:
        return t

    def go(x):
        if x in mapping:
            return mapping[x]
        if not isinstance(x, tuple):
            return x
        if is_term(x):
            new = (x[0],) + tuple(go(y) for y in x[1:])
            if new != x:
                return _rebuild(new)
            return x
        return tuple(go(y) for y in x)
    return go(t)


def transform(t, f):
    """Bottom-up rewrite: f(term) -> term or None (keep)."""
    def go(x):
        if not isinstance(x, tuple):
            return x
        if is_term(x):
            new = (x[0],) + tuple(go(y) for y in x[1:])
            if new != x:
                new = _rebuild(new)
            r = f(new)
            return new if r is None else r
        return tuple(go(y) for y in x)
    return go(t)


def match(pat, t, binds=None):
    """Structural match with metavariables ('v', 'Q_*').  Returns binds or None."""
    if binds is None:
        binds = {}
    if isinstance(pat, tuple) and len(pat) == 2 and pat[0] == 'v' and isinstance(pat[1], str) \
            and pat[1].startswith('Q_'):
        if pat[1] == 'Q_':
            return binds
        if pat[1] in binds:
            return binds if binds[pat[1]] == t else None
        binds[pat[1]] = t
        return binds
    if not isinstance(pat, tuple):
        return binds if pat == t else None
    if not isinstance(t, tuple) or len(pat) != len(t):
        return None
    for p, x in zip(pat, t):
        if match(p, x, binds) is None:
            return None
    return binds


# ---------------------------------------------------------------------------
# printing

_PREC_ATOM = 100


def show(t, depth=0):
    if not isinstance(t, tuple):
        return repr(t)
    if not is_term(t):
        return '(' + ', '.join(show(x, depth + 1) for x in t) + ')'
    if depth > 40:
        return '...'
    k = t[0]
    s = lambda x: show(x, depth + 1)
    if k == 'c':
        return repr(t[1])
    if k == 'v':
        return t[1]
    if k == 'g':
        return t[1]
    if k == 'attr':
        return f'{s(t[1])}.{t[2]}'
    if k == 'sub':
        return f'{s(t[1])}[{s(t[2])}]'
    if k == 'slice':
        lo = '' if t[1] == NONE else s(t[1])
        hi = '' if t[2] == NONE else s(t[2])
        st = '' if t[3] == NONE else ':' + s(t[3])
        return f'{lo}:{hi}{st}'
    if k == 'call':
        parts = [s(a) for a in t[2]] + [s(x) for x in t[3]]
        return f'{s(t[1])}({", ".join(parts)})'
    if k == 'kw':
        return f'{t[1]}={s(t[2])}'
    if k == 'kv':
        return f'{s(t[1])}: {s(t[2])}'
    if k == 'star':
        return '*' + s(t[1])
    if k == 'dstar':
        return '**' + s(t[1])
    if k == 'lin':
        parts = []
        for li in t[2]:
            term, coef = li[1], li[2]
            body = s(term)
            if term[0] in ('ite', 'cmp', 'and', 'or', 'bor', 'band'):
                body = '(' + body + ')'
            if coef == 1:
                parts.append('+ ' + body)
            elif coef == -1:
                parts.append('- ' + body)
            elif coef > 0:
                parts.append(f'+ {coef}*{body}')
            else:
                parts.append(f'- {-coef}*{body}')
        if t[1] > 0:
            parts.append(f'+ {t[1]}')
        elif t[1] < 0:
            parts.append(f'- {-t[1]}')
        out = ' '.join(parts)
        if out.startswith('+ '):
            out = out[2:]
        return '(' + out + ')' if depth else out
    if k == 'mul':
        return '*'.join('(' + s(x) + ')' if x[0] in ('lin', 'ite') else s(x) for x in t[1])
    if k == 'div':
        return f'({s(t[1])} / {s(t[2])})'
    if k == 'floordiv':
        return f'floordiv({s(t[1])}, {s(t[2])})'
    if k == 'ceildiv':
        return f'ceildiv({s(t[1])}, {s(t[2])})'
    if k == 'bin':
        return f'({s(t[2])} {t[1]} {s(t[3])})'
    if k == 'neg':
        return f'-{s(t[1])}'
    if k == 'inv':
        return f'~{s(t[1])}'
    if k == 'not':
        return f'not {s(t[1])}'
    if k == 'cmp':
        op = {'notin': 'not in', 'isnot': 'is not'}.get(t[1], t[1])
        return f'{s(t[2])} {op} {s(t[3])}'
    if k in ('and', 'or'):
        return '(' + f' {k} '.join(s(x) for x in t[1]) + ')'
    if k == 'band':
        return '(' + ' & '.join('(' + s(x) + ')' for x in t[1]) + ')'
    if k == 'bor':
        return '(' + ' | '.join('(' + s(x) + ')' for x in t[1]) + ')'
    if k == 'ite':
        return f'({s(t[2])} if {s(t[1])} else {s(t[3])})'
    if k == 'tuple':
        return '(' + ', '.join(s(x) for x in t[1]) + (',)' if len(t[1]) == 1 else ')')
    if k == 'list':
        return '[' + ', '.join(s(x) for x in t[1]) + ']'
    if k == 'set':
        return '{' + ', '.join(s(x) for x in t[1]) + '}'
    if k == 'dict':
        return '{' + ', '.join(s(x) for x in t[1]) + '}'
    if k == 'concat':
        return ' ++ '.join(s(x) for x in t[1])
    if k == 'fstr':
        return 'f"' + ''.join(x[1] if x[0] == 'c' and isinstance(x[1], str) else '{' + s(x) + '}' for x in t[1]) + '"'
    if k == 'ss':
        return f'searchsorted({s(t[1])}, {s(t[2])}, {s(t[3])})'
    if k == 'cat':
        return 'cat(' + ', '.join(s(x) for x in t[1]) + ')'
    if k == 'adj':
        return f'adj({s(t[1])})'
    if k == 'phi':
        return f'{DISPLAY_NAMES.get(t[2], t[2])}@{t[1]}'
    if k == 'after':
        return f'{DISPLAY_NAMES.get(t[2], t[2])}@after({t[1]})'
    if k == 'elem':
        p = ''.join(f'.{i}' for i in t[3])
        return f'each({s(t[1])}){p}'
    if k == 'idx':
        return f'index@{t[1]}'
    if k == 'bv':
        return f'${t[1]}'
    if k == 'comp':
        gens = ' '.join(s(g) for g in t[3])
        br = {'list': '[]', 'set': '{}', 'gen': '()', 'dict': '{}'}[t[1]]
        return f'{br[0]}{s(t[2])} {gens}{br[1]}'
    if k == 'gen':
        cond = ''.join(f' if {s(c)}' for c in t[3])
        return f'for {s(t[1])} in {s(t[2])}{cond}'
    if k == 'lam':
        return f'(lambda {", ".join(t[1])}: {s(t[2])})'
    if k == 'fn':
        return f'<fn {t[1]}>'
    if k == 'enter':
        return f'enter({s(t[1])})'
    if k == 'mut':
        return f'{s(t[1])}′{t[2]}'
    if k == 'nth':
        return f'{s(t[2])}#{t[1]}'
    if k == 'unk':
        return f'<?{t[1]}>'
    if k == 'yieldv':
        return '<sent>'
    return k + '(' + ', '.join(s(x) for x in t[1:]) + ')'
