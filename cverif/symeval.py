"""Forward symbolic dataflow evaluation of one function (engine E2).

A single structured walk over the function's AST maps every name to a
normalised *term* (see :mod:`terms`) over parameters, globals, loop variables
and opaque call results, and records *events* (calls, stores, returns, raises,
deletes, augmented assignments) together with

* the guard stack: enclosing ``if`` tests with polarity, plus *path guards*
  (after ``if c: raise/return/continue/break`` the rest of the block runs
  under ``not c``),
* the loop nest, the ``with`` stack, the ``try`` context (which exception
  types are handled around the event, whether it sits in a ``finally``).

This is value-numbering-style expression reconstruction.  Guards are never
checked for satisfiability, no path is enumerated, nothing is executed.
"""
from __future__ import annotations

import ast
import os

from . import terms as T
from .model import AnalysisError, FuncInfo, Repo

UNDEF = ('unk', 'undef', 0)

_BINOPS = {
    ast.Add: '+', ast.Sub: '-', ast.Mult: '*', ast.Div: '/', ast.FloorDiv: '//',
    ast.Mod: '%', ast.Pow: '**', ast.BitAnd: '&', ast.BitOr: '|', ast.BitXor: '^',
    ast.LShift: '<<', ast.RShift: '>>', ast.MatMult: '@',
}
_CMPOPS = {
    ast.Lt: '<', ast.LtE: '<=', ast.Gt: '>', ast.GtE: '>=', ast.Eq: '==', ast.NotEq: '!=',
    ast.In: 'in', ast.NotIn: 'not in', ast.Is: 'is', ast.IsNot: 'is not',
}


from .model import known_names as _known_names  # noqa: E402


_HELPERS = {}
_HELPERS_BUSY = set()


def _helper_summary(repo, qual, skip):
    """(params, kwonly, default terms, return term) of an effect-free straight-line helper, or None."""
    key = (repo.root, qual)
    if key in _HELPERS:
        return _HELPERS[key]
    if key in _HELPERS_BUSY:
        return None
    _HELPERS_BUSY.add(key)
    out = None
    try:
        fi = repo.funcs[qual]
        a = fi.node.args
        if not (fi.parent is not None or fi.node.decorator_list or a.vararg or a.kwarg
                or any(isinstance(n, (ast.Yield, ast.YieldFrom, ast.Await)) for n in ast.walk(fi.node))):
            fa = FuncAnalysis(repo, fi, versioned=False)
            rets, ok, inner = [], True, []
            for e in fa.events:
                if e.d.get('in_lambda') or e.d.get('in_comp'):
                    continue
                if e.kind == 'return':
                    rets.append(e)
                elif e.kind in ('raise', 'yield', 'yield_from', 'store_sub', 'store_attr', 'aug_sub', 'aug_attr', 'del', 'delattr',
                                'store_global', 'store_nonlocal', 'break', 'continue', 'with', 'assert') or (e.kind == 'call' and e.stmt):
                    ok = False
                elif e.kind == 'call':
                    inner.append((e.term, e.f, e.args, e.kws, [(c if pol else T.not_(c)) for c, pol in e.guards]))
                if e.loops:
                    ok = False
            if ok and rets and not fa.unrecognised:
                acc = T.C(None) if rets[-1].cguards else None
                for e in reversed(rets):
                    conds = [(c if pol else T.not_(c)) for (c, pol), k in zip(e.guards, e.gkinds) if k == 'if']
                    if acc is None or not conds:
                        acc = e.value
                    else:
                        c = conds[0] if len(conds) == 1 else T.nary('and', tuple(conds))
                        acc = T.ite(c, e.value, acc)
                bad = False
                for x in T.walk(acc):
                    if isinstance(x, tuple) and x and (x[0] in ('mut', 'nth', 'unk', 'phi', 'after', 'elem')
                                                       or (x[0] == 'g' and isinstance(x[1], str) and x[1].startswith('$'))):
                        bad = True
                        break
                if not bad:
                    params = [x.arg for x in list(a.posonlyargs) + list(a.args)][skip:]
                    kwonly = [x.arg for x in a.kwonlyargs]
                    dterms = {}
                    pos = list(a.posonlyargs) + list(a.args)
                    for arg, d in list(zip(pos[len(pos) - len(a.defaults):], a.defaults)) + \
                            [(x, d) for x, d in zip(a.kwonlyargs, a.kw_defaults) if d is not None]:
                        try:
                            dterms[arg.arg] = T.C(ast.literal_eval(d))
                        except (ValueError, SyntaxError, TypeError):
                            dterms[arg.arg] = None
                    out = (params, kwonly, dterms, acc, inner)
    except Exception:       # the helper cannot be summarised: keep the call
        out = None
    finally:
        _HELPERS_BUSY.discard(key)
    _HELPERS[key] = out
    return out


_VALIDATORS = {}
_MODVALS = {}


def _module_value(repo, qual):
    """Term of a module-level name the checker does not know, bound once to a constructor-like expression
    (a compiled regex, a table, a tuple of names ...): hoisting an expression to a module constant is not
    a change.  None if the name is known, is a def / class / import, or its value is not a plain expression."""
    key = (repo.root, qual)
    if key in _MODVALS:
        return _MODVALS[key]
    _MODVALS[key] = None
    if '.' not in qual:
        return None
    mod, name = qual.rsplit('.', 1)
    m = repo.modules.get(mod)
    if m is None or name not in m.assigns or name in m.defs or name in _known_names() or name.startswith('__'):
        return None
    # bound exactly once at module level
    n_bind = 0
    for node in ast.walk(m.tree):
        if isinstance(node, (ast.Assign, ast.AnnAssign, ast.AugAssign)):
            tgts = node.targets if isinstance(node, ast.Assign) else [node.target]
            for t in tgts:
                for x in ast.walk(t):
                    if isinstance(x, ast.Name) and x.id == name:
                        n_bind += 1
    if n_bind != 1:
        return None
    expr = m.assigns[name]
    if any(isinstance(x, (ast.Lambda, ast.Yield, ast.YieldFrom, ast.Await, ast.NamedExpr, ast.GeneratorExp)) for x in ast.walk(expr)):
        return None
    fn = ast.FunctionDef(name='_module_value_', args=ast.arguments(posonlyargs=[], args=[], kwonlyargs=[], kw_defaults=[], defaults=[]),
                         body=[ast.Return(expr)], decorator_list=[], type_params=[])
    ast.fix_missing_locations(ast.copy_location(fn, expr))
    for x in ast.walk(fn):
        if not hasattr(x, 'lineno'):
            ast.copy_location(x, expr)
    try:
        fa = FuncAnalysis(repo, FuncInfo(mod + '.<module-value:' + name + '>', fn, m), versioned=False)
    except Exception:
        return None
    rets = [e for e in fa.events if e.kind == 'return']
    if len(rets) != 1 or fa.unrecognised:
        return None
    v = rets[0].value
    if any(isinstance(x, tuple) and x and (x[0] in ('unk', 'mut', 'nth') or (x[0] == 'g' and isinstance(x[1], str) and x[1].startswith('$')))
           for x in T.walk(v)):
        return None
    _MODVALS[key] = v
    return v


def _validation_summary(repo, qual, skip):
    """(params, kwonly, default terms, [(exception term, [guard terms])]) of a helper that only tests
    and raises (no loops, no stores, no other statements with effects), or None."""
    key = (repo.root, qual)
    if key in _VALIDATORS:
        return _VALIDATORS[key]
    if key in _HELPERS_BUSY:
        return None
    _HELPERS_BUSY.add(key)
    out = None
    try:
        fi = repo.funcs[qual]
        a = fi.node.args
        if not (fi.parent is not None or fi.node.decorator_list or a.vararg or a.kwarg
                or any(isinstance(n, (ast.Yield, ast.YieldFrom, ast.Await)) for n in ast.walk(fi.node))):
            fa = FuncAnalysis(repo, fi, versioned=False)
            raises, ok = [], True
            for e in fa.events:
                if e.d.get('in_lambda') or e.d.get('in_comp'):
                    continue
                if e.kind == 'raise':
                    raises.append(e)
                elif e.kind == 'return':
                    if e.value != T.NONE:
                        ok = False
                elif e.kind in ('yield', 'yield_from', 'store_sub', 'store_attr', 'aug_sub', 'aug_attr', 'del', 'delattr',
                                'store_global', 'store_nonlocal', 'break', 'continue', 'with') or (e.kind == 'call' and e.stmt):
                    ok = False
                if e.loops or e.trys:
                    ok = False
            if ok and raises and not fa.unrecognised:
                items = []
                for e in raises:
                    gs = [(c if pol else T.not_(c)) for c, pol in e.guards]
                    terms = [e.exc] + gs
                    if any(isinstance(x, tuple) and x and (x[0] in ('mut', 'nth', 'unk', 'phi', 'after', 'elem')
                                                           or (x[0] == 'g' and isinstance(x[1], str) and x[1].startswith('$')))
                           for t in terms for x in T.walk(t)):
                        items = None
                        break
                    items.append((e.exc, gs))
                if items:
                    params = [x.arg for x in list(a.posonlyargs) + list(a.args)][skip:]
                    kwonly = [x.arg for x in a.kwonlyargs]
                    dterms = {}
                    pos = list(a.posonlyargs) + list(a.args)
                    for arg, d in list(zip(pos[len(pos) - len(a.defaults):], a.defaults)) + \
                            [(x, d) for x, d in zip(a.kwonlyargs, a.kw_defaults) if d is not None]:
                        try:
                            dterms[arg.arg] = T.C(ast.literal_eval(d))
                        except (ValueError, SyntaxError, TypeError):
                            dterms[arg.arg] = None
                    out = (params, kwonly, dterms, items)
    except Exception:
        out = None
    finally:
        _HELPERS_BUSY.discard(key)
    _VALIDATORS[key] = out
    return out


def _load(t):
    """Copy of a store-context target as a load-context expression."""
    t2 = ast.parse(ast.unparse(t), mode='eval').body
    return ast.copy_location(t2, t)


def _is_exit_call(s):
    """sys.exit(...) as a statement leaves like a raise (it raises SystemExit)."""
    return isinstance(s, ast.Expr) and isinstance(s.value, ast.Call) and isinstance(s.value.func, (ast.Attribute, ast.Name)) \
        and ast.unparse(s.value.func) in ('sys.exit', 'os._exit')


def _ways(stmts, in_loop=False):
    """(set of ways the block can be left early, may fall through) - syntactic."""
    ks = set()
    for s in stmts:
        if isinstance(s, ast.Raise) or _is_exit_call(s):
            return ks | {'raise'}, False
        if isinstance(s, ast.Return):
            return ks | {'return'}, False
        if isinstance(s, ast.Continue):
            if in_loop:
                continue
            return ks | {'continue'}, False
        if isinstance(s, ast.Break):
            if in_loop:
                continue
            return ks | {'break'}, False
        if isinstance(s, ast.If):
            ka, fa = _ways(s.body, in_loop)
            kb, fb = _ways(s.orelse, in_loop) if s.orelse else (set(), True)
            ks |= ka | kb
            if not fa and not fb:
                return ks, False
        elif isinstance(s, (ast.With, ast.AsyncWith)):
            k, f = _ways(s.body, in_loop)
            ks |= k
            if not f:
                return ks, False
        elif isinstance(s, (ast.For, ast.AsyncFor, ast.While)):
            k, _ = _ways(s.body + s.orelse, True)
            ks |= k
        elif isinstance(s, ast.Try):
            for blk in [s.body, s.orelse, s.finalbody] + [h.body for h in s.handlers]:
                k, _ = _ways(blk, in_loop)
                ks |= k
    return ks, True


def _leave_kind(stmts):
    """'raise' / 'return' / 'continue' / 'break' if the block certainly leaves, and only that way;
    'return' if it certainly leaves but in more than one way; None if it may fall through."""
    if not stmts:
        return None
    ks, falls = _ways(stmts)
    if falls or not ks:
        return None
    return next(iter(ks)) if len(ks) == 1 else 'return'


def _canon_guard(c, p):
    c = T.as_cond(c)
    if c[0] == 'not' or c[0] == 'or' or (c[0] == 'cmp' and c[1] in ('!=', '<=', 'notin', 'isnot')):
        n = T.not_(c)
        if not (n[0] in ('not', 'or') or (n[0] == 'cmp' and n[1] in ('!=', '<=', 'notin', 'isnot'))):
            return n, (not p)
    return c, p


class Event:
    __slots__ = ('kind', 'idx', 'line', 'guards', 'gkinds', 'graw', 'loops', 'withs', 'trys', 'node', 'd')

    def __init__(self, kind, idx, line, guards, loops, withs, trys, node, d):
        self.kind = kind
        self.idx = idx
        self.line = line
        # guards: (cond, polarity) pairs; gkinds: origin of each guard -
        # 'if' (lexically enclosing test) or the way the other arm left the
        # block ('raise', 'return', 'continue', 'break') for path guards
        # one orientation per test: `if not x: A else: B` and `if x: B else: A` give A the guard
        # (x, False) and B the guard (x, True)
        self.guards = tuple(_canon_guard(c, p) for c, p, k in guards)
        # raw kinds: 'if' / 'if:<how the sibling arm leaves>' for a lexically enclosing test, or the way the
        # other arm left the block for a path guard; gkinds folds the lexical ones to 'if'
        self.graw = tuple(k for c, p, k in guards)
        self.gkinds = tuple('if' if k.startswith('if') else k for k in self.graw)
        self.loops = loops
        self.withs = withs
        self.trys = trys
        self.node = node
        self.d = d

    def __getattr__(self, name):
        try:
            return self.d[name]
        except KeyError:
            raise AttributeError(name) from None

    @property
    def in_finally(self):
        return any(part == 'finally' for _, part, _ in self.trys)

    def handled(self, exc_name):
        """Is an exception type named ``exc_name`` caught around this event?"""
        for types, part, _ in self.trys:
            if part == 'body' and (exc_name in types or 'Exception' in types or '' in types
                                   or 'BaseException' in types):
                return True
        return False

    @property
    def cguards(self):
        """Guards under which the event may be *skipped* while the function goes
        on normally: everything except path guards whose other arm raises."""
        return tuple(g for g, k in zip(self.guards, self.graw) if k not in ('raise', 'if:raise'))

    @property
    def nguards(self):
        """Guards as canonical terms: the condition, or its normalised negation."""
        return {(c if p else T.not_(c)) for c, p in self.guards}

    def under(self, cond, polarity=True):
        """Is the event lexically guarded by ``cond`` (polarity False: by its negation)?"""
        want = cond if polarity else T.not_(cond)
        return want in self.nguards

    def guard_terms(self, polarity=None):
        return [g for g, p in self.guards if polarity is None or p == polarity]

    def __repr__(self):
        return f'<{self.kind}@{self.line} {" ".join(T.show(v) if isinstance(v, tuple) else str(v) for v in self.d.values())[:120]}>'


class LoopInfo:
    def __init__(self, lid, node, kind, iter_term, parent, guards):
        self.id = lid
        self.node = node
        self.kind = kind            # 'for' | 'while'
        self.iter = iter_term       # term iterated over (for) / condition (while)
        self.parent = parent
        self.guards = guards
        self.carried = {}           # canonical name -> (init, step)
        self.names = {}             # canonical name -> source identifier
        self.targets = {}           # name -> term bound by the loop header
        self.has_break = False
        self.has_continue = False
        self.has_else = False
        self.line = node.lineno


def _canon_iter(it):
    """Iteration space of a for-loop: zip(X, [f(x) for x in X], ...) iterates over X."""
    if it[0] == 'call' and it[1] == T.G('zip') and not it[3] and it[2] and not any(a[0] == 'star' for a in it[2]):
        base = None
        for a in it[2]:
            src = a
            if a[0] == 'comp' and a[1] in ('list', 'gen') and len(a[3]) == 1 and not a[3][0][3] and a[3][0][1][0] == 'bv':
                src = a[3][0][2]
            if base is None:
                base = src
            elif src != base:
                return it
        return base
    if it[0] == 'call' and it[1] == T.G('enumerate') and it[2] and not it[3]:
        return _canon_iter(it[2][0])
    return it


def mk_elem(it, loop, path):
    """Element of iterating ``it``; looks through zip / enumerate."""
    path = tuple(path)
    if it[0] == 'call' and not it[3]:
        f = it[1]
        if f == T.G('zip') and path and not any(a[0] == 'star' for a in it[2]):
            i = path[0]
            if i < len(it[2]):
                return mk_elem(it[2][i], loop, path[1:])
        if f == T.G('enumerate') and path and len(it[2]) >= 1:
            if path[0] == 0:
                base = ('idx', loop)
                if len(it[2]) == 2:
                    base = T.add(base, it[2][1])
                return base
            if path[0] == 1:
                return mk_elem(it[2][0], loop, path[1:])
    # element of a one-generator comprehension without filter: the element
    # expression over the element of the generator's source
    if it[0] == 'comp' and it[1] in ('list', 'gen') and len(it[3]) == 1 and not it[3][0][3] \
            and it[3][0][1][0] == 'bv' and not path:
        g = it[3][0]
        return T.subst(it[2], {g[1]: mk_elem(g[2], loop, ())})
    return ('elem', it, loop, path)


def _uncarried_name(name, step):
    """Structural name for a variable that is bound inside a loop only."""
    import hashlib
    er = T.transform(step, lambda x: ('phi', x[1], '?') if x[0] == 'phi' else None)
    cn = 'u' + hashlib.md5(repr(er).encode()).hexdigest()[:5]
    T.DISPLAY_NAMES[cn] = name
    return cn


class FuncAnalysis:
    """Result of evaluating one function."""

    def __init__(self, repo: Repo, fi: FuncInfo, closure=None, analyses=None, versioned=False):
        # versioned: in-place mutation (x[k] = v, x[k] op= v, x.append(v) ...) gives later
        # reads of x a new version term ('mut', x, n), which makes comparisons order-sensitive
        self.versioned = versioned
        self._ver = {}
        self.repo = repo
        self.fi = fi
        self.module = fi.module
        self.closure = closure or {}
        self.analyses = analyses
        self.events = []
        self.loops = {}
        self.env = {}
        self.params = []
        self.defaults = {}
        self.vararg = None
        self.kwarg = None
        self.closures = {}          # nested qualname -> env snapshot
        self.nested = {}            # local name -> qualname
        self.unrecognised = []      # (line, what)
        self._guards = []
        self._loops = []
        self._withs = []
        self._trys = []
        self._n_loop = 0
        self._n_unk = 0
        self._bvdepth = 0
        self._globals_decl = set()
        self._nonlocal_decl = set()
        self._locals = _assigned_names(fi.node)
        self._mutated = _mutated_names(fi.node)
        self._obj_count = {}
        self._run()

    # -- helpers -------------------------------------------------------------
    def _unk(self, why):
        self._n_unk += 1
        return ('unk', why, self._n_unk)

    def _counters(self):
        return dict(self._ver), dict(getattr(self, '_nth', {})), getattr(self, '_n_try', 0), self._n_unk

    def _restore_counters(self, snap):
        self._ver = dict(snap[0])
        self._nth = dict(snap[1])
        self._n_try = snap[2]
        self._n_unk = snap[3]

    def _merge_counters(self, other):
        for k, v in other[0].items():
            if v > self._ver.get(k, 0):
                self._ver[k] = v
        self._nth = getattr(self, '_nth', {})
        for k, v in other[1].items():
            if v > self._nth.get(k, 0):
                self._nth[k] = v
        self._n_try = max(getattr(self, '_n_try', 0), other[2])
        self._n_unk = max(self._n_unk, other[3])

    def _bump(self, base):
        if not self.versioned or base[0] in ('c', 'g', 'unk'):
            return
        root = T.unmut(base)
        n = self._ver.get(root, 0) + 1
        self._ver[root] = n
        new = ('mut', root, n)
        for env in [self.env] + list(getattr(self, '_env_stack', [])):
            for k, v in list(env.items()):
                if isinstance(v, tuple) and (v == base or (v[0] == 'mut' and v[1] == root) or v == root):
                    env[k] = new

    def _emit(self, kind, node, **d):
        ev = Event(kind, len(self.events), getattr(node, 'lineno', 0), tuple(self._guards),
                   tuple(self._loops), tuple(self._withs), tuple(self._trys), node, d)
        self.events.append(ev)
        return ev

    def where(self, ev_or_line):
        line = ev_or_line.line if isinstance(ev_or_line, Event) else ev_or_line
        return f'{self.fi.file}:{line} {self.fi.qualname}'

    # -- driver --------------------------------------------------------------
    def _run(self):
        node = self.fi.node
        a = node.args
        allargs = list(a.posonlyargs) + list(a.args)
        for arg in allargs:
            self.params.append(arg.arg)
            self.env[arg.arg] = T.V(arg.arg)
        ndef = len(a.defaults)
        for arg, dflt in zip(allargs[len(allargs) - ndef:], a.defaults):
            self.defaults[arg.arg] = self._ev_default(dflt)
        if a.vararg:
            self.vararg = a.vararg.arg
            self.env[a.vararg.arg] = T.V(a.vararg.arg)
        for arg, dflt in zip(a.kwonlyargs, a.kw_defaults):
            self.params.append(arg.arg)
            self.env[arg.arg] = T.V(arg.arg)
            if dflt is not None:
                self.defaults[arg.arg] = self._ev_default(dflt)
        if a.kwarg:
            self.kwarg = a.kwarg.arg
            self.env[a.kwarg.arg] = T.V(a.kwarg.arg)
        self.status = self._block(node.body)

    def _ev_default(self, node):
        try:
            return self.ev(node)
        except AnalysisError:
            return self._unk('default')

    # -- statements ----------------------------------------------------------
    def _block(self, stmts):
        """Execute statements; returns termination status or None."""
        n_path_guards = 0
        status = None
        for i_s, s in enumerate(stmts):
            self._rest = stmts[i_s + 1:]
            status, added = self._stmt(s)
            n_path_guards += added
            if status is not None:
                break
        residual = []
        for _ in range(n_path_guards):
            residual.append(self._guards.pop())
        # the path guards a block that falls through leaves behind (from inner `if x: raise/return`)
        self._last_residual = list(reversed(residual)) if status is None else []
        # a block that is left in more than one way (`if a: continue` ... `raise`) reports the mixed
        # status, exactly as the same block written as an if/else chain does
        if status is not None and any(k in ('raise', 'return', 'continue', 'break') and k != status for _, _, k in residual):
            status = 'return'
        return status

    def _stmt(self, s):
        """-> (status, number of path guards pushed)"""
        m = getattr(self, '_s_' + type(s).__name__, None)
        if m is None:
            self.unrecognised.append((s.lineno, type(s).__name__))
            return None, 0
        r = m(s)
        if isinstance(r, tuple):
            return r
        return r, 0

    def _s_Expr(self, s):
        v = s.value
        if isinstance(v, ast.Constant):
            return None     # docstring
        self._pending_path_guards = 0
        # x.update(A if c else {}) / x.extend(A if c else [])  is  `if c: x.update(A)`: filling from an
        # empty container is no mutation
        if isinstance(v, ast.Call) and isinstance(v.func, ast.Attribute) and v.func.attr in ('update', 'extend') \
                and len(v.args) == 1 and not v.keywords and isinstance(v.args[0], (ast.Name, ast.IfExp)):
            n0, cnt0, new0 = len(self.events), self._counters(), getattr(self, '_n_new', 0)
            a = self.ev(v.args[0])
            if a[0] == 'ite':
                def empty(x):
                    return x[0] == 'call' and x[1][0] == 'g' and isinstance(x[1][1], str) and x[1][1].startswith('$new_')
                arm = None
                if empty(a[2]) and not empty(a[3]):
                    cond, arm = T.not_(a[1]), a[3]
                elif empty(a[3]) and not empty(a[2]):
                    cond, arm = a[1], a[2]
                if arm is not None:
                    k = getattr(self, '_n_fill', 0) + 1
                    self._n_fill = k
                    cn, an = f'$fillcond{k}', f'$fillarg{k}'
                    self.env[cn], self.env[an] = cond, arm
                    call = ast.Call(v.func, [ast.Name(an, ast.Load())], [])
                    st = ast.If(ast.Name(cn, ast.Load()), [ast.Expr(call)], [])
                    ast.fix_missing_locations(ast.copy_location(st, s))
                    for x in ast.walk(st):
                        if not hasattr(x, 'lineno'):
                            ast.copy_location(x, s)
                    r = self._s_If(st)
                    self.env.pop(cn, None)
                    self.env.pop(an, None)
                    return r
            # not that idiom: forget the trial evaluation of the argument
            del self.events[n0:]
            self._restore_counters(cnt0)
            self._n_new = new0
        t = self.ev(v, stmt=True)
        n, self._pending_path_guards = self._pending_path_guards, 0
        if _is_exit_call(s):
            for _ in range(n):
                self._guards.pop()
            return 'raise'
        return None, n

    def _s_Pass(self, s):
        return None

    def _s_Global(self, s):
        self._globals_decl.update(s.names)
        return None

    def _s_Nonlocal(self, s):
        self._nonlocal_decl.update(s.names)
        return None

    def _s_Import(self, s):
        for a in s.names:
            from .model import EXTERNAL_ALIASES
            if a.asname:
                self.env[a.asname] = T.G(EXTERNAL_ALIASES.get(a.name, a.name))
            else:
                top = a.name.split('.')[0]
                self.env[top] = T.G(EXTERNAL_ALIASES.get(top, top))
        return None

    def _s_ImportFrom(self, s):
        from .model import EXTERNAL_ALIASES
        mod = self.repo._abs_module(self.module, s.level, s.module)
        for a in s.names:
            local = a.asname or a.name
            full = (mod + '.' + a.name) if mod else a.name
            if full in self.repo.modules:
                self.env[local] = T.G(full)
            else:
                modc = EXTERNAL_ALIASES.get(mod, mod)
                self.env[local] = T.G(self.repo.resolve(modc + '.' + a.name))
        return None

    def _s_FunctionDef(self, s):
        # several nested defs may share a name (one per branch): number them in order
        self._defcount = getattr(self, '_defcount', {})
        self._defcount[s.name] = self._defcount.get(s.name, 0) + 1
        nm = s.name if self._defcount[s.name] == 1 else f'{s.name}#{self._defcount[s.name]}'
        owner = self._inline_stack[-1] if getattr(self, '_inline_stack', None) else self.fi.qualname
        qual = owner + '.<locals>.' + nm
        self.env[s.name] = ('fn', qual)
        self.nested[nm] = qual
        self.closures[qual] = dict(self.env)
        self._emit('def', s, name=s.name, qual=qual)
        return None

    _s_AsyncFunctionDef = _s_FunctionDef

    def _s_ClassDef(self, s):
        self.env[s.name] = self._unk('class:' + s.name)
        return None

    def _s_Return(self, s):
        if getattr(self, '_inline_returns', None):
            return self._s_Return_inline(s)
        v = self.ev(s.value) if s.value is not None else T.NONE
        self._emit('return', s, value=v)
        return 'return'

    def _s_Raise(self, s):
        exc = self.ev(s.exc) if s.exc is not None else T.NONE
        cause = self.ev(s.cause) if s.cause is not None else None
        self._emit('raise', s, exc=exc, cause=cause)
        return 'raise'

    def _s_Break(self, s):
        if self._loops:
            self.loops[self._loops[-1]].has_break = True
            self.loops[self._loops[-1]].break_envs.append(dict(self.env))
        self._emit('break', s)
        return 'break'

    def _s_Continue(self, s):
        if self._loops:
            self.loops[self._loops[-1]].has_continue = True
        self._emit('continue', s)
        return 'continue'

    def _s_Assert(self, s):
        t = self.ev(s.test)
        self._emit('assert', s, test=t)
        return None

    def _s_Delete(self, s):
        for tgt in s.targets:
            if isinstance(tgt, ast.Name):
                self.env.pop(tgt.id, None)
                self._emit('delname', s, name=tgt.id)
            elif isinstance(tgt, ast.Subscript):
                base = self.ev(tgt.value)
                key = self._ev_index(tgt.slice)
                self._emit('del', s, base=base, key=key, target=('sub', base, key))
            elif isinstance(tgt, ast.Attribute):
                base = self.ev(tgt.value)
                self._emit('delattr', s, base=base, attr=tgt.attr)
        return None

    def _s_Assign(self, s):
        if len(s.targets) == 1 and isinstance(s.targets[0], ast.Name) and s.targets[0].id in self._mutated \
                and isinstance(s.value, ast.Dict) and s.value.keys \
                and all(isinstance(k, ast.Constant) and isinstance(k.value, str) for k in s.value.keys):
            # d = {'a': x, 'b': y} that is filled further later  ==  d = {}; d['a'] = x; d['b'] = y
            name = s.targets[0].id
            # the values are evaluated before the dict exists
            vals = []
            for i, vn in enumerate(s.value.values):
                tmp = f'$lit{s.lineno}_{i}'
                self.env[tmp] = self.ev(vn)
                vals.append(tmp)
            first = ast.copy_location(ast.Assign([ast.Name(name, ast.Store())], ast.Dict([], [])), s)
            self._s_Assign(first)
            for k, tmp in zip(s.value.keys, vals):
                st = ast.copy_location(ast.Assign([ast.Subscript(ast.Name(name, ast.Load()), k, ast.Store())],
                                                  ast.Name(tmp, ast.Load())), s)
                ast.fix_missing_locations(st)
                self._s_Assign(st)
            for tmp in vals:
                self.env.pop(tmp, None)
            return None
        v = self.ev(s.value)
        if len(s.targets) == 1 and isinstance(s.targets[0], ast.Name) and s.targets[0].id in self._mutated \
                and isinstance(s.value, ast.DictComp) and v[0] == 'dict' and v[1] \
                and all(kv[0] == 'kv' and kv[1][0] == 'c' and isinstance(kv[1][1], str) for kv in v[1]):
            # a comprehension that builds a known literal, filled further later: as for a literal
            name = s.targets[0].id
            first = ast.copy_location(ast.Assign([ast.Name(name, ast.Store())], ast.Dict([], [])), s)
            self._s_Assign(first)
            for i, kv in enumerate(v[1]):
                tmp = f'$lit{s.lineno}_{i}'
                self.env[tmp] = kv[2]
                st = ast.copy_location(ast.Assign([ast.Subscript(ast.Name(name, ast.Load()), ast.Constant(kv[1][1]), ast.Store())],
                                                  ast.Name(tmp, ast.Load())), s)
                ast.fix_missing_locations(st)
                self._s_Assign(st)
                self.env.pop(tmp, None)
            return None
        if len(s.targets) == 1 and isinstance(s.targets[0], ast.Name) and s.targets[0].id in self._mutated \
                and isinstance(s.value, (ast.List, ast.Dict, ast.Set)) and v[0] in ('list', 'dict', 'set'):
            # a mutable literal that is mutated later is an object, not a value
            self._obj_count[v] = self._obj_count.get(v, 0) + 1
            v = ('call', T.G('$obj'), (v, T.C(self._obj_count[v])), ())
        for tgt in s.targets:
            self._assign(tgt, v, s)
        return None

    def _s_AnnAssign(self, s):
        if s.value is not None:
            v = self.ev(s.value)
            self._assign(s.target, v, s)
        return None

    def _s_AugAssign(self, s):
        op = _BINOPS.get(type(s.op), '?')
        if isinstance(s.op, ast.Add) and isinstance(s.target, (ast.Attribute, ast.Subscript)) \
                and isinstance(s.value, (ast.List, ast.ListComp, ast.Name)):
            # xs += [e]  /  xs += list_valued  on a list object is xs.extend(...) (append for one element)
            n0, cnt0, new0 = len(self.events), self._counters(), getattr(self, '_n_new', 0)
            v0 = self.ev(s.value)

            def listy(x):
                return x[0] in ('list',) or (x[0] == 'comp' and x[1] == 'list') or (x[0] == 'call' and x[1] in (T.G('list'), T.G('$new_list'))) \
                    or (x[0] == 'call' and x[1] == T.G('$obj') and x[2][0][0] == 'list') or (x[0] == 'ite' and listy(x[2]) and listy(x[3]))
            del self.events[n0:]
            self._restore_counters(cnt0)
            self._n_new = new0
            if listy(v0):
                call = ast.Call(ast.Attribute(_load(s.target), 'extend', ast.Load()), [s.value], [])
                st = ast.Expr(call)
                for x in ast.walk(st):
                    if not hasattr(x, 'lineno'):
                        ast.copy_location(x, s)
                ast.fix_missing_locations(st)
                return self._s_Expr(st)
        v = self.ev(s.value)
        tgt = s.target
        if isinstance(tgt, ast.Name):
            old = self._load_name(tgt.id, tgt)
            new = T.binop(op, old, v)
            self._emit('aug', s, name=tgt.id, op=op, old=old, value=v, new=new)
            self._bind_name(tgt.id, new, s)
        elif isinstance(tgt, ast.Subscript):
            base = self.ev(tgt.value)
            key = self._ev_index(tgt.slice)
            old = self._load_sub(base, key)
            new = T.binop(op, old, v)
            self._emit('aug_sub', s, base=base, key=key, op=op, old=old, value=v, new=new)
            self.env[('$s', base, key)] = new
            self._bump(base)
        elif isinstance(tgt, ast.Attribute):
            base = self.ev(tgt.value)
            old = self._load_attr(base, tgt.attr)
            new = T.binop(op, old, v)
            self._emit('aug_attr', s, base=base, attr=tgt.attr, op=op, old=old, value=v, new=new)
            self.env[('$a', base, tgt.attr)] = new
        return None

    def _bind_name(self, name, v, node):
        if name in self._globals_decl:
            self._emit('store_global', node, name=name, value=v)
        elif name in self._nonlocal_decl:
            self._emit('store_nonlocal', node, name=name, value=v)
        self.env[name] = v
        if not getattr(self, '_inline_stack', None):
            self.all_bindings = getattr(self, 'all_bindings', {})
            self.all_bindings[name] = v

    def _assign(self, tgt, v, node):
        if isinstance(tgt, ast.Name):
            self._emit('assign', node, name=tgt.id, value=v)
            self._bind_name(tgt.id, v, node)
        elif isinstance(tgt, (ast.Tuple, ast.List)):
            n = len(tgt.elts)
            starred = [i for i, e in enumerate(tgt.elts) if isinstance(e, ast.Starred)]
            if v[0] in ('tuple', 'list') and len(v[1]) == n and not starred \
                    and not any(x[0] == 'star' for x in v[1]):
                for e, x in zip(tgt.elts, v[1]):
                    self._assign(e, x, node)
            else:
                for i, e in enumerate(tgt.elts):
                    if isinstance(e, ast.Starred):
                        self._assign(e.value, ('sub', v, T.slice_(T.C(i), T.NONE)), node)
                    else:
                        self._assign(e, T.sub(v, T.C(i)), node)
        elif isinstance(tgt, ast.Subscript):
            base = self.ev(tgt.value)
            key = self._ev_index(tgt.slice)
            self._emit('store_sub', node, base=base, key=key, value=v)
            self.env[('$s', base, key)] = v
            self._bump(base)
        elif isinstance(tgt, ast.Attribute):
            base = self.ev(tgt.value)
            self._emit('store_attr', node, base=base, attr=tgt.attr, value=v)
            self.env[('$a', base, tgt.attr)] = v
        elif isinstance(tgt, ast.Starred):
            self._assign(tgt.value, v, node)
        else:
            self.unrecognised.append((node.lineno, 'assign target ' + type(tgt).__name__))

    # if / merge
    def _merge(self, cond, env_a, env_b):
        out = {}
        for k in set(env_a) | set(env_b):
            a = env_a.get(k, UNDEF)
            b = env_b.get(k, UNDEF)
            if a == b:
                out[k] = a
            elif isinstance(k, tuple):
                # store read-back entries: keep only when both sides agree
                continue
            else:
                out[k] = T.ite(cond, a, b)
        return out

    def _s_If(self, s):
        c = T.as_cond(self.ev(s.test))
        self._emit('branch', s, cond=c)
        pre = dict(self.env)
        # counters (mutation versions, evaluations of impure calls) count along a path: the two arms
        # of a conditional both start from the state at the branch point, so that swapping the arms
        # does not renumber them
        cnt_pre = self._counters()
        # an arm whose sibling leaves the block is a path guard of that kind, whether the sibling is
        # written as `else:` or the arm simply follows the conditional
        sibling = s.orelse
        if not sibling and _leave_kind(s.body):
            sibling = getattr(self, '_rest', [])      # `if c: ...; return` followed by the rest of the block
        lk = _leave_kind(sibling)
        self._guards.append((c, True, 'if:' + lk if lk else 'if'))
        st_a = self._block(s.body)
        res_a = list(self._last_residual)
        self._guards.pop()
        env_a = self.env
        cnt_a = self._counters()
        self._restore_counters(cnt_pre)
        self.env = dict(pre)
        self._guards.append((c, False, 'if:' + st_a if st_a else 'if'))
        self._last_residual = []
        st_b = self._block(s.orelse) if s.orelse else None
        res_b = list(self._last_residual)
        self._guards.pop()
        env_b = self.env
        # counters follow the paths that go on: an arm that leaves does not contribute
        if st_b is not None and st_a is None:
            self._restore_counters(cnt_a)
        elif st_a is None:
            self._merge_counters(cnt_a)
        if st_a is not None and st_b is not None:
            self.env = env_a
            # both arms leave: report the weaker status
            return (st_a if st_a == st_b else 'return'), 0
        if st_a is not None:
            self.env = env_b
            self._guards.append((c, False, st_a))
            self._guards.extend(res_b)
            return None, 1 + len(res_b)
        if st_b is not None:
            self.env = env_a
            self._guards.append((c, True, st_b))
            self._guards.extend(res_a)
            return None, 1 + len(res_a)
        self.env = self._merge(c, env_a, env_b)
        if res_a or res_b:
            # `if a: (if b: raise)` leaves the same path condition behind as `if a and b: raise`
            def truth(gs):
                return [(x if p else T.not_(x)) for x, p, _ in gs]
            if not res_b:
                g = T.nary('or', (T.not_(c), T.nary('and', tuple(truth(res_a))) if len(res_a) > 1 else truth(res_a)[0]))
            elif not res_a:
                g = T.nary('or', (c, T.nary('and', tuple(truth(res_b))) if len(res_b) > 1 else truth(res_b)[0]))
            else:
                g = T.nary('or', (T.nary('and', (c,) + tuple(truth(res_a))), T.nary('and', (T.not_(c),) + tuple(truth(res_b)))))
            kinds = [k for _, _, k in res_a + res_b]
            kind = 'raise' if all(k == 'raise' for k in kinds) else next(k for k in kinds if k != 'raise')
            self._guards.append((g, True, kind))
            return None, 1
        return None, 0

    # loops
    def _new_loop(self, node, kind, it):
        # loop ids are structural (hash of the iterated term) so that adding or
        # removing an unrelated loop does not rename the others
        self._n_loop += 1
        if kind == 'for':
            import hashlib
            base = 'L' + hashlib.md5(repr(_canon_iter(it)).encode()).hexdigest()[:5]
        else:
            self._n_while = getattr(self, '_n_while', 0) + 1
            base = f'W{self._n_while}'
        # two structurally equal loops in the two arms of a conditional are told apart by the
        # condition they run under (not by the order the arms are written in)
        ifg = []
        for c, p, gk in self._guards:
            if gk in ('if', 'return', 'if:return'):
                g = c if p else T.not_(c)
                ifg.extend(g[1] if g[0] == 'and' else [g])
        ifg = sorted({repr(g) for g in ifg})
        if ifg:
            import hashlib
            base = base + '~' + hashlib.md5(repr(ifg).encode()).hexdigest()[:3]
        lid = base
        k = 1
        while lid in self.loops:
            k += 1
            lid = f'{base}#{k}'
        li = LoopInfo(lid, node, kind, it, self._loops[-1] if self._loops else None,
                      tuple((c, p) for c, p, k in self._guards))
        li.break_envs = []
        self.loops[lid] = li
        return li

    def _invalidate_stores(self, body):
        roots = set()
        for n in _walk_no_defs(body):
            tgts = []
            if isinstance(n, ast.Assign):
                tgts = n.targets
            elif isinstance(n, (ast.AugAssign, ast.AnnAssign)):
                tgts = [n.target]
            for t in tgts:
                for sub in ast.walk(t):
                    if isinstance(sub, (ast.Subscript, ast.Attribute)) and isinstance(sub.ctx, ast.Store):
                        r = sub
                        while isinstance(r, (ast.Subscript, ast.Attribute)):
                            r = r.value
                        if isinstance(r, ast.Name):
                            roots.add(r.id)
        if not roots:
            return
        root_terms = [self.env[r] for r in roots if r in self.env]
        for k in list(self.env):
            if isinstance(k, tuple):
                if any(T.contains(k[1], rt) for rt in root_terms):
                    del self.env[k]

    def _canon_carried(self, li, pre, carried, ev_start):
        """Give loop-carried variables structural names (hash of their initial
        value and their step with all phi names erased) so that terms do not
        depend on the identifiers chosen in the source."""
        import hashlib

        def erase(t):
            return T.transform(t, lambda x: ('phi', x[1], '?') if x[0] == 'phi' else None)
        ren = {}
        names = {}
        used = set()
        for name in carried:
            if name not in pre:
                continue
            step = self.env.get(name, UNDEF)
            if step == ('phi', li.id, name):
                continue
            h = hashlib.md5(repr((erase(pre[name]), erase(step))).encode()).hexdigest()[:5]
            canon = 'v' + h
            k = 1
            while canon in used:
                k += 1
                canon = f'v{h}_{k}'
            used.add(canon)
            ren[('phi', li.id, name)] = ('phi', li.id, canon)
            names[name] = canon
            T.DISPLAY_NAMES[canon] = name
        if ren:
            for e in self.events[ev_start:]:
                e.d = {k: (T.subst(v, ren) if isinstance(v, tuple) else v) for k, v in e.d.items()}
                e.guards = tuple((T.subst(c, ren), p) for c, p in e.guards)
                e.withs = tuple(T.subst(w, ren) for w in e.withs)
            for k in list(self.env):
                v = self.env[k]
                nk = T.subst(k, ren) if isinstance(k, tuple) else k
                nv = T.subst(v, ren)
                if nk != k:
                    del self.env[k]
                self.env[nk] = nv
            for be in li.break_envs:
                for k in list(be):
                    be[k] = T.subst(be[k], ren)
            for k in list(li.targets):
                li.targets[k] = T.subst(li.targets[k], ren)
            if li.iter is not None:
                li.iter = T.subst(li.iter, ren)
            for lid, other in self.loops.items():
                if other is not li and other.iter is not None:
                    other.iter = T.subst(other.iter, ren)
                    other.carried = {k: (T.subst(a, ren), T.subst(b, ren)) for k, (a, b) in other.carried.items()}
                    other.targets = {k: T.subst(v, ren) for k, v in other.targets.items()}
            self._guards = [(T.subst(c, ren), p, k) for c, p, k in self._guards]
        return names

    def _loop_body(self, li, s, bind):
        carried = sorted(_assigned_in(s.body) | (_assigned_in(s.orelse) if False else set()))
        pre = dict(self.env)
        self._invalidate_stores(s.body)
        for name in carried:
            if name in self.env:
                self.env[name] = ('phi', li.id, name)
        ev_start = len(self.events)
        self._loops.append(li.id)
        bind()
        self._block(s.body)
        self._loops.pop()
        canon = self._canon_carried(li, pre, carried, ev_start)
        post = self.env
        new_env = dict(pre)
        # drop store read-backs that changed
        for k in list(new_env):
            if isinstance(k, tuple) and post.get(k) != new_env[k]:
                del new_env[k]
        names = set(carried) | set(li.targets)
        for name in names:
            init = pre.get(name, UNDEF)
            step = post.get(name, UNDEF)
            if name in pre and step == ('phi', li.id, name):
                new_env[name] = init
                continue
            brk = tuple(sorted({be.get(name, UNDEF) for be in li.break_envs} - {step}, key=repr))
            cn = canon.get(name) or _uncarried_name(name, step)
            li.carried[cn] = (init, step)
            li.names[cn] = name
            new_env[name] = ('after', li.id, cn, init, step, brk)
            # a left fold written out:  acc = init; for x in xs: acc = f(acc, x)   is   functools.reduce(f, xs, init)
            if li.kind == 'for' and not li.has_break and name in pre and step[0] == 'call' and len(step[2]) == 2 and not step[3] \
                    and step[2][0] in (('phi', li.id, name), ('phi', li.id, cn)) and step[2][1] == mk_elem(li.iter, li.id, ()) \
                    and len(s.body) == 1 and isinstance(s.body[0], ast.Assign) \
                    and not any(x[0] in ('phi', 'elem') and len(x) > 1 and x[1] == li.id for x in T.walk(step[1])):
                new_env[name] = T.call(T.G('functools.reduce'), (step[1], li.iter, init))
            # a plain loop variable after a loop over a literal list is the last element of the list
            # (also through a conditional iterable: [x] if c else xs)
            if li.kind == 'for' and name in li.targets and not li.has_break and name not in _assigned_in(s.body) \
                    and li.targets[name] == mk_elem(li.iter, li.id, ()):
                def last(it, dflt):
                    if it[0] in ('list', 'tuple') and it[1] and it[1][-1][0] != 'star':
                        return it[1][-1]
                    if it[0] == 'ite':
                        a, b = last(it[2], dflt), last(it[3], dflt)
                        if a is not None or b is not None:
                            return T.ite(it[1], a if a is not None else dflt, b if b is not None else dflt)
                    return None
                lv = last(li.iter, new_env[name])
                if lv is not None:
                    new_env[name] = lv
        self._accumulate_to_comp(li, s, ev_start, new_env)
        self.env = new_env
        if s.orelse:
            li.has_else = True
            self._guards.append((('unk', 'loop-else', li.id), True, 'if'))
            self._block(s.orelse)
            self._guards.pop()

    def _s_For(self, s):
        s = _continue_free(s)
        if self._unrollable(s):
            # a loop over a literal list of constants is the copy-pasted statements it abbreviates
            for elt in s.iter.elts:
                self._assign(s.target, self.ev(elt), s)
                st = self._block(s.body)
                if st is not None:
                    return st
            return None
        it = self.ev(s.iter)
        raw_it = it
        if isinstance(s.iter, ast.Name) and it[0] in ('list', 'tuple') and 1 <= len(it[1]) <= 8 and self._unrollable_body(s) \
                and all(e[0] == 'c' or (e[0] == 'tuple' and e[1] and all(x[0] == 'c' for x in e[1])) for e in it[1]):
            # ... also when the literal list has a name (and is never changed: it is still a literal here)
            for e in it[1]:
                self._assign(s.target, e, s)
                st = self._block(s.body)
                if st is not None:
                    return st
            return None
        if it[0] == 'call' and it[1][0] == 'attr' and it[1][2] == 'keys' and not it[2] and not it[3]:
            it = it[1][1]           # iterating a mapping is iterating its keys
        indexed = None
        if it[0] == 'call' and it[1] == T.G('range') and len(it[2]) == 1 and not it[3] and isinstance(s.target, ast.Name) \
                and it[2][0][0] == 'call' and it[2][0][1] == T.G('len') and len(it[2][0][2]) == 1 and not it[2][0][3]:
            # for i in range(len(xs)): ... xs[i] ...   is   for i, x in enumerate(xs): ... x ...
            indexed = it[2][0][2][0]
            it = T.call(T.G('enumerate'), (indexed,))
        li = self._new_loop(s, 'for', it)
        li.raw_iter = raw_it
        self._emit('loop', s, loop=li.id, iter=it)

        def bind():
            if indexed is not None:
                idx = mk_elem(it, li.id, (0,))
                self.env[s.target.id] = idx
                li.targets[s.target.id] = idx
                self.env[('$s', indexed, idx)] = mk_elem(it, li.id, (1,))
            else:
                self._bind_loop_target(s.target, it, li, ())
        self._loop_body(li, s, bind)
        return None

    _s_AsyncFor = _s_For

    _EFFECT_KINDS = ('raise', 'return', 'yield', 'yield_from', 'store_sub', 'store_attr', 'aug_sub', 'aug_attr', 'del', 'delattr',
                     'store_global', 'store_nonlocal', 'break', 'continue', 'with', 'aug')

    def _accumulate_to_comp(self, li, s, ev_start, new_env):
        """xs = []; for t in IT: xs.append(E(t))   is   xs = [E(t) for t in IT]   (also with `if c(t):` around
        the append): when the loop does nothing else, the list is given the value of the comprehension."""
        if li.kind != 'for' or li.has_break or li.has_continue or getattr(s, 'orelse', None) or getattr(li, 'raw_iter', None) != li.iter:
            return
        body = self.events[ev_start:]
        eff = [e for e in body if (e.kind in self._EFFECT_KINDS and not e.d.get('in_comp') and not e.d.get('in_lambda'))
               or (e.kind == 'call' and e.stmt and not e.d.get('in_comp'))]
        if len(eff) != 1:
            return
        e = eff[0]
        if not (e.kind == 'call' and e.f[0] == 'attr' and e.f[2] == 'append' and len(e.args) == 1 and not e.kws):
            return
        X = e.f[1]
        if not (X[0] == 'call' and X[1] == T.G('$new_list')) or e.loops != tuple(self._loops) + (li.id,):
            return
        base = len(li.guards)
        if any(not k.startswith('if') for k in e.graw[base:]):
            return
        conds = [(c if p else T.not_(c)) for c, p in e.guards[base:]]
        temps, mapping = [], {}

        def pat(t, path):
            if isinstance(t, ast.Name):
                self._n_unk += 1
                bv = ('bv', f't{self._n_unk}', 0)
                temps.append(bv)
                mapping[mk_elem(li.iter, li.id, path)] = bv
                return bv
            if isinstance(t, (ast.Tuple, ast.List)) and not any(isinstance(x, ast.Starred) for x in t.elts):
                return T.tup([pat(x, path + (i,)) for i, x in enumerate(t.elts)])
            raise ValueError
        try:
            p = pat(s.target, ())
        except ValueError:
            return
        elt = T.subst(e.args[0], mapping)
        conds = tuple(T.subst(c, mapping) for c in conds)
        for t in (elt,) + conds:
            for x in T.walk(t):
                if isinstance(x, tuple) and x and ((x[0] in ('phi', 'idx') and li.id in x) or (x[0] == 'elem' and x[2] == li.id)):
                    return          # not a pure map of the element
        gens = (('gen', p, li.iter, conds),)
        h = self._height(list(gens) + [elt]) + 1
        ren = {tv: ('bv', f'c{i}', h) for i, tv in enumerate(temps)}
        comp = ('comp', 'list', T.subst(elt, ren), tuple(T.subst(g, ren) for g in gens))
        hit = False
        for k, v in list(new_env.items()):
            if isinstance(v, tuple) and (v == X or (v[0] == 'mut' and v[1] == X)):
                new_env[k] = comp
                hit = True
        if hit:
            e.d['in_comp'] = True
            self._ver.pop(X, None)

    @staticmethod
    def _unrollable(s):
        if not isinstance(s.iter, (ast.List, ast.Tuple)) or not (1 <= len(s.iter.elts) <= 8) or s.orelse:
            return False

        def simple(e):
            return isinstance(e, ast.Constant) or (isinstance(e, ast.Tuple) and e.elts and all(isinstance(x, (ast.Constant, ast.Name)) for x in e.elts))
        if not all(simple(e) for e in s.iter.elts):
            return False
        return FuncAnalysis._unrollable_body(s)

    @staticmethod
    def _unrollable_body(s):
        if s.orelse:
            return False
        # no break / continue that belongs to this loop
        stack = list(s.body)
        while stack:
            n = stack.pop()
            if isinstance(n, (ast.Break, ast.Continue)):
                return False
            if isinstance(n, (ast.For, ast.AsyncFor, ast.While, ast.FunctionDef, ast.AsyncFunctionDef, ast.ClassDef, ast.Lambda)):
                continue
            stack.extend(ast.iter_child_nodes(n))
        return True

    def _bind_loop_target(self, tgt, it, li, path):
        if isinstance(tgt, ast.Name):
            v = mk_elem(it, li.id, path)
            self.env[tgt.id] = v
            li.targets[tgt.id] = v
        elif isinstance(tgt, (ast.Tuple, ast.List)):
            for i, e in enumerate(tgt.elts):
                self._bind_loop_target(e, it, li, path + (i,))
        elif isinstance(tgt, ast.Starred):
            self._bind_loop_target(tgt.value, it, li, path + ('*',))
        else:
            v = mk_elem(it, li.id, path)
            self._assign(tgt, v, tgt)

    def _s_While(self, s):
        li = self._new_loop(s, 'while', None)
        self._emit('loop', s, loop=li.id, iter=None)

        def bind():
            li.iter = self.ev(s.test)
            if not (li.iter[0] == 'c' and li.iter[1] is True):
                self._guards.append((li.iter, True, 'if'))
                li._pushed = True
            else:
                li._pushed = False
        # evaluate
        carried = sorted(_assigned_in(s.body))
        pre = dict(self.env)
        self._invalidate_stores(s.body)
        for name in carried:
            if name in self.env:
                self.env[name] = ('phi', li.id, name)
        ev_start = len(self.events)
        self._loops.append(li.id)
        bind()
        self._block(s.body)
        if li._pushed:
            self._guards.pop()
        self._loops.pop()
        canon = self._canon_carried(li, pre, carried, ev_start)
        post = self.env
        new_env = dict(pre)
        for k in list(new_env):
            if isinstance(k, tuple) and post.get(k) != new_env[k]:
                del new_env[k]
        for name in carried:
            init = pre.get(name, UNDEF)
            step = post.get(name, UNDEF)
            if name in pre and step == ('phi', li.id, name):
                new_env[name] = init
                continue
            brk = tuple(sorted({be.get(name, UNDEF) for be in li.break_envs} - {step}, key=repr))
            cn = canon.get(name) or _uncarried_name(name, step)
            li.carried[cn] = (init, step)
            li.names[cn] = name
            new_env[name] = ('after', li.id, cn, init, step, brk)
            # a plain loop variable after a loop over a literal list is the last element of the list
            # (also through a conditional iterable: [x] if c else xs)
            if li.kind == 'for' and name in li.targets and not li.has_break and name not in _assigned_in(s.body) \
                    and li.targets[name] == mk_elem(li.iter, li.id, ()):
                def last(it, dflt):
                    if it[0] in ('list', 'tuple') and it[1] and it[1][-1][0] != 'star':
                        return it[1][-1]
                    if it[0] == 'ite':
                        a, b = last(it[2], dflt), last(it[3], dflt)
                        if a is not None or b is not None:
                            return T.ite(it[1], a if a is not None else dflt, b if b is not None else dflt)
                    return None
                lv = last(li.iter, new_env[name])
                if lv is not None:
                    new_env[name] = lv
        self.env = new_env
        if s.orelse:
            li.has_else = True
            self._block(s.orelse)
        return None

    def _expand_contextmanager(self, s):
        """`with helper(args): BODY` where helper is a generator-based @contextmanager of the same module that the
        checker has never heard of, with a single bare `yield`: the statements of the helper with BODY in place of the
        yield (parameters bound first, the helper's locals renamed apart).  None when the pattern does not apply."""
        item = s.items[0]
        call = item.context_expr
        if item.optional_vars is not None or not isinstance(call, ast.Call) or not isinstance(call.func, ast.Name):
            return None
        name = call.func.id
        if name in _known_names() or name in self.env or name in getattr(self, '_locals', ()):
            return None
        q = self.module.name + '.' + name
        fi = self.repo.funcs.get(q)
        if fi is None or fi.cls is not None or fi.parent is not None or fi.module is not self.module:
            return None
        decs = fi.node.decorator_list
        if len(decs) != 1 or not ((isinstance(decs[0], ast.Name) and decs[0].id == 'contextmanager') or
                                  (isinstance(decs[0], ast.Attribute) and decs[0].attr == 'contextmanager')):
            return None
        a = fi.node.args
        if a.vararg or a.kwarg or a.kwonlyargs or a.defaults or any(isinstance(x, ast.Starred) for x in call.args) \
                or any(k.arg is None for k in call.keywords):
            return None
        params = [x.arg for x in list(a.posonlyargs) + list(a.args)]
        bound = dict(zip(params, call.args))
        for k in call.keywords:
            if k.arg not in params or k.arg in bound:
                return None
            bound[k.arg] = k.value
        if len(call.args) > len(params) or set(bound) != set(params):
            return None
        yields = [n for n in _walk_no_defs(fi.node.body) if isinstance(n, (ast.Yield, ast.YieldFrom))]
        if len(yields) != 1 or not isinstance(yields[0], ast.Yield) or yields[0].value is not None:
            return None
        depth = getattr(self, '_cm_depth', 0)
        if depth >= 2:
            return None
        local = set(params) | _assigned_names(fi.node)
        pre = f'cm{depth}_'
        inner = [ast.With(items=s.items[1:], body=s.body, type_comment=None)] if len(s.items) > 1 else list(s.body)
        found = []

        class Rw(ast.NodeTransformer):
            def visit_Name(self, n):
                if n.id in local:
                    return ast.copy_location(ast.Name(id=pre + n.id, ctx=n.ctx), n)
                return n

            def visit_Expr(self, n):
                if isinstance(n.value, ast.Yield):
                    found.append(n)
                    return inner
                return self.generic_visit(n)

            def visit_FunctionDef(self, n):
                return n

            visit_Lambda = visit_AsyncFunctionDef = visit_FunctionDef
        import copy
        body = [Rw().visit(copy.deepcopy(st)) for st in fi.node.body
                if not (isinstance(st, ast.Expr) and isinstance(st.value, ast.Constant) and isinstance(st.value.value, str))]
        if len(found) != 1:
            return None         # the yield is not a statement of its own
        flat = []
        for b in body:
            flat.extend(b if isinstance(b, list) else [b])
        binds = [ast.Assign(targets=[ast.Name(id=pre + p, ctx=ast.Store())], value=bound[p], type_comment=None) for p in params]
        out = binds + flat
        for st in out:
            ast.copy_location(st, s)
            ast.fix_missing_locations(st)
        return out

    def _s_With(self, s):
        exp = self._expand_contextmanager(s)
        if exp is not None:
            self._cm_depth = getattr(self, '_cm_depth', 0) + 1
            try:
                st = self._block(exp)
            finally:
                self._cm_depth -= 1
            res = list(self._last_residual) if st is None else []
            if res:
                self._guards.extend(res)
                return None, len(res)
            return st
        n = 0
        for item in s.items:
            cm = self.ev(item.context_expr)
            self._emit('with', s, cm=cm)
            if item.optional_vars is not None:
                self._assign(item.optional_vars, ('enter', cm), s)
            self._withs.append(cm)
            n += 1
        st = self._block(s.body)
        res = list(self._last_residual) if st is None else []
        for _ in range(n):
            self._withs.pop()
        if res:
            # what an inner `if x: return` of the with-body leaves behind also holds after the block
            self._guards.extend(res)
            return None, len(res)
        return st

    _s_AsyncWith = _s_With

    def _s_Try(self, s):
        types = []
        for h in s.handlers:
            if h.type is None:
                types.append('')
            else:
                for n in (h.type.elts if isinstance(h.type, ast.Tuple) else [h.type]):
                    types.append(ast.unparse(n).split('.')[-1])
        types = tuple(types)
        self._n_try = getattr(self, '_n_try', 0) + 1
        tid = self._n_try       # ordinal, not a line number: terms must not depend on positions
        pre = dict(self.env)
        self._trys.append((types, 'body', tid))
        st_body = self._block(s.body)
        self._trys.pop()
        env_body = self.env
        if s.orelse and st_body is None:
            self._trys.append((types, 'else', tid))
            st_body = self._block(s.orelse)
            self._trys.pop()
            env_body = self.env
        results = [(env_body, st_body, None)]
        for h in s.handlers:
            self.env = dict(pre)
            # names assigned in the body may or may not have been bound
            for name in _assigned_in(s.body):
                if env_body.get(name) != pre.get(name):
                    self.env[name] = pre.get(name, UNDEF)
            if h.name:
                self.env[h.name] = self._unk('exc')
            hname = ast.unparse(h.type) if h.type is not None else ''
            self._trys.append((types, 'handler', tid))
            self._guards.append((('unk', 'except:' + hname, tid), True, 'if'))
            # `try: x = a[k] if c else None` can only fail where a[k] is evaluated, i.e. under c
            dom = self._raise_domain(s.body)
            if dom is not None:
                self._guards.append((dom, True, 'if'))
            st_h = self._block(h.body)
            if dom is not None:
                self._guards.pop()
            self._guards.pop()
            self._trys.pop()
            results.append((self.env, st_h, hname))
        live = [(e, h) for e, st, h in results if st is None]
        if not live:
            self.env = env_body
            status = st_body if all(st == st_body for _, st, _ in results) else 'return'
        else:
            env = live[0][0]
            for e, h in live[1:]:
                env = self._merge(('unk', 'except:' + (h or ''), tid), e, env)
            self.env = env
            status = None
        if s.finalbody:
            self._trys.append((types, 'finally', tid))
            st_f = self._block(s.finalbody)
            self._trys.pop()
            if st_f is not None:
                status = st_f
        return status

    _s_TryStar = _s_Try

    def _raise_domain(self, body):
        """Condition under which the only expression of a one-statement try body that can raise is
        evaluated (x = E if c else <name or constant>), else None."""
        if len(body) != 1 or not isinstance(body[0], ast.Assign) or not isinstance(body[0].value, ast.IfExp):
            return None
        e = body[0].value

        def inert(n):
            return isinstance(n, (ast.Constant, ast.Name))
        n0, cnt0, new0 = len(self.events), self._counters(), getattr(self, '_n_new', 0)
        try:
            if inert(e.orelse) and not inert(e.body):
                return T.as_cond(self.ev(e.test))
            if inert(e.body) and not inert(e.orelse):
                return T.not_(T.as_cond(self.ev(e.test)))
        finally:
            del self.events[n0:]
            self._restore_counters(cnt0)
            self._n_new = new0
        return None

    def _s_Match(self, s):
        self.unrecognised.append((s.lineno, 'match'))
        return None

    # -- expressions ---------------------------------------------------------
    def ev(self, n, stmt=False):
        m = getattr(self, '_e_' + type(n).__name__, None)
        if m is None:
            self.unrecognised.append((getattr(n, 'lineno', 0), type(n).__name__))
            return self._unk(type(n).__name__)
        if stmt and isinstance(n, ast.Call):
            return self._e_Call(n, stmt=True)
        return m(n)

    def _e_Constant(self, n):
        return T.C(n.value)

    def _load_name(self, name, node=None):
        if name in self.env:
            return self.env[name]
        if name in self._locals and name not in self._globals_decl and name not in self._nonlocal_decl:
            return ('unk', 'unbound:' + name, 0)
        if name in self.closure:
            return self.closure[name]
        t = self.repo.global_term(self.module, name)
        if t[0] == 'g':
            v = _module_value(self.repo, t[1])
            if v is not None:
                return v
        return t

    def _e_Name(self, n):
        return self._load_name(n.id, n)

    def _load_attr(self, base, name):
        k = ('$a', base, name)
        if k in self.env:
            return self.env[k]
        t = T.attr(base, name)
        if self.versioned and t in self._ver:
            return ('mut', t, self._ver[t])
        return t

    def _e_Attribute(self, n):
        return self._load_attr(self.ev(n.value), n.attr)

    def _ev_index(self, n):
        if isinstance(n, ast.Slice):
            return T.slice_(self.ev(n.lower) if n.lower else T.NONE,
                            self.ev(n.upper) if n.upper else T.NONE,
                            self.ev(n.step) if n.step else T.NONE)
        if isinstance(n, ast.Tuple):
            return T.tup([self._ev_index(e) for e in n.elts])
        return self.ev(n)

    def _load_sub(self, base, key):
        k = ('$s', base, key)
        if k in self.env:
            return self.env[k]
        t = T.sub(base, key)
        # an object that was changed in place is the changed object however it is reached again
        # (through a name bound to it or through the same expression)
        if self.versioned and t in self._ver:
            return ('mut', t, self._ver[t])
        return t

    def _e_Subscript(self, n):
        return self._load_sub(self.ev(n.value), self._ev_index(n.slice))

    def _e_Slice(self, n):
        return self._ev_index(n)

    def _e_Starred(self, n):
        return ('star', self.ev(n.value))

    def _e_Tuple(self, n):
        return T.tup([self.ev(e) for e in n.elts])

    def _new(self, what):
        self._n_new = getattr(self, '_n_new', 0) + 1
        return ('call', T.G('$new_' + what), (T.C(self._n_new),), ())

    def _e_List(self, n):
        if not n.elts and isinstance(getattr(n, 'ctx', None), ast.Load):
            return self._new('list')
        return T.lst([self.ev(e) for e in n.elts])

    def _e_Set(self, n):
        return ('set', tuple(sorted({self.ev(e) for e in n.elts}, key=repr)))

    def _e_Dict(self, n):
        if not n.keys:
            return self._new('dict')
        items = []
        for k, v in zip(n.keys, n.values):
            if k is None:
                items.append(('dstar', self.ev(v)))
            else:
                items.append(('kv', self.ev(k), self.ev(v)))
        return ('dict', tuple(items))

    def _e_JoinedStr(self, n):
        parts = []
        for v in n.values:
            if isinstance(v, ast.Constant):
                parts.append(T.C(v.value))
            elif isinstance(v, ast.FormattedValue):
                parts.append(self.ev(v.value))
        if all(p[0] == 'c' for p in parts):
            return T.C(''.join(str(p[1]) for p in parts))
        # f"a{x}" == "a" + str(x)
        return T.concat([p if p[0] == 'c' else T.call(T.G('str'), (p,)) for p in parts])

    def _e_FormattedValue(self, n):
        return self.ev(n.value)

    def _e_BinOp(self, n):
        return T.binop(_BINOPS.get(type(n.op), '?'), self.ev(n.left), self.ev(n.right))

    def _e_UnaryOp(self, n):
        v = self.ev(n.operand)
        if isinstance(n.op, ast.Not):
            return T.not_(v)
        if isinstance(n.op, ast.USub):
            return T.neg(v)
        if isinstance(n.op, ast.Invert):
            return T.inv(v)
        return v

    def _e_BoolOp(self, n):
        kind = 'and' if isinstance(n.op, ast.And) else 'or'
        return T.nary(kind, tuple(self.ev(v) for v in n.values))

    def _e_Compare(self, n):
        left = self.ev(n.left)
        out = []
        for op, right in zip(n.ops, n.comparators):
            r = self.ev(right)
            out.append(T.cmp(_CMPOPS[type(op)], left, r))
            left = r
        return out[0] if len(out) == 1 else T.nary('and', tuple(out))

    def _e_IfExp(self, n):
        c = self.ev(n.test)
        self._guards.append((c, True, 'if'))
        a = self.ev(n.body)
        self._guards.pop()
        self._guards.append((c, False, 'if'))
        b = self.ev(n.orelse)
        self._guards.pop()
        return T.ite(c, a, b)

    def _e_NamedExpr(self, n):
        v = self.ev(n.value)
        self._assign(n.target, v, n)
        return v

    def _e_Await(self, n):
        return ('await', self.ev(n.value))

    def _e_Yield(self, n):
        v = self.ev(n.value) if n.value is not None else T.NONE
        e = self._emit('yield', n, value=v)
        return ('yieldv', e.idx)

    def _e_YieldFrom(self, n):
        v = self.ev(n.value)
        e = self._emit('yield_from', n, value=v)
        return ('yieldv', e.idx)

    def _height(self, terms):
        h = 0
        for t in terms:
            for x in T.walk(t):
                if x[0] == 'bv' and isinstance(x[2], int) and x[2] > h:
                    h = x[2]
        return h

    def _e_Lambda(self, n):
        saved = {}
        temps = []
        a = n.args
        # `lambda x, k=k: ...` (a default that binds the current value of an enclosing variable, the early-binding
        # idiom): the parameter is that value - callers of such a lambda pass the leading arguments only
        pos = list(a.posonlyargs) + list(a.args)
        early = {}
        for arg, d in list(zip(pos[len(pos) - len(a.defaults):], a.defaults)) + \
                [(x, d) for x, d in zip(a.kwonlyargs, a.kw_defaults) if d is not None]:
            if isinstance(d, (ast.Name, ast.Constant)):
                early[arg.arg] = self.ev(d)
        for i, arg in enumerate(pos + list(a.kwonlyargs)):
            saved[arg.arg] = self.env.get(arg.arg, None)
            if arg.arg in early:
                self.env[arg.arg] = early[arg.arg]
                continue
            self._n_unk += 1
            tv = ('bv', f't{self._n_unk}', 0)
            self.env[arg.arg] = tv
            temps.append(tv)
        n_ev = len(self.events)
        body = self.ev(n.body)
        # events inside a lambda body are not executed here: mark them
        for e in self.events[n_ev:]:
            e.d['in_lambda'] = True
        for k, v in saved.items():
            if v is None:
                self.env.pop(k, None)
            else:
                self.env[k] = v
        h = self._height([body]) + 1
        ren = {tv: ('bv', f'l{i}', h) for i, tv in enumerate(temps)}
        body = T.subst(body, ren)
        return ('lam', tuple(f'l{i}' for i in range(len(temps))), body)

    def _comp(self, n, kind, elt_nodes):
        saved = {}
        temps = []

        def bindpat(t):
            if isinstance(t, ast.Name):
                if t.id not in saved:
                    saved[t.id] = self.env.get(t.id, None)
                self._n_unk += 1
                bv = ('bv', f't{self._n_unk}', 0)
                temps.append(bv)
                self.env[t.id] = bv
                return bv
            if isinstance(t, (ast.Tuple, ast.List)):
                return T.tup([bindpat(e) for e in t.elts])
            if isinstance(t, ast.Starred):
                return ('star', bindpat(t.value))
            return self._unk('comp-target')
        gens = []
        n_ev = len(self.events)
        for g in n.generators:
            it = self.ev(g.iter)
            pat = bindpat(g.target)
            conds = tuple(self.ev(c) for c in g.ifs)
            gens.append(('gen', pat, it, conds))
        elts = [self.ev(e) for e in elt_nodes]
        for e in self.events[n_ev:]:
            e.d['in_comp'] = True
        for k, v in saved.items():
            if v is None:
                self.env.pop(k, None)
            else:
                self.env[k] = v
        h = self._height(list(gens) + elts) + 1
        ren = {tv: ('bv', f'c{i}', h) for i, tv in enumerate(temps)}
        gens = tuple(T.subst(g, ren) for g in gens)
        elts = [T.subst(e, ren) for e in elts]
        return tuple(gens), elts

    @staticmethod
    def _unroll_comp(gens, elts):
        """A comprehension over a literal list of constants (possibly enumerate(...) of it) is the literal
        it builds: [[elt terms per item], ...] or None."""
        if len(gens) != 1 or gens[0][3]:
            return None
        pat, it = gens[0][1], gens[0][2]

        def literal(x):
            if x[0] == 'call' and x[1] == T.G('$obj') and len(x[2]) == 2:
                x = x[2][0]
            if x[0] in ('list', 'tuple') and 0 < len(x[1]) <= 16 and all(e[0] == 'c' for e in x[1]):
                return list(x[1])
            return None
        items = None
        if it[0] == 'call' and it[1] == T.G('enumerate') and len(it[2]) == 1 and not it[3]:
            lit = literal(it[2][0])
            if lit is not None:
                items = [T.tup([T.C(i), e]) for i, e in enumerate(lit)]
        else:
            lit = literal(it)
            if lit is not None:
                items = lit
        if items is None:
            return None
        out = []
        for item in items:
            if pat[0] == 'bv':
                m = {pat: item}
            elif pat[0] == 'tuple' and item[0] == 'tuple' and len(pat[1]) == len(item[1]) and all(p[0] == 'bv' for p in pat[1]):
                m = dict(zip(pat[1], item[1]))
            else:
                return None
            out.append([T.subst(e, m) for e in elts])
        return out

    def _e_ListComp(self, n):
        gens, (elt,) = self._comp(n, 'list', [n.elt])
        return ('comp', 'list', elt, gens)

    def _e_SetComp(self, n):
        gens, (elt,) = self._comp(n, 'set', [n.elt])
        return ('comp', 'set', elt, gens)

    def _e_GeneratorExp(self, n):
        gens, (elt,) = self._comp(n, 'gen', [n.elt])
        return ('comp', 'gen', elt, gens)

    def _e_DictComp(self, n):
        gens, (k, v) = self._comp(n, 'dict', [n.key, n.value])
        # frame-to-dict idiom  {k: v.values for k, v in X.items()}  ->  X
        if len(gens) == 1 and not gens[0][3]:
            pat, it = gens[0][1], gens[0][2]
            if pat[0] == 'tuple' and len(pat[1]) == 2 and k == pat[1][0] \
                    and v == ('attr', pat[1][1], 'values') \
                    and it[0] == 'call' and it[1][0] == 'attr' and it[1][2] == 'items' and not it[2]:
                return it[1][1]
        un = self._unroll_comp(gens, [k, v])
        if un is not None:
            return ('dict', tuple(('kv', kk, vv) for kk, vv in un))
        # {v: i for i, v in enumerate(A)}  is the position map of A  (dict(zip(A, range(len(A)))))
        if len(gens) == 1 and not gens[0][3]:
            pat, it = gens[0][1], gens[0][2]
            if pat[0] == 'tuple' and len(pat[1]) == 2 and v == pat[1][0] and k == pat[1][1] \
                    and it[0] == 'call' and it[1] == T.G('enumerate') and len(it[2]) == 1 and not it[3]:
                return ('call', T.G('$positions'), (it[2][0],), ())
        return ('comp', 'dict', ('kv', k, v), gens)

    # -- helpers the checker has never heard of ------------------------------------------------
    def _inline_body(self, f, args, kws, node):
        """Evaluate the body of a package-local helper that no rule or reference mentions IN PLACE (same
        event stream, guards, loops, versions; parameters bound to the argument terms): moving statements
        into a new helper - loops, stores, refusals included - leaves the effects of the caller unchanged.
        -> (done, value term)"""
        repo = self.repo
        q, pre, skip = None, [], 0
        if f[0] == 'g' and f[1] in repo.funcs and repo.funcs[f[1]].cls is None:
            q = f[1]
        elif f[0] == 'attr' and f[1] == T.V('self') and self.fi.cls is not None and (self.fi.cls + '.' + f[2]) in repo.funcs \
                and 'self' in self.env and self.env.get('self') == T.V('self'):
            q, skip = self.fi.cls + '.' + f[2], 1
        elif f[0] == 'call' and f[1] == T.G('functools.partial') and f[2] and not f[3] and f[2][0][0] == 'g' \
                and f[2][0][1] in repo.funcs and repo.funcs[f[2][0][1]].cls is None:
            q, pre = f[2][0][1], list(f[2][1:])
        if q is None or q.rsplit('.', 1)[1] in _known_names():
            return False, None
        stack = getattr(self, '_inline_stack', [])
        if q == self.fi.qualname or q in stack or len(stack) >= 3:
            return False, None
        fi = repo.funcs[q]
        a = fi.node.args
        static = bool(fi.node.decorator_list) and all(isinstance(d, ast.Name) and d.id == 'staticmethod' for d in fi.node.decorator_list)
        if static and skip:
            skip = 0            # self.helper(...) of a @staticmethod: no instance parameter
        if fi.parent is not None or (fi.node.decorator_list and not static) or a.vararg or a.kwarg \
                or any(isinstance(x, (ast.Await, ast.ClassDef, ast.Global, ast.Nonlocal)) for x in ast.walk(fi.node) if x is not fi.node) \
                or any(isinstance(x, (ast.Yield, ast.YieldFrom)) for x in _walk_no_defs(fi.node.body)):
            return False, None
        pos = [x.arg for x in list(a.posonlyargs) + list(a.args)]
        params = pos[skip:]
        kwonly = [x.arg for x in a.kwonlyargs]
        args = pre + list(args)
        if any(x[0] == 'star' for x in args) or any(k[0] != 'kw' for k in kws) or len(args) > len(params):
            return False, None
        bound = dict(zip(params, args))
        for k in kws:
            if (k[1] not in params and k[1] not in kwonly) or k[1] in bound:
                return False, None
            bound[k[1]] = k[2]
        defaults = {}
        for arg, d in list(zip((list(a.posonlyargs) + list(a.args))[len(pos) - len(a.defaults):], a.defaults)) + \
                [(x, d) for x, d in zip(a.kwonlyargs, a.kw_defaults) if d is not None]:
            defaults[arg.arg] = d
        for p in params + kwonly:
            if p not in bound and p not in defaults:
                return False, None
        # swap the per-function state
        saved = (self.env, self.module, self._locals, self._mutated, self._globals_decl, self._nonlocal_decl, self.closure,
                 getattr(self, '_rest', []), getattr(self, '_pending_path_guards', 0))
        self._inline_stack = stack + [q]
        self._env_stack = getattr(self, '_env_stack', []) + [self.env]
        self.module = fi.module
        self.closure = {}
        self.env = {}
        for p in params + kwonly:
            if p not in bound:
                try:
                    bound[p] = T.C(ast.literal_eval(defaults[p]))
                except (ValueError, SyntaxError, TypeError):
                    bound[p] = self.ev(defaults[p])
        self.env = dict(bound)
        if skip:
            self.env[pos[0]] = T.V('self')
        self._locals = _assigned_names(fi.node) | set(pos) | set(kwonly)
        self._mutated = _mutated_names(fi.node)
        self._globals_decl, self._nonlocal_decl = set(), set()
        rets = []
        self._inline_returns = getattr(self, '_inline_returns', []) + [rets]
        base = len(self._guards)
        self._inline_guard_base = getattr(self, '_inline_guard_base', []) + [base]
        try:
            st = self._block(fi.node.body)
            residual = list(self._last_residual) if st is None else []
        finally:
            del self._guards[base:]
            self._inline_guard_base = self._inline_guard_base[:-1]
            self._inline_returns = self._inline_returns[:-1]
            self._inline_stack = stack
            self._env_stack = self._env_stack[:-1]
            (self.env, self.module, self._locals, self._mutated, self._globals_decl, self._nonlocal_decl, self.closure,
             self._rest, self._pending_path_guards) = saved
        # value: the returns in order, each under its own conditions (relative to the call)
        # a return is reached only when the earlier ones were not taken: a conjunct that merely repeats the negation
        # of an earlier return's (single) condition adds nothing
        simp = []
        for value, conds in rets:
            flat = []
            for c in conds:
                flat.extend(c[1] if c[0] == 'and' else [c])
            kept = [g for g in flat if not any(len(cj) == 1 and T.not_(cj[0]) == g for _, cj in simp)]
            simp.append((value, kept))
        acc = T.NONE
        for value, conds in reversed(simp):
            if not conds:
                acc = value
            else:
                c = conds[0] if len(conds) == 1 else T.nary('and', tuple(conds))
                acc = T.ite(c, value, acc)
        return True, acc

    def _s_Return_inline(self, s):
        v = self.ev(s.value) if s.value is not None else T.NONE
        base = 0
        # conditions pushed since the helper was entered
        depth = getattr(self, '_inline_base_depths', [])
        self._inline_returns[-1].append((v, [(c if p else T.not_(c)) for c, p, k in self._guards[self._inline_guard_base[-1]:]
                                             if not k.endswith('raise')]))
        return 'return'

    def _inline_unknown_helper(self, f, args, kws, node=None):
        """A call of a package-local, effect-free function (module function, method of the same class
        through self, or functools.partial of one) whose name no rule or reference mentions is replaced
        by the value it returns: extracting an expression into a new helper does not change the terms."""
        repo = self.repo
        q, pre, skip = None, [], 0
        if f[0] == 'g' and f[1] in repo.funcs and repo.funcs[f[1]].cls is None:
            q = f[1]
        elif f[0] == 'attr' and f[1] == T.V('self') and self.fi.cls is not None and (self.fi.cls + '.' + f[2]) in repo.funcs:
            q, skip = self.fi.cls + '.' + f[2], 1
        elif f[0] == 'call' and f[1] == T.G('functools.partial') and f[2] and not f[3] and f[2][0][0] == 'g' \
                and f[2][0][1] in repo.funcs and repo.funcs[f[2][0][1]].cls is None:
            q, pre = f[2][0][1], list(f[2][1:])
        if q is None or q.rsplit('.', 1)[1] in _known_names() or q == self.fi.qualname:
            return None
        sm = _helper_summary(repo, q, skip)
        if sm is None:
            return None
        params, kwonly, dterms, body, inner_calls = sm
        args = pre + list(args)
        if any(a[0] == 'star' for a in args) or any(k[0] != 'kw' for k in kws) or len(args) > len(params):
            return None
        bound = dict(zip(params, args))
        for k in kws:
            if (k[1] not in params and k[1] not in kwonly) or k[1] in bound:
                return None
            bound[k[1]] = k[2]
        for p in params + kwonly:
            if p not in bound:
                if dterms.get(p) is None:
                    return None
                bound[p] = dterms[p]
        m = {T.V(k): v for k, v in bound.items()}
        # the calls the helper makes are calls of the caller (under the helper's conditions): rules
        # that look for a constructor or reader call still find it
        for term, cf_, cargs, ckws, guards in inner_calls:
            gs = [T.subst(g, m) for g in guards]
            for g in gs:
                self._guards.append((g, True, 'if'))
            self._emit('call', node, term=T.subst(term, m), f=T.subst(cf_, m), args=tuple(T.subst(a, m) for a in cargs),
                       kws=tuple(T.subst(k, m) for k in ckws), stmt=False)
            for _ in gs:
                self._guards.pop()
        return T.subst(body, m)

    def _transplant_validation_helper(self, node, f, args, kws):
        """`_check_x(a, b)` as a statement, where _check_x is a helper unknown to the checker that only
        tests and raises: its refusals become refusals of the caller (same conditions, arguments
        substituted), followed by the path condition that none of them fired."""
        repo = self.repo
        if f[0] == 'g' and f[1] in repo.funcs and repo.funcs[f[1]].cls is None:
            q, skip = f[1], 0
        elif f[0] == 'attr' and f[1] == T.V('self') and self.fi.cls is not None and (self.fi.cls + '.' + f[2]) in repo.funcs:
            q, skip = self.fi.cls + '.' + f[2], 1
        else:
            return False
        if q.rsplit('.', 1)[1] in _known_names() or q == self.fi.qualname:
            return False
        sm = _validation_summary(repo, q, skip)
        if sm is None:
            return False
        params, kwonly, dterms, raises = sm
        if any(a[0] == 'star' for a in args) or any(k[0] != 'kw' for k in kws) or len(args) > len(params):
            return False
        bound = dict(zip(params, args))
        for k in kws:
            if (k[1] not in params and k[1] not in kwonly) or k[1] in bound:
                return False
            bound[k[1]] = k[2]
        for p in params + kwonly:
            if p not in bound:
                if dterms.get(p) is None:
                    return False
                bound[p] = dterms[p]
        m = {T.V(k): v for k, v in bound.items()}
        for exc, guards in raises:
            gs = [T.subst(g, m) for g in guards]
            for g in gs:
                self._guards.append((g, True, 'if'))
            self._emit('raise', node, exc=T.subst(exc, m), cause=None)
            for _ in gs:
                self._guards.pop()
            if gs:
                conj = gs[0] if len(gs) == 1 else T.nary('and', tuple(gs))
                self._guards.append((conj, False, 'raise'))
                self._pending_path_guards = getattr(self, '_pending_path_guards', 0) + 1
        return True

    def _canon_args(self, f, args, kws):
        """One spelling per call of a package-local function: keyword arguments that name the next
        positional parameters are passed positionally (f(a, y=b) == f(a, b))."""
        if f[0] != 'g' or any(a[0] == 'star' for a in args):
            return args, kws
        q = f[1]
        fi = self.repo.funcs.get(q)
        skip = 0
        if fi is not None and fi.cls is not None:
            return args, kws
        if fi is None and q in self.repo.classes:
            fi = self.repo.funcs.get(q + '.__init__')
            skip = 1
        if fi is None or fi.node.decorator_list:
            return args, kws
        a = fi.node.args
        params = [x.arg for x in list(a.posonlyargs) + list(a.args)][skip:]
        npos_only = max(0, len(a.posonlyargs) - skip)
        byname = {k[1]: k for k in kws if k[0] == 'kw'}
        args = list(args)
        kws = list(kws)
        while len(args) < len(params) and len(args) >= npos_only and params[len(args)] in byname:
            k = byname.pop(params[len(args)])
            kws.remove(k)
            args.append(k[2])
        # an argument that spells out the callee's own literal default is no argument: f(x, None) == f(x)
        dflt = {}
        allpos = (list(a.posonlyargs) + list(a.args))
        for arg, d in list(zip(allpos[len(allpos) - len(a.defaults):], a.defaults)) + \
                [(x, d) for x, d in zip(a.kwonlyargs, a.kw_defaults) if d is not None]:
            try:
                dflt[arg.arg] = T.C(ast.literal_eval(d))
            except (ValueError, SyntaxError, TypeError):
                pass
        kws = [k for k in kws if not (k[0] == 'kw' and k[1] in dflt and k[2] == dflt[k[1]])]
        while args and len(args) <= len(params) and params[len(args) - 1] in dflt and args[-1] == dflt[params[len(args) - 1]]:
            args.pop()
        return args, kws

    def _e_Call(self, n, stmt=False):
        if isinstance(n.func, ast.Attribute) and n.func.attr == 'fromkeys' and isinstance(n.func.value, ast.Name) \
                and n.func.value.id == 'dict' and 'dict' not in self.env and len(n.args) == 2 and not n.keywords \
                and isinstance(n.args[1], ast.Constant):
            # dict.fromkeys(xs, c)  ==  {k: c for k in xs}
            comp = ast.DictComp(ast.Name('_k', ast.Load()), n.args[1],
                                [ast.comprehension(ast.Name('_k', ast.Store()), n.args[0], [], 0)])
            return self._e_DictComp(ast.fix_missing_locations(ast.copy_location(comp, n)))
        f = self.ev(n.func)
        if not n.args and not n.keywords and f in (T.G('list'), T.G('dict')):
            return self._new('list' if f == T.G('list') else 'dict')      # list() is [] , dict() is {}
        if f == T.G('dict') and not n.args and n.keywords and all(k.arg is not None for k in n.keywords):
            return ('dict', tuple(('kv', T.C(k.arg), self.ev(k.value)) for k in n.keywords))
        args = []
        for a in n.args:
            if isinstance(a, ast.Starred):
                v = self.ev(a.value)
                if v[0] in ('tuple', 'list') and not any(x[0] == 'star' for x in v[1]):
                    args.extend(v[1])
                else:
                    args.append(('star', v))
            else:
                args.append(self.ev(a))
        kws = []
        for k in n.keywords:
            if k.arg is None:
                v = self.ev(k.value)
                if v[0] == 'dict' and all(kv[0] == 'kv' and kv[1][0] == 'c' and isinstance(kv[1][1], str)
                                          for kv in v[1]):
                    for kv in v[1]:
                        kws.append(T.kw(kv[1][1], kv[2]))
                elif v[0] == 'call' and v[1] == T.G('$new_dict') and self.versioned:
                    pass        # **{} of a dict that was never filled adds nothing
                else:
                    kws.append(('dstar', v))
            else:
                kws.append(T.kw(k.arg, self.ev(k.value)))
        if f in (T.G('all'), T.G('any')) and len(args) == 1 and not kws and args[0][0] == 'comp' and args[0][1] in ('gen', 'list'):
            # all(t(k) for k in ('a', 'b'))  is  t('a') and t('b')
            un = self._unroll_comp(args[0][3], [args[0][2]])
            if un is not None:
                return T.nary('and' if f == T.G('all') else 'or', tuple(T.as_cond(x[0]) for x in un))
        args, kws = self._canon_args(f, args, kws)
        n0, cnt0, new0, loops0, guards0 = len(self.events), self._counters(), getattr(self, '_n_new', 0), set(self.loops), len(self._guards)
        try:
            done, val = self._inline_body(f, args, kws, n)
        except AnalysisError:
            raise
        except Exception:
            # a helper that cannot be evaluated in place is kept as a call
            del self.events[n0:]
            del self._guards[guards0:]
            self._restore_counters(cnt0)
            self._n_new = new0
            for k in set(self.loops) - loops0:
                del self.loops[k]
            done, val = False, None
        if done:
            return val
        if not stmt:
            inl = self._inline_unknown_helper(f, args, kws, n)
            if inl is not None:
                return inl
        elif self._transplant_validation_helper(n, f, args, kws):
            return T.NONE
        t = T.call(f, args, kws)
        # calls that consume state (next(it), x.pop(), f.readline() ...) denote a new value each
        # time they are evaluated: number the evaluations of one call term
        if t[0] == 'call' and (f == T.G('next') or (f[0] == 'attr' and f[2] in _IMPURE_METHODS)):
            self._nth = getattr(self, '_nth', {})
            self._nth[t] = self._nth.get(t, 0) + 1
            t = ('nth', self._nth[t], t)
        self._emit('call', n, term=t, f=f, args=tuple(args), kws=tuple(sorted(kws, key=repr)),
                   stmt=stmt)
        if self.versioned and stmt and f[0] == 'attr' and f[2] in _MUTATORS:
            self._bump(f[1])
        return t


# ---------------------------------------------------------------------------
# syntactic helpers

def _walk_no_defs(stmts):
    """Walk statements without descending into nested function/class defs."""
    stack = list(stmts)
    while stack:
        n = stack.pop()
        yield n
        for c in ast.iter_child_nodes(n):
            if isinstance(c, (ast.FunctionDef, ast.AsyncFunctionDef, ast.ClassDef, ast.Lambda)):
                continue
            stack.append(c)


def _target_names(t, out):
    if isinstance(t, ast.Name):
        out.add(t.id)
    elif isinstance(t, (ast.Tuple, ast.List)):
        for e in t.elts:
            _target_names(e, out)
    elif isinstance(t, ast.Starred):
        _target_names(t.value, out)


def _assigned_in(stmts):
    """Names (re)bound by the statements (not descending into nested defs and
    not counting comprehension variables)."""
    out = set()
    for n in _walk_no_defs(stmts):
        if isinstance(n, ast.Assign):
            for t in n.targets:
                _target_names(t, out)
        elif isinstance(n, (ast.AugAssign, ast.AnnAssign)):
            _target_names(n.target, out)
        elif isinstance(n, (ast.For, ast.AsyncFor)):
            _target_names(n.target, out)
        elif isinstance(n, (ast.With, ast.AsyncWith)):
            for it in n.items:
                if it.optional_vars is not None:
                    _target_names(it.optional_vars, out)
        elif isinstance(n, ast.NamedExpr):
            _target_names(n.target, out)
        elif isinstance(n, (ast.Import, ast.ImportFrom)):
            for a in n.names:
                out.add((a.asname or a.name).split('.')[0])
        elif isinstance(n, ast.ExceptHandler) and n.name:
            out.add(n.name)
    # nested function names
    for n in stmts:
        pass
    return out


_IMPURE_METHODS = {'pop', 'popitem', 'readline', 'read', 'readlines', 'peek', 'get_nowait', 'recv', 'popleft'}
_MUTATORS = {'append', 'extend', 'insert', 'update', 'add', 'remove', 'pop', 'clear', 'sort',
             'setdefault', 'popitem', 'discard'}


def _mutated_names(fnode):
    out = set()
    for n in _walk_no_defs(fnode.body):
        if isinstance(n, ast.Call) and isinstance(n.func, ast.Attribute) and n.func.attr in _MUTATORS \
                and isinstance(n.func.value, ast.Name):
            out.add(n.func.value.id)
        elif isinstance(n, (ast.Assign, ast.AugAssign)):
            tgts = n.targets if isinstance(n, ast.Assign) else [n.target]
            for t in tgts:
                if isinstance(t, ast.Subscript) and isinstance(t.value, ast.Name):
                    out.add(t.value.id)
                if isinstance(n, ast.AugAssign) and isinstance(t, ast.Name):
                    out.add(t.id)
    return out


def _assigned_names(fnode):
    out = _assigned_in(fnode.body)
    for n in _walk_no_defs(fnode.body):
        pass
    # nested defs bind their own name
    from .model import _nested_defs
    for d in _nested_defs(fnode):
        out.add(d.name)
    a = fnode.args
    for arg in list(a.posonlyargs) + list(a.args) + list(a.kwonlyargs):
        out.add(arg.arg)
    if a.vararg:
        out.add(a.vararg.arg)
    if a.kwarg:
        out.add(a.kwarg.arg)
    return out


# ---------------------------------------------------------------------------
# analysis cache

def _continue_free(s):
    """A loop over a literal whose body skips an iteration with a guard clause directly in the body -
    ``if c: continue`` followed by the rest - is the same loop with the rest under ``if not c:``; in that
    form a literal loop can be unrolled.  Other loops are returned unchanged."""
    if not isinstance(s.iter, (ast.List, ast.Tuple, ast.Name)) or s.orelse:
        return s

    def has_continue(stmts):
        stack = list(stmts)
        while stack:
            n = stack.pop()
            if isinstance(n, ast.Continue):
                return True
            if isinstance(n, (ast.For, ast.AsyncFor, ast.While, ast.FunctionDef, ast.AsyncFunctionDef, ast.ClassDef, ast.Lambda)):
                continue
            stack.extend(ast.iter_child_nodes(n))
        return False
    if not has_continue(s.body):
        return s

    def rewrite(stmts):
        out = []
        for i, st in enumerate(stmts):
            if isinstance(st, ast.If) and not st.orelse and len(st.body) == 1 and isinstance(st.body[0], ast.Continue):
                rest = rewrite(stmts[i + 1:])
                if rest:
                    neg = ast.UnaryOp(op=ast.Not(), operand=st.test)
                    new = ast.If(test=neg, body=rest, orelse=[])
                    ast.copy_location(neg, st.test)
                    ast.copy_location(new, st)
                    out.append(new)
                return out
            out.append(st)
        return out
    body = rewrite(list(s.body))
    if not body or has_continue(body):
        return s
    new = ast.For(target=s.target, iter=s.iter, body=body, orelse=[], type_comment=None)
    ast.copy_location(new, s)
    ast.fix_missing_locations(new)
    return new


class Analyses:
    """Lazily evaluates functions of a repo; nested functions get the
    enclosing function's environment at the point of definition."""

    def __init__(self, repo: Repo):
        self.repo = repo
        self._cache = {}

    def get(self, qualname) -> FuncAnalysis:
        fi = self.repo.func(qualname)
        q = fi.qualname
        if q in self._cache:
            return self._cache[q]
        closure = None
        if fi.parent is not None:
            pa = self.get(fi.parent.qualname)
            closure = dict(pa.closure)
            closure.update(pa.closures.get(q, pa.env))
            closure = {k: v for k, v in closure.items() if isinstance(k, str)}
        try:
            fa = FuncAnalysis(self.repo, fi, closure=closure, analyses=self)
        except RecursionError as e:
            raise AnalysisError(f'recursion while evaluating {q}') from e
        self._cache[q] = fa
        return fa

    __call__ = get
