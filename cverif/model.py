"""Program model (engine E1): modules, qualified names, imports, classes.

Parses every ``*.py`` under ``<repo>/src/cooler`` with ``ast`` - nothing is
imported.  Anchor resolution is fail-closed: asking for a function that does
not exist raises :class:`AnalysisError` (exit 2 at the driver), never a silent
pass.
"""
from __future__ import annotations

import ast
import os

from . import terms as T


_KNOWN = None


def known_names():
    """Identifiers that occur in the rule and reference sources of the checker."""
    global _KNOWN
    if _KNOWN is None:
        import re
        _KNOWN = set()
        d = os.path.join(os.path.dirname(os.path.abspath(__file__)), 'props')
        for fn in os.listdir(d):
            if fn.endswith('.py'):
                with open(os.path.join(d, fn), encoding='utf-8') as fh:
                    _KNOWN.update(re.findall(r'[A-Za-z_][A-Za-z0-9_]*', fh.read()))
    return _KNOWN


class AnalysisError(Exception):
    """The analysis cannot be carried out (vanished anchor, parse failure,
    unrecognised construct).  Reported as ANALYSIS-ERROR, exit code 2."""


EXTERNAL_ALIASES = {
    'numpy': 'np', 'pandas': 'pd', 'simplejson': 'json', 'os.path': 'os.path',
    'multiprocess': 'mp', 'multiprocessing': 'mp',
}


def repo_root():
    return os.environ.get('VERIF_REPO', '/repo')


class Module:
    def __init__(self, name, path, tree, source):
        self.name = name            # dotted, e.g. cooler.create._create
        self.path = path
        self.tree = tree
        self.source = source
        self.is_pkg = path.endswith('__init__.py')
        self.imports = {}           # local name -> ('mod', dotted) | ('obj', dotted)
        self.defs = {}              # local name -> ast node (FunctionDef/ClassDef/Assign value)
        self.assigns = {}           # local name -> ast expr (module-level simple assigns)


class FuncInfo:
    def __init__(self, qualname, node, module, cls=None, parent=None):
        self.qualname = qualname
        self.node = node
        self.module = module
        self.cls = cls              # qualified class name for methods
        self.parent = parent        # enclosing FuncInfo for nested defs

    @property
    def file(self):
        return self.module.path

    @property
    def lineno(self):
        return self.node.lineno


class Repo:
    def __init__(self, root=None, pkg='cooler'):
        self.root = root or repo_root()
        self.pkg = pkg
        self.src = os.path.join(self.root, 'src', pkg)
        self.modules = {}
        self.funcs = {}             # qualname -> FuncInfo
        self.classes = {}           # qualname -> (ClassDef, Module)
        self.n_files = 0
        self._load()

    # -- loading -----------------------------------------------------------
    def _load(self):
        if not os.path.isdir(self.src):
            raise AnalysisError(f'source directory not found: {self.src}')
        for dirpath, dirnames, filenames in os.walk(self.src):
            dirnames.sort()
            for fn in sorted(filenames):
                if not fn.endswith('.py'):
                    continue
                path = os.path.join(dirpath, fn)
                rel = os.path.relpath(path, os.path.join(self.root, 'src'))
                parts = rel[:-3].split(os.sep)
                if parts[-1] == '__init__':
                    parts = parts[:-1]
                name = '.'.join(parts)
                try:
                    with open(path, encoding='utf-8') as fh:
                        source = fh.read()
                    tree = ast.parse(source, filename=path)
                except (SyntaxError, OSError, UnicodeDecodeError) as e:
                    raise AnalysisError(f'cannot parse {path}: {e}') from e
                m = Module(name, path, tree, source)
                self.modules[name] = m
                self.n_files += 1
        for m in self.modules.values():
            self._index_module(m)
        for q, fi in self.funcs.items():
            if fi.cls is None and not fi.node.decorator_list:
                a = fi.node.args
                T.SIGNATURES[q] = [x.arg for x in list(a.posonlyargs) + list(a.args)]
        for cq in self.classes:
            fi = self.funcs.get(cq + '.__init__')
            if fi is not None and not fi.node.decorator_list:
                a = fi.node.args
                T.SIGNATURES[cq] = [x.arg for x in list(a.posonlyargs) + list(a.args)][1:]
        for name in self.modules:
            T.MODULE_NAMES.add(name)
        T.MODULE_NAMES.update({'np', 'pd', 'h5py', 'os', 'os.path', 'json', 'math', 'mp', 'sys',
                               'warnings', 'tempfile', 'posixpath', 'itertools', 're', 'click',
                               'scipy', 'scipy.sparse', 'np.random', 'np.linalg', 'pd.api',
                               'pd.api.types', 'gzip', 'pickle', 'dill', 'pysam', 'pypairix',
                               'operator', 'functools', 'collections', 'decimal', 'datetime'})

    def _abs_module(self, m, level, module):
        if level == 0:
            return module
        base = m.name.split('.')
        if not m.is_pkg:
            base = base[:-1]
        if level > 1:
            base = base[:-(level - 1)]
        return '.'.join(base + ([module] if module else []))

    def _index_module(self, m):
        def visit_body(body):
            for node in body:
                if isinstance(node, ast.Import):
                    for a in node.names:
                        full = a.name
                        canon = EXTERNAL_ALIASES.get(full, full)
                        if a.asname:
                            m.imports[a.asname] = ('mod', canon)
                        else:
                            top = full.split('.')[0]
                            m.imports[top] = ('mod', EXTERNAL_ALIASES.get(top, top))
                elif isinstance(node, ast.ImportFrom):
                    mod = self._abs_module(m, node.level, node.module)
                    for a in node.names:
                        local = a.asname or a.name
                        full = (mod + '.' + a.name) if mod else a.name
                        if full in self.modules:
                            m.imports[local] = ('mod', full)
                        else:
                            modc = EXTERNAL_ALIASES.get(mod, mod)
                            m.imports[local] = ('obj', modc + '.' + a.name)
                elif isinstance(node, (ast.FunctionDef, ast.AsyncFunctionDef)):
                    # keep the last definition (overloads come first)
                    m.defs[node.name] = node
                elif isinstance(node, ast.ClassDef):
                    m.defs[node.name] = node
                elif isinstance(node, ast.Assign):
                    if len(node.targets) == 1 and isinstance(node.targets[0], ast.Name):
                        m.assigns[node.targets[0].id] = node.value
                elif isinstance(node, ast.AnnAssign):
                    if isinstance(node.target, ast.Name) and node.value is not None:
                        m.assigns[node.target.id] = node.value
                elif isinstance(node, ast.Try):
                    visit_body(node.body)
                    for h in node.handlers:
                        visit_body(h.body)
                    visit_body(node.orelse)
                elif isinstance(node, ast.If):
                    visit_body(node.body)
                    visit_body(node.orelse)
        visit_body(m.tree.body)
        for name, node in m.defs.items():
            if isinstance(node, (ast.FunctionDef, ast.AsyncFunctionDef)):
                self._add_func(m.name + '.' + name, node, m)
            elif isinstance(node, ast.ClassDef):
                cq = m.name + '.' + name
                self.classes[cq] = (node, m)
                for sub in node.body:
                    if isinstance(sub, (ast.FunctionDef, ast.AsyncFunctionDef)):
                        self._add_func(cq + '.' + sub.name, sub, m, cls=cq)

    def _add_func(self, qual, node, m, cls=None, parent=None):
        fi = FuncInfo(qual, node, m, cls=cls, parent=parent)
        self.funcs[qual] = fi
        for sub in ast.walk(node):
            if sub is node:
                continue
        # nested functions (direct lexical children at any statement depth,
        # but not inside deeper defs)
        seen = {}
        for sub in _nested_defs(node):
            seen[sub.name] = seen.get(sub.name, 0) + 1
            nm = sub.name if seen[sub.name] == 1 else f'{sub.name}#{seen[sub.name]}'
            self._add_func(qual + '.<locals>.' + nm, sub, m, cls=cls, parent=fi)

    # -- lookup ------------------------------------------------------------
    def func(self, qualname) -> FuncInfo:
        q = self.resolve(qualname)
        if q in self.funcs:
            return self.funcs[q]
        if '.<locals>.' in q:
            # a nested function that was renamed: the only nested function of the same parent whose
            # name the checker does not know takes the role
            parent, name = q.rsplit('.<locals>.', 1)
            pre = parent + '.<locals>.'
            cands = [k for k in self.funcs if k.startswith(pre) and '.<locals>.' not in k[len(pre):]]
            unknown = [k for k in cands if k[len(pre):].split('#')[0] not in known_names()]
            if len(unknown) == 1:
                return self.funcs[unknown[0]]
            # ... or the nested function moved, with the statements around it, into a helper the checker
            # does not know (which is evaluated in place where the parent calls it)
            mod = parent.rsplit('.', 1)[0] if parent in self.funcs and self.funcs[parent].cls is None else None
            moved = [k for k in self.funcs if k.endswith('.<locals>.' + name) and k.count('.<locals>.') == 1
                     and k.split('.<locals>.')[0].rsplit('.', 1)[1] not in known_names()
                     and (mod is None or k.startswith(mod + '.'))]
            if len(moved) == 1:
                return self.funcs[moved[0]]
            # ... or it was lifted to a module-level function (unknown to the checker) that the parent calls
            if parent in self.funcs:
                pfi = self.funcs[parent]
                lifted = set()
                for n in ast.walk(pfi.node):
                    if isinstance(n, ast.Name) and isinstance(n.ctx, ast.Load) and n.id not in known_names():
                        q2 = pfi.module.name + '.' + n.id
                        if q2 in self.funcs and self.funcs[q2].cls is None and self.funcs[q2].parent is None:
                            lifted.add(q2)
                if len(lifted) == 1:
                    return self.funcs[lifted.pop()]
        raise AnalysisError(f'anchor function not found: {qualname}')

    def has_func(self, qualname):
        return self.resolve(qualname) in self.funcs

    def cls(self, qualname):
        q = self.resolve(qualname)
        if q in self.classes:
            return self.classes[q]
        raise AnalysisError(f'anchor class not found: {qualname}')

    def module(self, name) -> Module:
        if name in self.modules:
            return self.modules[name]
        raise AnalysisError(f'anchor module not found: {name}')

    def resolve(self, dotted, _depth=0):
        """Follow re-exports / aliases until a definition is reached."""
        if _depth > 10:
            return dotted
        if dotted in self.funcs or dotted in self.classes or dotted in self.modules:
            return dotted
        if '.' not in dotted:
            return dotted
        mod, name = dotted.rsplit('.', 1)
        if mod in self.modules:
            m = self.modules[mod]
            if name in m.defs:
                return dotted
            if name in m.imports:
                kind, target = m.imports[name]
                return self.resolve(target, _depth + 1)
            if name in m.assigns:
                v = m.assigns[name]
                if isinstance(v, ast.Name):       # alias  a = b
                    return self.resolve(mod + '.' + v.id, _depth + 1)
                return dotted
            return dotted
        # maybe Class.method or module.Class.method given through an alias
        r = self.resolve(mod, _depth + 1)
        if r != mod:
            return self.resolve(r + '.' + name, _depth + 1)
        return dotted

    def const_value(self, dotted):
        """Literal value of a module-level constant (following aliases)."""
        q = self.resolve(dotted)
        if '.' not in q:
            return None
        mod, name = q.rsplit('.', 1)
        m = self.modules.get(mod)
        if m is None or name not in m.assigns:
            return None
        try:
            return ast.literal_eval(m.assigns[name])
        except (ValueError, SyntaxError, TypeError):
            return None

    def _literal_const(self, qual):
        """C(value) for a module-level name bound to a plain literal (str / number / bool) that the
        checker does not know by name: naming a literal is not a change."""
        if '.' not in qual:
            return None
        mod, name = qual.rsplit('.', 1)
        m = self.modules.get(mod)
        if m is None or name not in m.assigns or name in m.defs or name in known_names():
            return None
        v = m.assigns[name]
        if isinstance(v, ast.Constant) and isinstance(v.value, (str, int, float, bool)) and not isinstance(v.value, bytes):
            return T.C(v.value)
        return None

    def global_term(self, m: Module, name):
        """Term for a free name used in module ``m``."""
        if name in m.imports:
            kind, target = m.imports[name]
            if kind == 'mod':
                return T.G(target)
            q = self.resolve(target)
            return self._literal_const(q) or T.G(q)
        if name in m.defs or name in m.assigns:
            q = self.resolve(m.name + '.' + name)
            return self._literal_const(q) or T.G(q)
        return T.G(name)      # builtin or unknown

    def class_methods(self, cq):
        node, m = self.cls(cq)
        return {n.name: self.funcs[cq + '.' + n.name] for n in node.body
                if isinstance(n, (ast.FunctionDef, ast.AsyncFunctionDef))}

    def class_bases(self, cq):
        node, m = self.cls(cq)
        out = []
        for b in node.bases:
            if isinstance(b, ast.Name):
                t = self.global_term(m, b.id)
                if t[0] == 'g':
                    out.append(t[1])
            elif isinstance(b, ast.Attribute):
                out.append(ast.unparse(b))
        return out

    def all_functions(self):
        return list(self.funcs.values())


def _nested_defs(fnode):
    """FunctionDefs lexically nested directly in fnode (not in deeper defs)."""
    out = []

    def visit(stmts):
        for s in stmts:
            if isinstance(s, (ast.FunctionDef, ast.AsyncFunctionDef)):
                out.append(s)
                continue
            if isinstance(s, ast.ClassDef):
                continue
            for field in ('body', 'orelse', 'finalbody'):
                sub = getattr(s, field, None)
                if isinstance(sub, list):
                    visit(sub)
            if isinstance(s, ast.Try):
                for h in s.handlers:
                    visit(h.body)
            if hasattr(ast, 'Match') and isinstance(s, ast.Match):
                for c in s.cases:
                    visit(c.body)
    visit(fnode.body)
    return out


_REPO_CACHE = {}


def get_repo(root=None) -> Repo:
    root = root or repo_root()
    if root not in _REPO_CACHE:
        _REPO_CACHE[root] = Repo(root)
    return _REPO_CACHE[root]
