"""Effect-level comparison of a function with a reference model (engine E2b).

The *reference model* is a short function written in the checker, derived from
the property statement (what must be computed / refused), in the same Python
syntax as the code.  Both the repository function and the reference are pushed
through the same symbolic evaluator and normaliser; then their *effects* are
compared as multisets, each effect carrying its (non-raising) guard set:

    raise <ExceptionClass>            return / yield <term>
    store  base[key] = value          self.attr = value
    augmented store  base[key] op= v  del base[key]
    statement-level calls (mutating methods such as append / acquire / clear);
    logging and warnings are ignored

Because effects are compared as normalised terms, the comparison is insensitive
to renaming of locals, temporaries, reordering of independent statements,
helper variables, and the idiom spellings the normaliser knows.  It is
sensitive to any change of what value reaches which sink under which
condition.  A difference is reported with the nearest reference effect so the
report reads "found X, expected Y" at a file:line.

Differences that are *expected* on today's tree because the reference encodes
the property and the code has a recorded genuine defect are matched by
``known`` patterns and reported under the finding's own stable key.
"""
from __future__ import annotations

import ast
import difflib
import re
import os
import textwrap

from . import terms as T
from .model import FuncInfo
from .symeval import FuncAnalysis

IGNORED_CALL_ROOTS = ('logger', 'logging', 'warnings', 'print', 'click.echo')


def _object_of(t):
    """The object a term denotes, whatever was done to it in place (all version marks removed)."""
    return T.transform(t, lambda x: x[1] if x[0] == 'mut' else None)


def analyze_source(repo, module, source, qual='<reference>'):
    tree = ast.parse(textwrap.dedent(source))
    node = tree.body[0]
    fi = FuncInfo(qual, node, repo.module(module))
    fa = FuncAnalysis(repo, fi, versioned=True)
    # nested defs of the reference (analysed with the enclosing environment)
    from .model import _nested_defs
    fa.nested_analyses = {}
    seen = {}
    for sub in _nested_defs(node):
        seen[sub.name] = seen.get(sub.name, 0) + 1
        nm = sub.name if seen[sub.name] == 1 else f'{sub.name}#{seen[sub.name]}'
        q2 = qual + '.<locals>.' + nm
        fi2 = FuncInfo(q2, sub, repo.module(module), parent=fi)
        closure = {k: _object_of(v) for k, v in getattr(fa, 'all_bindings', {}).items() if isinstance(v, tuple)}
        closure.update({k: _object_of(v) for k, v in fa.env.items() if isinstance(k, str) and isinstance(v, tuple)})
        closure.update({k: v for k, v in fa.closures.get(q2, fa.env).items() if isinstance(k, str)})
        fa.nested_analyses[nm] = FuncAnalysis(repo, fi2, closure=closure, versioned=True)
    return fa


def nested_pairs(ctx, parent_fa, ref_parent):
    """[(name, qual, ref_name, ref_qual)]: nested functions of the real parent paired with those of the
    reference parent.  Unique names pair by name, the rest by order of definition - except that several
    definitions of one name (`if ...: def f ... else: def f ...`) pair by best agreement of their effects,
    so that the order in which the arms are written does not matter."""
    cache = ctx.__dict__.setdefault('_npairs', {})
    key = (parent_fa.fi.qualname, id(ref_parent))
    if key in cache:
        return cache[key]
    a = list(parent_fa.nested.items())
    r = list(getattr(ref_parent, 'nested', {}).items())
    pairs = []
    used_r = set()

    def base(n):
        return n.split('#')[0]
    groups = {}
    for n, q in a:
        groups.setdefault(base(n), []).append((n, q))
    rgroups = {}
    for n, q in r:
        rgroups.setdefault(base(n), []).append((n, q))
    for b, members in groups.items():
        rm = rgroups.get(b, [])
        if len(members) == 1 or len(members) != len(rm) or len(members) > 3 or not hasattr(ref_parent, 'nested_analyses'):
            continue
        import itertools
        best, best_perm = -1, None
        effs_a = [effects(_versioned(ctx, ctx.repo.funcs[q])) for _, q in members]
        effs_r = [effects(ref_parent.nested_analyses[n]) for n, _ in rm]

        def score(ea, er):
            A = [(repr(p), repr(sorted(map(repr, gs)))) for p, gs, _ in ea]
            B = [(repr(p), repr(sorted(map(repr, gs)))) for p, gs, _ in er]
            s = 0
            for x in A:
                if x in B:
                    B.remove(x)
                    s += 1
            return s
        for perm in itertools.permutations(range(len(rm))):
            sc = sum(score(effs_a[i], effs_r[j]) for i, j in enumerate(perm))
            if sc > best:
                best, best_perm = sc, perm
        for i, j in enumerate(best_perm):
            pairs.append((members[i][0], members[i][1], rm[j][0], rm[j][1]))
            used_r.add(rm[j][0])
    done_a = {p[0] for p in pairs}
    rest_a = [(n, q) for n, q in a if n not in done_a]
    rest_r = [(n, q) for n, q in r if n not in used_r]
    byname = dict(rest_r)
    leftover_a, taken = [], set()
    for n, q in rest_a:
        if n in byname and n not in taken:
            pairs.append((n, q, n, byname[n]))
            taken.add(n)
        else:
            leftover_a.append((n, q))
    leftover_r = [(n, q) for n, q in rest_r if n not in taken]
    for (n, q), (rn, rq) in zip(leftover_a, leftover_r):
        pairs.append((n, q, rn, rq))
    cache[key] = pairs
    return pairs


def sibling_renames(parent_fa, ref_parent, ctx=None):
    """Map references to nested functions of the real parent onto the nested
    functions of the reference parent."""
    out = {}
    if ctx is not None:
        for n, q, rn, rq in nested_pairs(ctx, parent_fa, ref_parent):
            out[('fn', q)] = ('fn', rq)
        return out
    for (an, aq), (rn, rq) in zip(parent_fa.nested.items(), ref_parent.nested.items()):
        out[('fn', aq)] = ('fn', rq)
    return out


def _versioned(ctx, fi):
    """Versioned re-evaluation of a repository function; a nested function gets the
    closure of its (versioned) parent at the point of definition."""
    cache = ctx.__dict__.setdefault('_vcache', {})
    if fi.qualname in cache:
        return cache[fi.qualname]
    closure = None
    if fi.parent is not None:
        pa = _versioned(ctx, fi.parent)
        closure = dict(pa.closure)
        # a closure sees its enclosing function's variables as they are when it runs: a name bound only
        # after the def is taken from the end of the enclosing function (the object, without versions)
        closure.update({k: _object_of(v) for k, v in getattr(pa, 'all_bindings', {}).items() if isinstance(v, tuple)})
        closure.update({k: _object_of(v) for k, v in pa.env.items() if isinstance(k, str) and isinstance(v, tuple)})
        closure.update(pa.closures.get(fi.qualname, pa.env))
        closure = {k: v for k, v in closure.items() if isinstance(k, str)}
    fa = FuncAnalysis(ctx.repo, fi, closure=closure, versioned=True)
    cache[fi.qualname] = fa
    return fa


def _is_logging(t):
    s = T.show(t)
    if s in ('print', 'click.echo', 'warnings.warn'):
        return True
    return s.startswith(('cooler._logging', 'warnings.warn', 'print(', 'logger.')) or \
        '.logger.' in s.split('(')[0] or s.split('(')[0].endswith(('logger.info', 'logger.debug', 'logger.warning'))


def effects(fa, rename=None, keep_calls=True, drop_guards=(), callsites=None):
    """-> list of (payload, guards frozenset, event).  With ``callsites`` (a set of qualified names) only
    the calls of those functions / classes are listed - every call, statement or not: the plumbing
    view of a function that merely hands options to the code a property is anchored in."""
    out = []
    ren = rename or {}

    def r(t):
        return T.subst(t, ren) if ren and isinstance(t, tuple) else t
    for e in fa.events:
        if e.d.get('in_lambda'):
            continue
        k = e.kind
        if callsites is not None:
            if not (k == 'call' and e.f[0] == 'g' and e.f[1] in callsites):
                continue
            # the element of a loop and the bound variable of a comprehension are "an element" here: a call made per
            # item is the same plumbing whether the items are visited by a loop or by a comprehension
            p = ('call', T.transform(r(e.term), lambda x: ('v', '$item') if x[0] in ('elem', 'bv', 'idx') else None))
        elif k == 'raise':
            x = e.exc
            cls = x[1] if x[0] == 'call' else x
            p = ('raise', T.show(cls).split('.')[-1])
        elif k in ('return', 'yield', 'yield_from'):
            if k == 'return' and e.value == T.NONE:
                continue        # `return` / `return None` is what falling off the end does; what it cuts off shows in the guards
            p = (k, r(e.value))
        elif k == 'store_sub':
            p = (k, T.unmut(r(e.base)), r(e.key), r(e.value))
        elif k == 'store_attr':
            p = (k, T.unmut(r(e.base)), e.attr, r(e.value))
        elif k == 'aug_sub':
            p = (k, T.unmut(r(e.base)), r(e.key), e.op, r(e.value))
        elif k == 'aug_attr':
            p = (k, r(e.base), e.attr, e.op, r(e.value))
        elif k == 'del':
            p = (k, r(e.base), r(e.key))
        elif k == 'continue':
            # skipping the rest of an iteration has no effect of its own: what it cuts off shows in the path
            # conditions of the effects after it (`if not x: continue; A` is `if x: A`)
            continue
        elif k == 'break':
            p = (k,)
        elif k == 'call' and e.stmt and keep_calls and not e.d.get('in_comp'):
            if _is_logging(e.f):
                continue
            t = r(e.term)
            if t[0] == 'call' and t[1][0] == 'attr' and t[1][1][0] == 'mut':
                t = ('call', ('attr', T.unmut(t[1][1]), t[1][2]), t[2], t[3])
            p = ('call', t)
        elif k in ('store_global', 'store_nonlocal'):
            p = (k, e.name, r(e.value))
        else:
            continue
        # a guard is one term: the condition, or its normalised negation - so that
        # `if not c: A else: B` and `if c: B else: A` give the same guard sets
        # Guards whose other arm raises are kept apart (flag 'r'): the first, syntactic comparison
        # ignores them (an effect is compared under the conditions that let the function go on); the
        # case-split comparison of what is left uses the complete path condition.
        gl = []
        for (c, pol), raw in zip(e.guards, e.graw):
            if any((d(c) if callable(d) else T.contains(c, d)) for d in drop_guards):
                continue
            g = r(c) if pol else T.not_(r(c))
            # 'r': what an earlier refusal leaves behind on the path; 'ri': the test of a conditional one of whose arms refuses
            flag = 'r' if raw == 'raise' else ('ri' if raw == 'if:raise' else True)
            # `if a and b:` and `if a: if b:` give the same guards
            gl.extend((x, flag) for x in (g[1] if g[0] == 'and' else [g]))
        gs = frozenset(gl)
        out.append((p, gs, e))
    return out


_ABBREV = {}


def _abbrev_table(ref):
    """Names of the reference model for its intermediate values (display only)."""
    tab = {}
    for e in ref.events:
        if e.kind in ('assign', 'aug') and isinstance(e.d.get('value' if e.kind == 'assign' else 'new'), tuple):
            v = e.d['value' if e.kind == 'assign' else 'new']
            if v[0] in ('c', 'v', 'g') or len(T.show(v)) < 30:
                continue
            tab.setdefault(v, T.V('«' + e.name + '»'))
    return tab


def _sh(x):
    if not isinstance(x, tuple):
        return str(x)
    if _ABBREV:
        # abbreviate proper sub-terms only, so the top-level shape stays visible
        if T.is_term(x):
            x = (x[0],) + tuple(T.subst(y, _ABBREV) if isinstance(y, tuple) else y for y in x[1:])
        else:
            x = tuple(T.subst(y, _ABBREV) if isinstance(y, tuple) else y for y in x)
    return T.show(x)


_LOOP_RE = re.compile(r'^(L[0-9a-f]{5})~[0-9a-f]{3}((?:#\d+)?)$')


def _strip_loop_hash(x):
    """Loop ids carry a hash of the conditions the loop runs under (to tell equal loops in the two
    arms of a conditional apart); for the comparison the conditions are in the guards already."""
    if isinstance(x, str):
        m = _LOOP_RE.match(x)
        return m.group(1) + m.group(2) if m else x
    if isinstance(x, tuple):
        return tuple(_strip_loop_hash(y) for y in x)
    if isinstance(x, frozenset):
        return frozenset(_strip_loop_hash(y) for y in x)
    return x


def _first_diff(a, b, depth=0):
    """Smallest pair of differing sub-terms of two terms (for the report)."""
    if a == b:
        return None
    if isinstance(a, tuple) and isinstance(b, tuple) and len(a) == len(b) and a[:1] == b[:1] and depth < 60:
        diffs = [(x, y) for x, y in zip(a, b) if x != y]
        if len(diffs) == 1:
            d = _first_diff(diffs[0][0], diffs[0][1], depth + 1)
            return d if d is not None else diffs[0]
    return (a, b)


def _go_on(gs):
    return frozenset(x for x in gs if x[1] not in ('r', 'ri'))


def _own(gs):
    """The conditions of a refusal itself: everything except what earlier refusals left behind on the path."""
    return frozenset((c, True) for c, f in gs if f != 'r')


def _show_effect(p, gs):
    parts = []
    for x in p[1:]:
        parts.append(_sh(x) if isinstance(x, tuple) else str(x))
    g = ' & '.join(sorted(_sh(c) for c, pol in gs if pol != 'r'))       # (for a refusal its own tests are shown)
    s = f'{p[0]} ' + ' , '.join(parts)
    return s + (f'   [when {g}]' if g else '')


def compare(ctx, rule, fa, ref_source, module=None, known=(), ignore=None, why='',
            drop_guards=(), only_kinds=None, positional_params=True, ref_fa=None, extra_rename=None,
            normalize=None, callsites=None):
    """Compare the effects of ``fa`` with those of the reference.  ``known``:
    list of (predicate(found_str, expected_str) -> bool, key, reason) for
    recorded genuine defects."""
    module = module or fa.module.name
    # re-evaluate the function with mutation versioning so that the comparison is
    # sensitive to the order of in-place updates relative to reads
    fa = _versioned(ctx, fa.fi)
    ref = ref_fa if ref_fa is not None else analyze_source(ctx.repo, module, ref_source)
    rename = dict(extra_rename or {})
    rename[('fn', fa.fi.qualname)] = ('fn', ref.fi.qualname)       # self reference (recursion)
    # nested function references (by name; duplicates of one name by best agreement)
    for an, aq, rn, rq in nested_pairs(ctx, fa, ref):
        rename[('fn', aq)] = ('fn', rq)
    if positional_params:
        for a, b in zip(fa.params, ref.params):
            if a != b:
                rename[T.V(a)] = T.V(b)
        if fa.vararg and ref.vararg and fa.vararg != ref.vararg:
            rename[T.V(fa.vararg)] = T.V(ref.vararg)
        if fa.kwarg and ref.kwarg and fa.kwarg != ref.kwarg:
            rename[T.V(fa.kwarg)] = T.V(ref.kwarg)
    _compare_defaults(ctx, rule, fa, ref, positional_params, why)
    got = effects(fa, rename, drop_guards=drop_guards, callsites=callsites)
    want = effects(ref, drop_guards=drop_guards, callsites=callsites)
    got = [(_strip_loop_hash(p), _strip_loop_hash(gs), e) for p, gs, e in got]
    want = [(_strip_loop_hash(p), _strip_loop_hash(gs), e) for p, gs, e in want]
    got, want = _inline_one_sided(ctx, got, want)
    got, want = _renumber_objects(got), _renumber_objects(want)
    if normalize is not None:
        def _n(lst):
            out = []
            for p, gs, e in lst:
                p2 = tuple(T.transform(x, normalize) if isinstance(x, tuple) else x for x in p)
                gs2 = frozenset((T.transform(c, normalize), pol) for c, pol in gs)
                out.append((p2, gs2, e))
            return out
        got, want = _n(got), _n(want)
    _ABBREV.clear()
    _ABBREV.update(_abbrev_table(ref))
    if only_kinds:
        got = [x for x in got if x[0][0] in only_kinds]
        want = [x for x in want if x[0][0] in only_kinds]
    if ignore:
        got = [x for x in got if not ignore(x[0], x[1])]
        want = [x for x in want if not ignore(x[0], x[1])]
    # multiset matching
    remaining = list(want)
    extra = []
    n_ok = 0
    for p, gs, e in got:
        hit = None
        for i, (q, hs, _) in enumerate(remaining):
            # a refusal is matched under its complete condition (which refusal fires is behaviour: two adjacent
            # `raise`s with swapped tests must not pair up); every other effect under the conditions that let the
            # function go on.  Refusals that differ only in the order of independent tests meet again in the
            # case-split comparison below.
            if p == q and ((_own(gs) == _own(hs)) if p[0] == 'raise' else (_go_on(gs) == _go_on(hs))):
                hit = i
                break
        if hit is None:
            extra.append((p, gs, e))
        else:
            remaining.pop(hit)
            n_ok += 1
            ctx.ok(rule, f'{p[0]}#{n_ok}', ctx.where(fa, e), found=_show_effect(p, gs), expected='same effect in the reference model',
                   reason=why)
    # leftovers: compare in case-split normal form (conditional expressions lifted into path
    # conditions, then equality of the guarded commands as boolean functions of the tests)
    if extra or remaining:
        n_before = len(extra)
        extra, remaining = _semantic_match(extra, remaining)
        if n_before != len(extra):
            ctx.ok(rule, 'case-split', ctx.where(fa), found=f'{n_before - len(extra)} effect(s) written with conditionals in another place',
                   expected='same guarded effects after lifting conditional expressions into path conditions', reason=why)
    # pair up the leftovers by similarity for diagnosis
    used = set()
    k = 0
    for p, gs, e in extra:
        fs = _show_effect(p, gs)
        best, bi = None, None
        for i, (q, hs, _) in enumerate(remaining):
            if i in used or q[0] != p[0]:
                continue
            ratio = difflib.SequenceMatcher(None, fs[:1500], _show_effect(q, hs)[:1500]).quick_ratio()
            if best is None or ratio > best:
                best, bi = ratio, i
        exp = None
        why2 = why
        if bi is not None:
            used.add(bi)
            exp = _show_effect(*remaining[bi][:2])
            d = _first_diff(p, remaining[bi][0])
            if d is None:
                d = _first_diff(tuple(sorted(_go_on(gs), key=repr)), tuple(sorted(_go_on(remaining[bi][1]), key=repr)))
            if d is not None:
                def _s(x):
                    return (_sh(x) if isinstance(x, tuple) and T.is_term(x) else repr(x))[:160]
                why2 = f'{why}  [first difference: found {_s(d[0])} / expected {_s(d[1])}]'
        k += 1
        _report(ctx, rule, fa, e, fs, exp, known, why2, f'changed-effect#{k}' if exp else f'extra-effect#{k}')
    for i, (q, hs, _) in enumerate(remaining):
        if i in used:
            continue
        k += 1
        _report(ctx, rule, fa, None, None, _show_effect(q, hs), known, why, f'missing-effect#{k}')
    _ABBREV.clear()
    return ref


# ---------------------------------------------------------------------------
# case-split normal form

_NEG_OPS = ('!=', '<=', 'notin', 'isnot')
_NEVER_NONE = ('cmp', 'band', 'bor', 'inv', 'add', 'mul', 'div', 'floordiv', 'ceildiv', 'list', 'tuple', 'dict', 'set', 'comp',
               'concat', 'cat', 'ss', 'and', 'or', 'not')


def _is_neg(g):
    return g[0] in ('not', 'or') or (g[0] == 'cmp' and g[1] in _NEG_OPS)


def _fold(g):
    """Constant value of a test, if it has one."""
    if g[0] == 'c' and isinstance(g[1], bool):
        return g[1]
    if g[0] == 'cmp' and g[1] in ('is', 'isnot'):
        a, b = g[2], g[3]
        if a[0] == 'c' and b[0] == 'c':
            return (a[1] is b[1]) == (g[1] == 'is')
        for x, y in ((a, b), (b, a)):
            if y == T.NONE and (x[0] in _NEVER_NONE or (x[0] == 'c' and x[1] is not None) or _is_alloc(x)):
                return g[1] == 'isnot'
    return None


def _implied(c, G):
    if c in G:
        return True
    n = T.not_(c)
    if n in G:
        return False
    v = _fold(c)
    if v is not None:
        return v
    if c[0] == 'and':
        vals = [_implied(x, G) for x in c[1]]
        if any(v is False for v in vals):
            return False
        if all(v is True for v in vals):
            return True
    if c[0] == 'or':
        vals = [_implied(x, G) for x in c[1]]
        if any(v is True for v in vals):
            return True
        if all(v is False for v in vals):
            return False
    return None


def _simp(g, G):
    """Simplify a test under the tests G known to hold: -> True / False / simplified term."""
    v = _implied(g, G) if g[0] not in ('and', 'or') else None
    if v is not None:
        return v
    if g[0] in ('and', 'or'):
        unit = g[0] == 'and'
        parts = []
        for x in g[1]:
            s = _simp(x, G)
            if s is (not unit):
                return not unit
            if s is unit:
                continue
            parts.append(s)
        if not parts:
            return unit
        return parts[0] if len(parts) == 1 else T.nary(g[0], tuple(parts))
    if g[0] == 'not':
        s = _simp(g[1], G)
        if s is True or s is False:
            return not s
        return T.not_(s)
    return g


def _atoms(g, out):
    if g[0] in ('and', 'or'):
        for x in g[1]:
            _atoms(x, out)
    elif g[0] == 'not':
        _atoms(g[1], out)
    elif _is_neg(g):
        _atoms(T.not_(g), out)
    else:
        out.add(g)


def _eval(g, val):
    if g[0] == 'and':
        return all(_eval(x, val) for x in g[1])
    if g[0] == 'or':
        return any(_eval(x, val) for x in g[1])
    if g[0] == 'not':
        return not _eval(g[1], val)
    if _is_neg(g):
        return not _eval(T.not_(g), val)
    return val[g]


def _has_bound(t):
    return any(isinstance(x, tuple) and x and x[0] in ('bv', 'lam') for x in T.walk(t))


def _simplify_under(p, G):
    """Resolve conditional sub-terms decided by the guards; fold constant guards. -> (p, G, feasible)"""
    for _ in range(6):
        flat = set()
        for g in G:
            for x in (g[1] if g[0] == 'and' else (g,)):
                flat.add(x)
        G2 = set()
        for g in flat:
            v = _fold(g)
            if v is True:
                continue
            if v is False:
                return p, frozenset(), False
            G2.add(g)
        for g in G2:
            if T.not_(g) in G2:
                return p, frozenset(), False

        def f(x, ctxG):
            if x[0] == 'ite':
                v = _implied(x[1], ctxG)
                if v is True:
                    return x[2]
                if v is False:
                    return x[3]
            return None
        p2 = tuple(T.transform(x, lambda y: f(y, G2)) if isinstance(x, tuple) and T.is_term(x) else x for x in p)
        G3 = set()
        for g in G2:
            others = G2 - {g}
            g2 = T.transform(g, lambda y: f(y, others))
            # a guard that the others decide, or parts of it
            g2 = _simp(g2, others)
            if g2 is True:
                continue
            if g2 is False:
                return p, frozenset(), False
            G3.add(g2)
        G3 = frozenset(G3)
        if p2 == p and G3 == frozenset(G):
            return p2, G3, True
        p, G = p2, G3
    return p, frozenset(G), True


def _pick_cond(p, G):
    best = None
    for t in [x for x in p if isinstance(x, tuple) and T.is_term(x)] + list(G):
        for x in T.walk(t):
            if isinstance(x, tuple) and x and x[0] == 'ite' and not _has_bound(x[1]):
                k = repr(x[1])
                if best is None or k < best[0]:
                    best = (k, x[1])
    return best[1] if best else None


def _lift_one(p, G, limit=128):
    work = [(p, frozenset(G))]
    out = []
    while work:
        p, G = work.pop()
        p, G, ok = _simplify_under(p, G)
        if not ok:
            continue
        c = _pick_cond(p, G)
        if c is None or len(out) + len(work) >= limit:
            out.append((p, G))
            continue
        work.append((p, G | {c}))
        work.append((p, G | {T.not_(c)}))
    return out


def _noop(p):
    """x.update({}) / x.extend([]) do nothing."""
    if p[0] == 'call' and isinstance(p[1], tuple) and p[1][0] == 'call' and p[1][1][0] == 'attr' \
            and p[1][1][2] in ('update', 'extend') and len(p[1][2]) == 1 and not p[1][3] and _is_alloc(p[1][2][0]) \
            and p[1][2][0][1][1].startswith('$new_'):
        return True
    return False


def _int_test(a):
    """(subject, op, constant) of an atom that compares one non-constant subject with an integer constant
    (the operator read with the subject on the left), else None."""
    if a[0] != 'cmp' or a[1] not in ('==', '!=', '<', '<='):
        return None
    x, y = a[2], a[3]
    if T.is_int_const(y) and x[0] != 'c' and not isinstance(y[1], bool):
        return x, a[1], y[1]
    if T.is_int_const(x) and y[0] != 'c' and not isinstance(x[1], bool):
        return y, {'==': '==', '!=': '!=', '<': '>', '<=': '>='}[a[1]], x[1]
    return None


def _lower_bound(subject):
    """Smallest value an integer subject can take, when its form tells (len(...) >= 0, len(s.split(sep)) >= 1)."""
    if subject[0] == 'call' and subject[1] == T.G('len') and len(subject[2]) == 1:
        x = subject[2][0]
        if x[0] == 'call' and x[1][0] == 'attr' and x[1][2] in ('split', 'rsplit') and len(x[2]) >= 1:
            return 1
        return 0
    return None


def _semantic_match(extra, remaining):
    """Remove from both lists the effects that agree once conditional expressions are lifted into
    path conditions: per payload, the number of active instances must be the same under every truth
    assignment of the tests involved."""
    import itertools

    def lifted(lst, side):
        out = []
        for i, (p, gs, e) in enumerate(lst):
            for p2, G in _lift_one(p, {c for c, _ in gs}):
                if not _noop(p2) and p2 != ('return', T.NONE):
                    out.append((p2, G, i))
        return out
    F = lifted(extra, 'f')
    W = lifted(remaining, 'w')
    groups = {}
    for p, G, i in F:
        groups.setdefault(p, ([], []))[0].append((G, i))
    for p, G, i in W:
        groups.setdefault(p, ([], []))[1].append((G, i))
    bad_f, bad_w = set(), set()
    for p, (fs, ws) in groups.items():
        atoms = set()
        for G, _ in fs + ws:
            for g in G:
                _atoms(g, atoms)
        atoms = sorted(atoms, key=repr)
        # tests of one subject against distinct constants (x == 'a', x == 'b', x is None) exclude each other
        excl = {}
        for a in atoms:
            if a[0] == 'cmp' and a[1] in ('==', 'is'):
                for subj, const in ((a[2], a[3]), (a[3], a[2])):
                    if const[0] == 'c' and subj[0] != 'c':
                        excl.setdefault(subj, []).append((a, const))
        excl = [v for v in excl.values() if len(v) > 1 and len({repr(c) for _, c in v}) == len(v)]
        # None is an instance of nothing one tests for:  x is None  excludes  isinstance(x, T)
        for a in atoms:
            if a[0] == 'cmp' and a[1] == 'is' and T.NONE in (a[2], a[3]):
                subj = a[3] if a[2] == T.NONE else a[2]
                for b in atoms:
                    if b[0] == 'call' and b[1] == T.G('isinstance') and len(b[2]) == 2 and b[2][0] == subj:
                        excl.append([(a, None), (b, None)])
        same = False
        # comparisons of one integer subject with integer constants are not independent tests: they are
        # evaluated together, for every value of the subject around the constants involved (a length is
        # >= 0, the number of pieces of str.split(sep) is >= 1)
        intgrp = {}
        for a in atoms:
            sc = _int_test(a)
            if sc is not None:
                intgrp.setdefault(sc[0], []).append((a, sc[1], sc[2]))
        intgrp = {k: v for k, v in intgrp.items() if len(v) > 1 or _lower_bound(k) is not None}
        free = [a for a in atoms if not any(a == x[0] for v in intgrp.values() for x in v)]
        subjects = sorted(intgrp, key=repr)
        domains = []
        for sj in subjects:
            cs = [c for _, _, c in intgrp[sj]]
            lo, hi = min(cs) - 1, max(cs) + 1
            lb = _lower_bound(sj)
            domains.append([v for v in range(lo, hi + 1) if lb is None or v >= lb] or [lb])
        n_cases = 2 ** len(free)
        for d in domains:
            n_cases *= len(d)
        if n_cases <= 2 ** 15:
            same = True
            for bits in itertools.product(*([(False, True)] * len(free) + domains)):
                val = dict(zip(free, bits[:len(free)]))
                for sj, v in zip(subjects, bits[len(free):]):
                    for a, op, c in intgrp[sj]:
                        val[a] = {'==': v == c, '!=': v != c, '<': v < c, '<=': v <= c, '>': v > c, '>=': v >= c}[op]
                if any(sum(1 for a, _ in grp if val[a]) > 1 for grp in excl):
                    continue

                def holds(G):
                    return all(_eval(g, val) for g in G)
                if sum(1 for G, _ in fs if holds(G)) != sum(1 for G, _ in ws if holds(G)):
                    same = False
                    break
        else:
            same = sorted(repr(sorted(map(repr, G))) for G, _ in fs) == sorted(repr(sorted(map(repr, G))) for G, _ in ws)
        if not same:
            if os.environ.get('VERIF_DEBUG_LIFT'):
                print('UNMATCHED GROUP', ' '.join(T.show(x)[:200] if isinstance(x, tuple) and T.is_term(x) else str(x) for x in p))
                for G, _ in fs:
                    print('     found  when', ' & '.join(sorted(T.show(g)[:120] for g in G)))
                for G, _ in ws:
                    print('     wanted when', ' & '.join(sorted(T.show(g)[:120] for g in G)))
            bad_f.update(i for _, i in fs)
            bad_w.update(i for _, i in ws)
    return [x for i, x in enumerate(extra) if i in bad_f], [x for i, x in enumerate(remaining) if i in bad_w]


# ---------------------------------------------------------------------------
# helper inlining: a package-local, effect-free function that only ONE side calls is replaced by
# its return value on that side, so that extracting an expression into a helper (or inlining an
# existing helper) is not reported as a change.

_FORBIDDEN_IN_INLINE = ('mut', 'nth')


def _pkg_calls(ctx, eff):
    out = set()
    for p, gs, _ in eff:
        ts = [x for x in p if isinstance(x, tuple)] + [c for c, _ in gs]
        for t in ts:
            for x in T.walk(t):
                if isinstance(x, tuple) and x and x[0] == 'call' and isinstance(x[1], tuple) and x[1][0] == 'g' \
                        and isinstance(x[1][1], str) and x[1][1].startswith(ctx.repo.pkg + '.') and x[1][1] in ctx.repo.funcs:
                    out.add(x[1][1])
    return out


def _summary(ctx, qual):
    """(params, defaults, term) of an effect-free helper, or None."""
    cache = ctx.__dict__.setdefault('_inline_cache', {})
    if qual in cache:
        return cache[qual]
    cache[qual] = None
    fi = ctx.repo.funcs[qual]
    if fi.cls is not None or fi.parent is not None or fi.node.decorator_list:
        return None
    a = fi.node.args
    if a.vararg or a.kwarg:
        return None
    try:
        fa = FuncAnalysis(ctx.repo, fi, versioned=False)
    except Exception:
        return None
    rets = []
    for e in fa.events:
        if e.d.get('in_lambda') or e.d.get('in_comp'):
            continue
        if e.kind == 'return':
            rets.append(e)
        elif e.kind in ('raise', 'yield', 'yield_from', 'store_sub', 'store_attr', 'aug_sub', 'aug_attr', 'del',
                        'store_global', 'store_nonlocal', 'break', 'continue', 'with') or (e.kind == 'call' and e.stmt):
            return None
        if e.loops:
            return None
    if not rets:
        return None
    acc = T.C(None) if rets[-1].cguards else None
    for e in reversed(rets):
        conds = [(c if pol else T.not_(c)) for (c, pol), k in zip(e.guards, e.gkinds) if k == 'if']
        if acc is None:
            acc = e.value
            continue
        if not conds:
            acc = e.value
        else:
            c = conds[0]
            for c2 in conds[1:]:
                c = T.nary('and', [c, c2])
            acc = T.ite(c, e.value, acc)
    for x in T.walk(acc):
        if isinstance(x, tuple) and x and (x[0] in _FORBIDDEN_IN_INLINE or (x[0] == 'g' and isinstance(x[1], str) and x[1].startswith('$'))
                                           or (x[0] == 'v' and isinstance(x[1], str) and x[1].startswith(('$', 'v', 'u')) and x[1] not in fa.params
                                               and len(x[1]) > 6)):
            return None
    params = [x.arg for x in list(a.posonlyargs) + list(a.args)]
    kwonly = [x.arg for x in a.kwonlyargs]
    _, defs = _defaults(fi.node)
    dterms = {}
    for k, d in defs.items():
        try:
            dterms[k] = T.C(ast.literal_eval(d))
        except (ValueError, SyntaxError, TypeError):
            dterms[k] = None
    cache[qual] = (params, kwonly, dterms, acc)
    return cache[qual]


def _inline_term(ctx, t, quals):
    def f(x):
        if x[0] != 'call' or not isinstance(x[1], tuple) or x[1][0] != 'g' or x[1][1] not in quals:
            return None
        sm = _summary(ctx, x[1][1])
        if sm is None:
            return None
        params, kwonly, dterms, body = sm
        args, kws = x[2], x[3]
        if any(a[0] == 'star' for a in args) or any(k[0] != 'kw' for k in kws) or len(args) > len(params):
            return None
        bound = dict(zip(params, args))
        for k in kws:
            if k[1] not in params and k[1] not in kwonly or k[1] in bound:
                return None
            bound[k[1]] = k[2]
        for p in params + kwonly:
            if p not in bound:
                if dterms.get(p) is None:
                    return None
                bound[p] = dterms[p]
        return T.subst(body, {T.V(k): v for k, v in bound.items()})
    return T.transform(t, f)


def _inline_one_sided(ctx, got, want):
    for _ in range(3):
        a, b = _pkg_calls(ctx, got), _pkg_calls(ctx, want)
        only_a = {q for q in a - b if _summary(ctx, q) is not None}
        only_b = {q for q in b - a if _summary(ctx, q) is not None}
        if not only_a and not only_b:
            break

        def ap(lst, quals):
            if not quals:
                return lst
            out = []
            for p, gs, e in lst:
                p2 = tuple(_inline_term(ctx, x, quals) if isinstance(x, tuple) else x for x in p)
                gs2 = frozenset((_inline_term(ctx, c, quals), pol) for c, pol in gs)
                out.append((p2, gs2, e))
            return out
        got, want = ap(got, only_a), ap(want, only_b)
    return got, want


def _is_alloc(x):
    return isinstance(x, tuple) and len(x) == 4 and x[0] == 'call' and isinstance(x[1], tuple) and x[1][0] == 'g' \
        and isinstance(x[1][1], str) and x[1][1].startswith(('$new_', '$obj'))


def _renumber_objects(eff):
    """Allocation sites of mutable literals ($new_list(k), $obj(lit, k)) are numbered in evaluation
    order, which a reordering of independent statements or a swap of if/else arms changes.  Renumber
    them in order of first appearance over the effects sorted by their text with the numbers masked."""
    def mask(x):
        if _is_alloc(x):
            return ('call', x[1], tuple(a for a in x[2][:-1]) + (T.C('?'),), ())
        return None

    def key(item):
        p, gs, _ = item
        pm = tuple(T.transform(x, mask) if isinstance(x, tuple) and x and isinstance(x[0], str) and T.is_term(x) else x for x in p)
        gm = sorted(repr(T.transform(c, mask)) for c, _ in gs)
        return (repr(pm), gm)
    order = sorted(eff, key=key)
    table = {}
    counters = {}
    for p, gs, _ in order:
        ts = [x for x in p if isinstance(x, tuple)] + sorted((c for c, _ in gs), key=repr)
        for t in ts:
            if not T.is_term(t):
                continue
            for x in T.walk(t):
                if _is_alloc(x) and x not in table:
                    kind = (x[1], x[2][:-1])
                    counters[kind] = counters.get(kind, 0) + 1
                    table[x] = ('call', x[1], tuple(x[2][:-1]) + (T.C(counters[kind]),), ())
    if all(k == v for k, v in table.items()):
        return eff
    # two-step substitution to avoid clashes between old and new numbers
    tmp = {k: ('call', k[1], tuple(k[2][:-1]) + (T.C(('tmp', i)),), ()) for i, k in enumerate(table)}
    fin = {tmp[k]: v for k, v in table.items()}
    out = []
    for p, gs, e in eff:
        p2 = tuple(T.subst(T.subst(x, tmp), fin) if isinstance(x, tuple) and T.is_term(x) else x for x in p)
        gs2 = frozenset((T.subst(T.subst(c, tmp), fin), pol) for c, pol in gs)
        out.append((p2, gs2, e))
    return out


def _defaults(node):
    """parameter name -> default expression (ast) ; plus the positional order."""
    a = node.args
    pos = list(a.posonlyargs) + list(a.args)
    out = {}
    for arg, d in zip(pos[len(pos) - len(a.defaults):], a.defaults):
        out[arg.arg] = d
    for arg, d in zip(a.kwonlyargs, a.kw_defaults):
        if d is not None:
            out[arg.arg] = d
    return [x.arg for x in pos], out


def _default_value(d):
    try:
        return ('lit', repr(ast.literal_eval(d)))
    except (ValueError, SyntaxError, TypeError):
        return ('expr', ast.unparse(d).replace('numpy.', 'np.'))


def _compare_defaults(ctx, rule, fa, ref, positional, why):
    """A default value is behaviour for every caller that omits the argument: where the reference
    declares a default, the repository function must declare the same one."""
    apos, adef = _defaults(fa.fi.node)
    rpos, rdef = _defaults(ref.fi.node)
    names = {}
    if positional:
        for a, b in zip(apos, rpos):
            names[b] = a
    for rname, d in rdef.items():
        aname = names.get(rname, rname)
        inst = f'default:{aname}'
        where = f'{os.path.relpath(fa.fi.file, ctx.repo.root)}:{fa.fi.node.lineno} {fa.fi.qualname}'
        if aname not in adef:
            all_params = set(apos) | {x.arg for x in fa.fi.node.args.kwonlyargs}
            if aname not in all_params:
                continue            # the reference names a parameter the function reads from **kwargs
            ctx.bad(rule, inst, where, found=f'{aname} has no default', expected=f'{aname}={_default_value(d)[1]}', reason=why,
                    key=f'{rule}|{fa.fi.qualname}|default|{aname}|<none>')
            continue
        got, want = _default_value(adef[aname]), _default_value(d)
        ctx.check(got == want, rule, inst, where, found=f'{aname}={got[1]}', expected=f'{aname}={want[1]}',
                  reason='the default is what every caller that omits the argument gets; ' + why,
                  key=f'{rule}|{fa.fi.qualname}|default|{aname}|{got[1]}')


def _report(ctx, rule, fa, e, found, expected, known, why, inst):
    for pred, key, reason in known:
        try:
            hit = pred(found or '', expected or '')
        except Exception:       # pragma: no cover
            hit = False
        if hit:
            ctx.bad(rule, inst, ctx.where(fa, e), found=found, expected=expected, reason=reason, key=key)
            return
    what = found if found is not None else 'MISSING: ' + (expected or '')
    ctx.bad(rule, inst, ctx.where(fa, e), found=found if found is not None else '(effect absent)', expected=expected or '(no such effect in the reference model)',
            reason=why, key=f'{rule}|{fa.fi.qualname}|{what[:300]}')
