"""cverif - repository-specific static analysis for open2c/cooler.

Pure standard-library (``ast``) machinery.  Nothing from /repo is imported or
executed: every deciding step parses the current working tree.

Modules
-------
terms     hash-consable term language, normaliser, pretty-printer, matcher
model     program model: modules, qualified names, import/alias resolution
symeval   forward symbolic dataflow evaluation of one function (E2)
facts     small structural fact extractors shared by the property rules
report    obligations, results, evidence files, known findings, replay
props.*   one module per property: a list of obligations over the engines
"""

__all__ = ["terms", "model", "symeval", "facts", "report"]
