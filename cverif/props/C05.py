"""C05  Each valid input record is counted once, in the pixel that contains it.

Decided (DESIGN.md section 4 / C05) by effect-level comparison with reference
models derived from the property statement, plus sibling-agreement rules:
 - _sanitize_records: decode, unknown-chromosome drop (parallel arrays),
   one-based shift of both anchors *before* validation, bounds refusals and
   their strictness, strict lexicographic lower-triangle predicate, reflect /
   drop / raise handling applied to every parallel array, bin assignment by
   floor division (fixed) or last-start-<= within the chromosome (variable)
 - _sanitize_pixels: shift of both id columns, strict predicate, swap, drop
 - aggregate_records: grouping keys and record counting by size
 - GenomeSegmentation tables
 - bin assignment of the indexed loaders (tabix / pairix / HDF5) agrees with
   the two accepted forms; one-based shift; unguarded second anchor (F18)
 - text loaders hand each column to the field it was declared for (C16 #1)
"""
from __future__ import annotations

from .. import terms as T
from ..facts import (C, G, V, arg, bind_call, calls, events, receiver, returns, spec, spec_env, yields)
from ..refcompare import compare
from ..symeval import mk_elem
from . import common

META = {
    'explanation': (
        'Effect-level comparison (symbolic dataflow, normalised terms) of _sanitize_records, '
        '_sanitize_pixels, aggregate_records and GenomeSegmentation.__init__ with reference models '
        'derived from the property (what is shifted, refused, mirrored, dropped and which bin is assigned); '
        'sibling agreement of the bin-assignment expressions of the tabix/pairix/HDF5 loaders with the two '
        'accepted forms; read_csv column/field agreement of the text loaders. Behavioural equality of the '
        'resulting coolers is not decided (pandas categorical decoding, group-by semantics).'),
    'not_decided': ['pandas Categorical decoding', 'pandas group-by semantics',
                    'record-order independence as a runtime fact (follows structurally for the sum aggregate only)'],
}

ING = 'cooler.create._ingest'

REF_SANITIZE_RECORDS = '''
def ref(chunk, gs, decode_chroms, is_one_based, tril_action, chrom_field, anchor_field,
        sided_fields, suffixes, sort, validate):
    # chromosome ids of both sides
    if decode_chroms:
        c1 = np.array(pd.Categorical(chunk["chrom1"], gs.contigs, ordered=True).codes)
        c2 = np.array(pd.Categorical(chunk["chrom2"], gs.contigs, ordered=True).codes)
    else:
        c1 = chunk["chrom1"].values
        c2 = chunk["chrom2"].values
        if validate:
            for col, dt in [("chrom1", c1.dtype), ("chrom2", c2.dtype)]:
                if not is_integer_dtype(dt):
                    raise BadInputError("non-integer chromosome column")
    # records on unlisted chromosomes are dropped - from every parallel array
    unknown = (c1 < 0) | (c2 < 0)
    if np.any(unknown):
        keep = ~unknown
        c1 = c1[keep]
        c2 = c2[keep]
        chunk = chunk[keep].copy()
    if not len(chunk):
        chunk["bin1_id"] = []
        chunk["bin2_id"] = []
        return chunk
    # anchors, shifted by exactly one when one-based, BEFORE they are validated
    a1 = chunk[anchor_field + suffixes[0]].to_numpy(copy=True)
    a2 = chunk[anchor_field + suffixes[1]].to_numpy(copy=True)
    if is_one_based:
        a1 -= 1
        a2 -= 1
    if validate:
        for dt in [a1.dtype, a2.dtype]:
            if not is_integer_dtype(dt):
                raise BadInputError("non-integer anchor")
        if np.any((a1 < 0) | (a2 < 0)):
            raise BadInputError("negative position")
        # a zero-based point position must be < chromosome length
        if np.any((a1 >= gs.chromsizes.values[c1]) | (a2 >= gs.chromsizes.values[c2])):
            raise BadInputError("position beyond chromosome")
    # lower-triangle records: strict lexicographic order on (chromosome, position)
    if tril_action is not None:
        lower = (c1 > c2) | ((c1 == c2) & (a1 > a2))
        if np.any(lower):
            if tril_action == "reflect":
                c1[lower], c2[lower] = c2[lower], c1[lower]
                a1[lower], a2[lower] = a2[lower], a1[lower]
                for field in sided_fields:
                    chunk.loc[lower, field + suffixes[0]], chunk.loc[lower, field + suffixes[1]] = (
                        chunk.loc[lower, field + suffixes[1]], chunk.loc[lower, field + suffixes[0]])
            elif tril_action == "drop":
                upper = ~lower
                c1 = c1[upper]
                c2 = c2[upper]
                a1 = a1[upper]
                a2 = a2[upper]
                chunk = chunk[upper].copy()
            elif tril_action == "raise":
                raise BadInputError("lower triangle")
            else:
                raise ValueError("unknown action")
    # bin assignment
    off = gs.chrom_binoffset
    if gs.binsize is None:
        b1 = []
        b2 = []
        for k1, p1, k2, p2 in zip(c1, a1, c2, a2):
            lo = off[k1]
            hi = off[k1 + 1]
            b1.append(lo + np.searchsorted(gs.start_abspos[lo:hi], gs.chrom_abspos[k1] + p1, side="right") - 1)
            lo = off[k2]
            hi = off[k2 + 1]
            b2.append(lo + np.searchsorted(gs.start_abspos[lo:hi], gs.chrom_abspos[k2] + p2, side="right") - 1)
        chunk["bin1_id"] = b1
        chunk["bin2_id"] = b2
    else:
        chunk["bin1_id"] = off[c1] + a1 // gs.binsize
        chunk["bin2_id"] = off[c2] + a2 // gs.binsize
    if sort:
        chunk = chunk.sort_values(["bin1_id", "bin2_id"])
    return chunk
'''

REF_SANITIZE_PIXELS = '''
def ref(chunk, gs, is_one_based=False, tril_action="reflect", bin1_field="bin1_id", bin2_field="bin2_id",
        sided_fields=(), suffixes=("1", "2"), sort=True):
    if is_one_based:
        chunk[bin1_field] -= 1
        chunk[bin2_field] -= 1
    if tril_action is not None:
        lower = chunk[bin1_field] > chunk[bin2_field]
        if np.any(lower):
            if tril_action == "reflect":
                chunk.loc[lower, bin1_field], chunk.loc[lower, bin2_field] = (
                    chunk.loc[lower, bin2_field], chunk.loc[lower, bin1_field])
                for field in sided_fields:
                    chunk.loc[lower, field + suffixes[0]], chunk.loc[lower, field + suffixes[1]] = (
                        chunk.loc[lower, field + suffixes[1]], chunk.loc[lower, field + suffixes[0]])
            elif tril_action == "drop":
                chunk = chunk[~lower]
            elif tril_action == "raise":
                raise BadInputError("lower triangle")
            else:
                raise ValueError("unknown action")
    return chunk.sort_values([bin1_field, bin2_field]) if sort else chunk
'''

REF_GS_INIT = '''
def ref(self, chromsizes, bins):
    bins = check_bins(bins, chromsizes)
    self._bins_grouped = bins.groupby("chrom", observed=True, sort=False)
    self.chromsizes = chromsizes
    self.binsize = get_binsize(bins)
    self.contigs = list(chromsizes.keys())
    self.bins = bins
    self.idmap = pd.Series(index=chromsizes.keys(), data=range(len(chromsizes)))
    self.chrom_binoffset = np.r_[0, np.cumsum(self._bins_grouped.size().values)]
    self.chrom_abspos = np.r_[0, np.cumsum(chromsizes.values)]
    self.start_abspos = self.chrom_abspos[bins["chrom"].cat.codes] + bins["start"].values
'''

REF_AGG_INNER = '''
def ref(chunk):
    return (chunk.groupby(["bin1_id", "bin2_id"], sort=sort).aggregate(agg).rename(columns=rename).reset_index())
'''


def _f4(found, expected):
    return 'chromsizes.values[' in found and found != expected and \
        found.replace('] < ', '] <= ') == expected


KNOWN_F4 = [(
    _f4,
    'C05.records|_sanitize_records|upper-bound-guard-accepts-pos==length',
    'zero-based point positions must satisfy pos < chromosome length; the guard "anchor > chromsize" accepts '
    'pos == length, which is assigned to the first bin of the next chromosome (or bin id = nbins on the last one)')]


def run(ctx):
    fa = ctx.fa(f'{ING}._sanitize_records')
    compare(ctx, 'C05.records', fa, REF_SANITIZE_RECORDS, known=KNOWN_F4,
            why='reference model of record sanitising derived from the property (shift, refusals, mirror/drop, bin assignment)')
    reflect_before_assignment(ctx, fa)
    fp = ctx.fa(f'{ING}._sanitize_pixels')
    compare(ctx, 'C05.pixels', fp, REF_SANITIZE_PIXELS,
            why='reference model of pixel sanitising (one-based shift of both ids, strict lower-triangle predicate, swap / drop)')
    defaults(ctx)
    aggregate(ctx)
    fg = ctx.fa('cooler.util.GenomeSegmentation.__init__')
    compare(ctx, 'C05.segmentation', fg, REF_GS_INIT, module='cooler.util',
            why='offset tables: bins per chromosome / chromosome lengths accumulated from 0; absolute bin starts')
    common.get_binsize_all_bins(ctx)
    indexed_loaders(ctx)
    hdf5_loader(ctx)
    common.read_csv_names(ctx)
    builders(ctx)


def reflect_before_assignment(ctx, fa):
    """The in-place swaps must precede the reads that assign bins."""
    R = 'C05.records.order'
    swaps = [e for e in events(fa, 'store_sub') if any(c[0] == 'cmp' and c[1] == '==' and C('reflect') in (c[2], c[3])
                                                        for c, p in e.cguards if p)]
    assigns = [e for e in events(fa, 'store_sub') if e.key in (C('bin1_id'), C('bin2_id'))
               and not any(p and c[0] == 'cmp' and c[1] == '==' and T.show(c).startswith('len(') and c[3] == C(0) for c, p in e.guards)]
    if not swaps or not assigns:
        ctx.unrec(R, 'sites', ctx.where(fa), found=(len(swaps), len(assigns)), reason='swap / assignment stores not found')
        return
    ok = max(e.idx for e in swaps) < min(e.idx for e in assigns)
    ctx.check(ok, R, 'swap-then-assign', ctx.where(fa, swaps[-1]), found='swaps at %s, assignments at %s' % (
        sorted({e.line for e in swaps}), sorted({e.line for e in assigns})), expected='all mirror swaps precede bin assignment',
        reason='the swaps mutate the id/anchor arrays in place; bins must be assigned from the mirrored values')


def defaults(ctx):
    R = 'C05.defaults'
    from ..facts import param_default
    for q, name, want in ((f'{ING}._sanitize_pixels', 'is_one_based', False),
                          (f'{ING}._sanitize_pixels', 'tril_action', 'reflect'),
                          (f'{ING}._sanitize_pixels', 'bin1_field', 'bin1_id'),
                          (f'{ING}._sanitize_pixels', 'bin2_field', 'bin2_id'),
                          (f'{ING}._sanitize_pixels', 'suffixes', ('1', '2'))):
        got = param_default(ctx.repo, q, name)
        ctx.check(got == want, R, f'{q.split(".")[-1]}.{name}', found=got, expected=want)
    # presets
    m = ctx.repo.module(ING)
    import ast
    try:
        presets = ast.literal_eval(m.assigns['SANITIZE_PRESETS'])
    except (KeyError, ValueError):
        ctx.unrec(R, 'presets', reason='SANITIZE_PRESETS is not a literal')
        return
    want = {
        'bg2': dict(decode_chroms=True, is_one_based=False, tril_action='reflect', anchor_field='start',
                    sided_fields=('chrom', 'start', 'end'), suffixes=('1', '2'), validate=True, sort=True),
        'pairs': dict(decode_chroms=True, is_one_based=False, tril_action='reflect', anchor_field='pos',
                      sided_fields=('chrom', 'pos'), suffixes=('1', '2'), validate=True),
    }
    for schema, kv in want.items():
        for k, v in kv.items():
            ctx.check(presets.get(schema, {}).get(k) == v, R, f'preset[{schema}].{k}', found=presets.get(schema, {}).get(k),
                      expected=v, reason='format preset: which column is the anchor, which columns are mirrored, validation on')


def aggregate(ctx):
    R = 'C05.aggregate'
    fa = ctx.fa(f'{ING}.aggregate_records')
    fin = ctx.fa(f'{ING}.aggregate_records.<locals>._aggregate_records')
    r = returns(fin)
    v = r[-1].value if r else T.NONE
    ch = common._groupby_chain_rename(v)
    if ch is None:
        ctx.bad(R, 'chain', ctx.where(fin), found=v, expected='chunk.groupby([bin1_id, bin2_id], sort=sort).aggregate(agg).rename(columns=rename).reset_index()',
                key=f'{R}|chain')
        return
    X, keys, sort, agg, ren = ch
    ctx.eq(R, 'keys', keys, T.lst([C('bin1_id'), C('bin2_id')]), ctx.where(fin), 'records are grouped per pixel = (bin1, bin2)')
    ctx.eq(R, 'source', X, V('chunk'), ctx.where(fin))
    # counting: agg[grouper] = "size" (NaN-safe), renamed to count, whenever count is wanted
    st = {(T.show(e.base)[:12], T.show(e.key)): e for e in events(fa, 'store_sub')}
    sz = [e for e in events(fa, 'store_sub') if e.value == C('size')]
    rn = [e for e in events(fa, 'store_sub') if e.value == C('count')]
    ok = bool(sz) and sz[0].key in (C('bin1_id'), C('bin2_id')) and bool(rn) and rn[0].key == sz[0].key
    ctx.check(ok, R, 'count-by-size', ctx.where(fa, sz[0] if sz else None), found=[T.show(e.value) for e in events(fa, 'store_sub')],
              expected='agg[<grouper column>] = "size"; rename[<same column>] = "count"',
              reason='"size" counts every record of the group ("count" would skip NaN)')
    if sz:
        truths = []
        for t in sorted(sz[0].nguards, key=repr):
            truths.extend(t[1] if t[0] == 'and' else [t])
        g = [T.show(c) for c in truths]
        okg = V('count') in truths and any(c[0] == 'cmp' and c[1] == 'notin' and c[2] == C('count') for c in truths)
        ctx.check(okg, R, 'count-guard', ctx.where(fa, sz[0]), found=g, expected='count and "count" not in agg')


def _bin2_expected(ctx, pos2, cid2, self_gs='self.gs'):
    env = spec_env(ctx.repo, f'''
        gs = {self_gs}
        off = gs.chrom_binoffset
        lo = off[cid2]
        hi = off[cid2 + 1]
        var = lo + np.searchsorted(gs.start_abspos[lo:hi], gs.chrom_abspos[cid2] + pos2, side="right") - 1
        fix = off[cid2] + pos2 // gs.binsize
        out = var if gs.binsize is None else fix
    ''', {'self': V('self'), 'pos2': pos2, 'cid2': cid2}, ING)
    return env['out']


def indexed_loaders(ctx):
    R = 'C05.loaders'
    for cls in ('TabixAggregator', 'PairixAggregator'):
        fa = ctx.fa(f'{ING}.{cls}.aggregate')
        accs = [e for e in events(fa, 'aug_sub') if e.op == '+' and e.value == C(1)]
        if len(accs) != 1:
            ctx.unrec(R, f'{cls}.accumulate', ctx.where(fa), found=len(accs), reason='expected one "accumulator[bin2] += 1"')
            continue
        e = accs[0]
        # the line variable is the element of the innermost loop
        L = fa.loops[e.loops[-1]]
        line = mk_elem(L.iter, L.id, ())
        decr = T.call(G('int'), (T.attr(V('self'), 'is_one_based'),))
        if cls == 'TabixAggregator':
            pos2 = T.sub_(T.call(G('int'), (T.sub(line, T.attr(V('self'), 'P2')),)), decr)
            cid2 = T.sub(T.attr(T.attr(V('self'), 'gs'), 'idmap'), T.sub(line, T.attr(V('self'), 'C2')))
        else:
            # pairix: the column of the second anchor depends on whether the block is stored flipped
            key = e.key
            cols = [x for x in T.walk(key) if x[0] == 'sub' and x[1] == line]
            col = cols[0][2] if cols else None
            pos2 = T.sub_(T.call(G('int'), (T.sub(line, col),)), decr) if col else None
            Lc = fa.loops[e.loops[-2]] if len(e.loops) >= 2 else None
            cid2 = mk_elem(Lc.iter, Lc.id, (1,)) if Lc else None
            okc = col is not None and col[0] == 'ite' and {col[2], col[3]} == {T.attr(V('self'), 'P1'), T.attr(V('self'), 'P2')}
            ctx.check(okc, R, f'{cls}.pos2-column', ctx.where(fa, e), found=col, expected='P1 when the block is stored flipped else P2')
            if okc:
                cond = col[1]
                flipped_is_p1 = col[2] == T.attr(V('self'), 'P1')
                want_c = spec(ctx.repo, 'chrom1 != chrom2 and f.exists2(chrom2, chrom1)',
                              {'chrom1': T.sub(V('grange'), C(0)), 'chrom2': mk_elem(Lc.iter, Lc.id, (0,)),
                               'f': T.call(G('pypairix.open'), (T.attr(V('self'), 'filepath'), C('r')))}, ING)
                ctx.check((cond == want_c) == flipped_is_p1 or (cond == T.not_(want_c)) == (not flipped_is_p1), R,
                          f'{cls}.flipped-test', ctx.where(fa, e), found=cond, expected=want_c)
        if pos2 is None or cid2 is None:
            ctx.unrec(R, f'{cls}.pos2', ctx.where(fa, e), reason='second anchor not recognised')
            continue
        want = _bin2_expected(ctx, pos2, cid2)
        ctx.eq(R, f'{cls}.bin2', e.key, want, ctx.where(fa, e),
               'second anchor (shifted by one when one-based, on both paths) -> bin of its own chromosome: floor division or last-start-<=')
        # F18: the second anchor reaches the sink unguarded
        bounded = [c for c, p in e.guards if any(x[0] == 'cmp' and x[1] in ('<', '<=') and T.contains(x, pos2) for x in T.walk(c))]
        ctx.check(bool(bounded), R, f'{cls}.pos2-bounds', ctx.where(fa, e), found='no bound check on pos2 before bin assignment',
                  expected='pos2 within [0, chromosome length) checked (reject) before it is assigned to a bin',
                  reason='a record a:5 - a:25 on a 20 bp chromosome a is counted in the first bin of chromosome b',
                  key=f'C05.loaders|{cls}.aggregate|pos2-unbounded')
        # row id is the fetched bin of the first anchor; count per (bin1, bin2)
        rows = [x for x in calls(fa, 'pd.DataFrame') if x.args and x.args[0][0] == 'dict']
        if rows:
            d = {kv[1][1]: kv[2] for kv in rows[0].args[0][1] if kv[1][0] == 'c'}
            Lb = fa.loops[e.loops[0]]
            ctx.eq(R, f'{cls}.bin1', d.get('bin1_id'), mk_elem(Lb.iter, Lb.id, (0,)), ctx.where(fa, rows[0]),
                   'row id = index of the bin whose range was queried')
            acc = receiver_of_sub(e)
            ctx.check(d.get('bin2_id') == T.call(G('list'), (T.call(T.attr(acc, 'keys')),)) and
                      d.get('count') == T.call(G('list'), (T.call(T.attr(acc, 'values')),)), R, f'{cls}.counts',
                      ctx.where(fa, rows[0]), found={k: T.show(v) for k, v in d.items()},
                      expected='bin2_id = accumulator keys, count = accumulator values')
            cl = [c for c in calls(fa, method='clear') if receiver(c) == acc]
            ctx.check(bool(cl) and cl[0].loops == e.loops[:1], R, f'{cls}.clear', ctx.where(fa, cl[0] if cl else None),
                      found=len(cl), expected='accumulator cleared once per row bin',
                      reason='counts of one row must not leak into the next')
        # the fetch asks for the bin's own range on chrom1
        if cls == 'TabixAggregator':
            ft = calls(fa, method='fetch', pred=lambda c: len(c.args) >= 3)
            Lb = fa.loops[e.loops[0]]
            b = mk_elem(Lb.iter, Lb.id, (1,))
            ok = bool(ft) and ft[0].args[:3] == (T.sub(V('grange'), C(0)), T.attr(b, 'start'), T.attr(b, 'end'))
            ctx.check(ok, R, f'{cls}.query', ctx.where(fa, ft[0] if ft else None), found=ft[0].term if ft else None,
                      expected='f.fetch(chrom1, bin1.start, bin1.end)', reason='records whose first anchor lies in the row bin')
        bins_it = [l for l in fa.loops.values() if l.iter[0] == 'call' and l.iter[1][0] == 'attr' and l.iter[1][2] == 'iterrows']
        want_b = spec(ctx.repo, 'self.gs.fetch((grange[0], grange[1], grange[2])).iterrows()', {'self': V('self'), 'grange': V('grange')}, ING)
        ctx.check(bool(bins_it) and bins_it[0].iter == want_b, R, f'{cls}.row-bins', ctx.where(fa), found=bins_it[0].iter if bins_it else None,
                  expected=want_b, reason='row bins = bins overlapping the work unit range')


def receiver_of_sub(e):
    return e.base


def hdf5_loader(ctx):
    R = 'C05.loaders'
    fa = ctx.fa(f'{ING}.HDF5Aggregator.aggregate')
    st = {e.key: e for e in events(fa, 'store_sub') if e.key in (C('bin1_id'), C('bin2_id'))}
    sts = [e for e in events(fa, 'store_sub') if e.key in (C('bin1_id'), C('bin2_id'))]
    if len(sts) != 4:
        ctx.unrec(R, 'HDF5Aggregator.sites', ctx.where(fa), found=len(sts), reason='expected 2 sides x {fixed, variable}')
        return
    gs = T.attr(V('self'), 'gs')
    for e in sts:
        side = '1' if e.key == C('bin1_id') else '2'
        fixed = any(c == T.cmp('is', T.attr(gs, 'binsize'), T.NONE) and not p for c, p in e.guards)
        v = e.value
        if fixed:
            pat = spec(ctx.repo, 'gs.chrom_binoffset[Q_c] + Q_p // gs.binsize', {'gs': gs}, ING)
            m = T.match(pat, v)
            ok = m is not None and f'chrom_id{side}' in T.show(m['Q_c']) and f'cut{side}' in T.show(m['Q_p'])
            ctx.check(ok, R, f'HDF5Aggregator.fixed.side{side}', ctx.where(fa, e), found=v,
                      expected=f'chrom_binoffset[chrom_id{side}] + floor(cut{side} / binsize)',
                      reason='same side\'s chromosome and position; floor division')
        else:
            pat = spec(ctx.repo, 'np.searchsorted(gs.start_abspos, Q_a, side="right") - 1', {'gs': gs}, ING)
            m = T.match(pat, v)
            a = m['Q_a'] if m else None
            pa = spec(ctx.repo, 'gs.chrom_abspos[Q_c] + Q_p', {'gs': gs}, ING)
            m2 = T.match(pa, a) if a is not None else None
            ok = m2 is not None and f'C{side}' in T.show(m2['Q_c']) and f'P{side}' in T.show(m2['Q_p'])
            ctx.check(ok, R, f'HDF5Aggregator.variable.side{side}', ctx.where(fa, e), found=v,
                      expected=f'searchsorted(start_abspos, chrom_abspos[C{side}] + P{side}, "right") - 1',
                      reason='same side\'s chromosome and position; last bin start <= absolute position')


def builders(ctx):
    """sanitize_records / sanitize_pixels build the worker with the table's own segmentation."""
    R = 'C05.builders'
    for fn, inner in (('sanitize_records', '_sanitize_records'), ('sanitize_pixels', '_sanitize_pixels')):
        fa = ctx.fa(f'{ING}.{fn}')
        r = returns(fa)
        v = r[-1].value if r else T.NONE
        ok = v[0] == 'call' and v[1] == G('functools.partial') and v[2] and v[2][0] == G(f'{ING}.{inner}')
        ctx.check(ok, R, f'{fn}.partial', ctx.where(fa), found=v, expected=f'partial({inner}, **options)')
        gsst = [e for e in events(fa, 'store_sub') if e.key == C('gs')]
        want = spec(ctx.repo, 'GenomeSegmentation(get_chromsizes(bins), bins)', {'bins': V('bins')}, ING)
        ctx.check(bool(gsst) and gsst[-1].value == want, R, f'{fn}.segmentation', ctx.where(fa), found=gsst[-1].value if gsst else None,
                  expected=want, reason='positions are binned against the bin table given')
    fa = ctx.fa(f'{ING}.sanitize_records')
    # preset options are overridden by explicit keyword arguments (update after copy)
    ups = calls(fa, method='update')
    ctx.check(any(('dstar', V('kwargs')) in e.kws for e in ups), R, 'sanitize_records.overrides', ctx.where(fa),
              found=[T.show(e.term) for e in ups], expected='options.update(**kwargs)',
              reason='is_one_based / tril_action given by the caller must override the preset')


_run_core = run


def run(ctx):
    _run_core(ctx)
    from . import refs_misc
    refs_misc.run_for(ctx, 'C05')
    from . import reflib
    reflib.run_for(ctx, 'C05')
