"""C03  A 2-D range query equals the same slice of the full matrix.

(a) exhaustive small-model proof of the window logic of both query engines over
    the finite abstract domain of order types (engine E4 + predicates that E2
    extracts from CSRReader.__call__ / get_spans),
(b) plumbing around the engines (task tuples, output conversion, selector),
(c) row spans,
(d) slice resolution (_process_slice) by case analysis on the extracted term.
"""
from __future__ import annotations

import ast
import itertools

from .. import terms as T
from ..facts import (C, G, V, arg, bind_call, calls, events, receiver, returns, spec, spec_env,
                     yields)
from ..model import AnalysisError
from ..smallmodel import Compose, FuncRef, Interp, Obj, Raised, Sym, Unsupported
from ..symeval import mk_elem

META = {
    'explanation': (
        'Window logic of FillLowerRangeQuery2D / DirectRangeQuery2D decided exhaustively over the finite '
        'abstract domain of order types of (i0, i1, j0, j1, r, c): the engines\' constructors are '
        'interpreted by the checker\'s own AST interpreter (comparison-only fragment, enforced), the '
        'reader\'s row range, column mask, reflect predicate, swap and the emptiness test of get_spans '
        'are extracted by symbolic dataflow and evaluated in the same domain; for every rank vector the '
        'multiset of emitted records is compared with the set-theoretic specification (symmetric '
        'completion / stored matrix restricted to the window). Plus structural rules for task tuples, '
        'parallel masking of all columns, offset arithmetic of row slices, output conversion, selector '
        'plumbing and slice resolution. Not decided: that arg_prune_partition covers every non-empty row '
        '(data-dependent), dask/sparse outputs, h5py reads.'),
    'not_decided': ['arg_prune_partition covers every non-empty row (data-dependent linspace/searchsorted)',
                    'dask / pydata-sparse outputs', 'h5py read semantics', 'scipy coo_matrix.toarray summing duplicates'],
    'technique': 'static analysis: abstract interpretation over the finite domain of order types (exhaustive), '
                 'with predicates extracted by ast-based symbolic dataflow; structural dataflow rules',
}

RQ = 'cooler.core._rangequery'


def run(ctx):
    model = extract_reader_model(ctx)
    if model is not None:
        window_logic(ctx, model)
    plumbing(ctx)
    row_spans(ctx)
    slice_resolution(ctx)
    engine_defaults(ctx)
    ctx.assume('arg_prune_partition returns indices whose spans cover every non-empty row of the range')
    ctx.assume('each stored pixel is processed independently (select/mask/swap/concatenate only)')


def engine_defaults(ctx):
    """The index column is extra: an engine / reader returns it only on request."""
    R = 'C03.b-plumbing'
    from ..facts import param_default
    for q, name, want in ((f'{RQ}.DirectRangeQuery2D.__init__', 'return_index', False),
                          (f'{RQ}.FillLowerRangeQuery2D.__init__', 'return_index', False),
                          (f'{RQ}.CSRReader.__call__', 'return_index', False),
                          (f'{RQ}.CSRReader.__call__', 'row_span', None),
                          (f'{RQ}.CSRReader.__call__', 'reflect', False),
                          (f'{RQ}.CSRReader.get_dict_meta', 'return_index', False)):
        try:
            got = param_default(ctx.repo, q, name)
        except Exception:
            got = '<no default>'
        ctx.check(got == want, R, f'default.{q.split(".")[-2]}.{name}', ctx.where(ctx.fa(q)), found=repr(got), expected=repr(want),
                  reason='the default is what every caller that omits the argument gets',
                  key=f'{R}|{q}|default|{name}|{got!r}')


# ---------------------------------------------------------------------------
# (a) reader model extraction

class PredEval:
    """Evaluates an extracted predicate term on concrete integers."""

    def __init__(self, atoms):
        self.atoms = atoms      # term -> name

    def ev(self, t, val):
        if t in self.atoms:
            return val[self.atoms[t]]
        k = t[0]
        if k == 'c':
            return t[1]
        if k == 'lin':
            return t[1] + sum(li[2] * self.ev(li[1], val) for li in t[2])
        if k == 'cmp':
            a, b = self.ev(t[2], val), self.ev(t[3], val)
            return {'<': a < b, '<=': a <= b, '==': a == b, '!=': a != b}[t[1]]
        if k in ('band', 'and'):
            return all(self.ev(x, val) for x in t[1])
        if k in ('bor', 'or'):
            return any(self.ev(x, val) for x in t[1])
        if k in ('inv', 'not'):
            return not self.ev(t[1], val)
        raise Unsupported(f'predicate outside the comparison-only fragment: {T.show(t)[:120]}')

    def check_discipline(self, t):
        """Only atoms, integer constants, +/- and comparisons."""
        for x in T.walk(t):
            if x in self.atoms:
                continue
            if x[0] in ('c', 'lin', 'li', 'cmp', 'band', 'bor', 'and', 'or', 'inv', 'not'):
                continue
            # sub-terms of atoms are fine
            if any(T.contains(a, x) for a in self.atoms):
                continue
            return T.show(x)
        return None


def extract_reader_model(ctx):
    R = 'C03.a-reader'
    fa = ctx.fa(f'{RQ}.CSRReader.__call__')
    w = ctx.where(fa)
    bb = V('bbox')
    B = [T.sub(bb, C(k)) for k in range(4)]
    rs = V('row_span')
    rowloops = [l for l in fa.loops.values() if l.kind == 'for' and l.iter[0] == 'call' and l.iter[1] == G('range')]
    if len(rowloops) != 1:
        ctx.unrec(R, 'row-loop', w, found=len(rowloops), reason='expected one row loop over range(s0, s1)')
        return None
    L = rowloops[0]
    isnone = T.cmp('is', rs, T.NONE)
    S0 = T.ite(isnone, B[0], T.sub(rs, C(0)))
    S1 = T.ite(isnone, B[1], T.sub(rs, C(1)))
    ctx.eq(R, 'row-range', L.iter, T.call(G('range'), (S0, S1)), w,
           'rows visited are exactly the row span (default: the whole row range of the box)')
    i = mk_elem(L.iter, L.id, ())
    apps = [e for e in calls(fa, method='append') if e.loops == (L.id,)]
    rows_l = cols_l = data_l = idx_l = None
    mask = bin2 = None
    for e in apps:
        a = arg(e, 0)
        if a[0] == 'call' and a[1] == G('np.full'):
            rows_l = (receiver(e), a, e)
    off = T.attr(V('self'), 'bin1_offsets')
    env = spec_env(ctx.repo, '''
        slc = slice(off[S0], off[S1])
        lo = off[i] - off[S0]
        hi = off[i + 1] - off[S0]
        bin2 = self.pixel_grp["bin2_id"][slc][lo:hi]
        data = self.pixel_grp[field][slc][lo:hi]
        ind = np.arange(slc.start, slc.stop)[lo:hi]
    ''', {'off': off, 'S0': S0, 'S1': S1, 'i': i, 'self': V('self'), 'field': V('field')}, RQ)
    bin2 = env['bin2']
    for e in apps:
        a = arg(e, 0)
        if a[0] == 'sub' and a[1] == bin2:
            cols_l = (receiver(e), a, e)
            mask = a[2]
    if rows_l is None or cols_l is None:
        # maybe the row slice arithmetic changed: report that precisely
        cand = [arg(e, 0) for e in apps]
        ctx.bad(R, 'row-slice', w, found=[T.show(c)[:300] for c in cand],
                expected='cols = pixels.bin2_id[off[s0]:off[s1]][off[i]-off[s0] : off[i+1]-off[s0]][mask]; rows = full(len(cols), i)',
                reason='row i of the block read at [off[s0], off[s1]) lies at [off[i]-off[s0], off[i+1]-off[s0])',
                key=f'{R}|row-slice')
        return None
    ctx.ok(R, 'row-slice', ctx.where(fa, cols_l[2]), found='bin2_id[off[s0]:off[s1]][off[i]-off[s0] : off[i+1]-off[s0]]',
           expected='same', reason='row i of the block read at [off[s0], off[s1])')
    # rows = np.full(len(cols), i)
    ra = rows_l[1]
    ok = len(ra[2]) >= 2 and ra[2][0] == T.call(G('len'), (cols_l[1],)) and ra[2][1] == i
    ctx.check(ok, R, 'row-ids', ctx.where(fa, rows_l[2]), found=ra, expected='np.full(len(cols), i)',
              reason='every kept entry of row i is published with row id i')
    # same mask on values and index (parallel-array rule)
    for e in apps:
        a = _drop_undef(arg(e, 0))
        if e is rows_l[2] or e is cols_l[2]:
            continue
        if a == T.sub(env['data'], mask):
            data_l = (receiver(e), a, e)
            ctx.ok(R, 'values-masked', ctx.where(fa, e), found='data[lo:hi][mask]', expected='same mask and row slice as the columns')
        elif a == T.sub(env['ind'], mask):
            idx_l = (receiver(e), a, e)
            ctx.ok(R, 'index-masked', ctx.where(fa, e), found='index[lo:hi][mask]', expected='same mask and row slice as the columns')
        else:
            ctx.bad(R, 'parallel-mask', ctx.where(fa, e), found=a, expected='<column>[lo:hi][mask] with the mask and slice of bin2',
                    reason='values / index must be filtered exactly like the column ids', key=f'{R}|parallel-mask|{T.show(receiver(e))}')
    if data_l is None:
        ctx.bad(R, 'values-masked', w, found='no masked value column appended', expected='data[lo:hi][mask]', key=f'{R}|values-missing')
    # the lists feed the output columns
    res = None
    from ..facts import unobj
    for e in events(fa, 'assign'):
        if unobj(e.value)[0] == 'dict' and rows_l[0][0] == 'sub' and rows_l[0][1] == e.value:
            res = e.value
    if res is None:
        ctx.unrec(R, 'result-dict', w, reason='result dict literal not found')
        return None
    keyof = {x[0]: x[0][2] for x in (rows_l, cols_l, data_l) if x is not None and x[0][0] == 'sub' and x[0][1] == res}
    inits = {kv[1]: kv[2] for kv in unobj(res)[1]}
    ctx.check(all(v[0] == 'call' and v[1] == G('$new_list') for v in inits.values()), R, 'result-init', w,
              found={T.show(k): T.show(v) for k, v in inits.items()}, expected='every output column starts as an empty list')
    ctx.check(keyof.get(rows_l[0]) == C('bin1_id') and keyof.get(cols_l[0]) == C('bin2_id')
              and (data_l is None or keyof.get(data_l[0]) == V('field')), R, 'result-columns', w,
              found={T.show(k): T.show(v) for v, k in keyof.items()},
              expected='rows -> bin1_id, cols -> bin2_id, values -> field')
    # mask predicate
    pe = PredEval({bin2: 'c', B[0]: 'b0', B[1]: 'b1', B[2]: 'b2', B[3]: 'b3'})
    bad = pe.check_discipline(mask)
    if bad:
        ctx.unrec(R, 'mask-discipline', w, found=bad, reason='column mask is not comparison-only')
        return None
    # reflect block
    ROWS, COLS = rows_l[0], cols_l[0]
    refl = [e for e in events(fa, 'store_sub') if e.base == res and e.under(V('reflect'))]
    dup = None
    swap = {}
    for e in refl:
        v = e.value
        if v[0] == 'cat' and len(v[1]) == 2 and v[1][1][0] == 'sub':
            first, second, d = v[1][0], v[1][1][1], v[1][1][2]
            if dup is None:
                dup = d
            if d != dup:
                ctx.bad(R, 'reflect-mask', ctx.where(fa, e), found=d, expected=dup,
                        reason='all columns must be duplicated under the same reflect mask', key=f'{R}|reflect-mask-differs')
            swap[e.key] = (first, second)
    if dup is None:
        ctx.bad(R, 'reflect', w, found='no reflect block', expected='under reflect: columns extended by the mirrored off-diagonal records',
                key=f'{R}|reflect-missing')
        return None
    pd_ = PredEval({ROWS: 'r', COLS: 'c', B[0]: 'b0', B[1]: 'b1', B[2]: 'b2', B[3]: 'b3'})
    bad = pd_.check_discipline(dup)
    if bad:
        ctx.unrec(R, 'reflect-discipline', w, found=bad, reason='reflect predicate is not comparison-only')
        return None
    s1 = swap.get(C('bin1_id'))
    s2 = swap.get(C('bin2_id'))
    if not s1 or not s2 or s1[0] != ROWS or s2[0] != COLS or s1[1] not in (ROWS, COLS) or s2[1] not in (ROWS, COLS):
        ctx.bad(R, 'reflect-columns', w, found={T.show(k): (T.show(a), T.show(b)) for k, (a, b) in swap.items()},
                expected='bin1_id = cat(rows, cols[dup]); bin2_id = cat(cols, rows[dup])', key=f'{R}|reflect-columns')
        return None
    # value/index columns duplicated from themselves
    for k, (first, second) in swap.items():
        if k in (C('bin1_id'), C('bin2_id')):
            continue
        ctx.check(first == second, R, f'reflect-values[{T.show(k)}]', w, found=(T.show(first), T.show(second)),
                  expected='cat(col, col[dup])', reason='a mirrored record carries the value / index of its source record')
    need = {C('bin1_id'), C('bin2_id'), V('field')}
    ctx.check(need <= set(swap), R, 'reflect-all-columns', w, found=sorted(T.show(k) for k in swap),
              expected='bin1_id, bin2_id, field (and __index when requested)')
    idxs = [e for e in refl if e.key == C('__index')]
    ctx.check(bool(idxs) and all(e.under(V('return_index')) for e in idxs), R, 'reflect-index', w,
              found=len(idxs), expected='__index duplicated when return_index')
    # all reflect stores only under `reflect` and non-empty result
    model = {
        'mask': lambda c, b: pe.ev(mask, {'c': c, 'b0': b[0], 'b1': b[1], 'b2': b[2], 'b3': b[3]}),
        'dup': lambda r, c, b: pd_.ev(dup, {'r': r, 'c': c, 'b0': b[0], 'b1': b[1], 'b2': b[2], 'b3': b[3]}),
        'mirror': ('r' if s1[1] == ROWS else 'c', 'r' if s2[1] == ROWS else 'c'),
        'mask_term': mask, 'dup_term': dup,
    }
    # signature of __call__ (for binding task tuples)
    a = fa.fi.node.args
    model['call_params'] = [x.arg for x in a.args][1:]
    model['call_defaults'] = {}
    nd = len(a.defaults)
    for x, d in zip(a.args[len(a.args) - nd:], a.defaults):
        try:
            model['call_defaults'][x.arg] = ast.literal_eval(d)
        except ValueError:
            pass
    # emptiness predicate of get_spans
    fs = ctx.fa(f'{RQ}.CSRReader.get_spans')
    # the condition under which the returned edge list is the empty array (whichever way the test is written)
    from ..facts import ite_arms
    empt = None
    rets = returns(fs)
    for r0 in rets:
        for x in T.walk(r0.value):
            for cond, val in ite_arms(x):
                if val[0] == 'call' and val[1] == G('np.array') and val[2] and val[2][0][0] == 'call' \
                        and val[2][0][1] == G('$new_list'):
                    empt = cond
    if empt is None or not rets:
        ctx.unrec(R, 'get_spans', ctx.where(fs), reason='emptiness test / return not found')
        return None
    pg = PredEval({B[0]: 'b0', B[1]: 'b1', B[2]: 'b2', B[3]: 'b3'})
    bad = pg.check_discipline(empt)
    if bad:
        ctx.unrec(R, 'get_spans-discipline', ctx.where(fs), found=bad, reason='emptiness test is not comparison-only')
        return None
    model['empty'] = lambda b: pg.ev(empt, {'b0': b[0], 'b1': b[1], 'b2': b[2], 'b3': b[3]})
    model['empty_term'] = empt
    return model


def _drop_undef(t):
    """ite(c, a, <undef>) -> a  (a name bound on one arm only and used under the same guard)."""
    def f(x):
        if x[0] == 'ite' and x[3][0] == 'unk' and x[3][1] == 'undef':
            return x[2]
        if x[0] == 'ite' and x[2][0] == 'unk' and x[2][1] == 'undef':
            return x[3]
        return None
    return T.transform(t, f)


# ---------------------------------------------------------------------------
# (a) exhaustive enumeration

def _module_funcs(ctx):
    m = ctx.repo.module(RQ)
    return {name: node for name, node in m.defs.items() if isinstance(node, ast.FunctionDef)}


def _engine_tasks(ctx, cls, window, return_index, model, funcs, shifts):
    """Interpret <cls>.__init__ on a concrete window; -> list of tasks or Raised."""
    fi = ctx.repo.func(f'{RQ}.{cls}.__init__')
    READER = Sym('reader')

    def ext_compose(interp, args, kwargs):
        return Compose(args)

    def ext_get_spans(interp, recv, args, kwargs):
        if recv != READER or len(args) != 2:
            raise Unsupported('get_spans called on something else than the reader')
        bbox = args[0]
        if not (isinstance(bbox, tuple) and len(bbox) == 4):
            raise Unsupported(f'get_spans bbox {bbox!r}')
        if model['empty'](bbox):
            return []
        return [('SPAN', bbox[0], bbox[1])]

    it = Interp(funcs, {'compose': ext_compose, 'method:get_spans': ext_get_spans})
    selfo = Obj()
    try:
        it.call_function(fi.node, [selfo, READER, Sym('field'), tuple(window), Sym('chunksize')],
                         {'return_index': return_index})
    except Raised as r:
        return r, it
    shifts.update(it.shifts)
    tasks = selfo.attrs.get('tasks')
    if not isinstance(tasks, list):
        raise Unsupported(f'{cls}.__init__ did not build a task list')
    return tasks, it


def _run_task(task, pixel, model, funcs, return_index):
    """Records emitted by one task for one stored pixel (r, c)."""
    if not (isinstance(task, tuple) and len(task) >= 1):
        raise Unsupported(f'task {task!r}')
    fetcher, rest = task[0], list(task[1:])
    params = model['call_params']
    bound = dict(model['call_defaults'])
    if len(rest) > len(params):
        raise Unsupported('task tuple longer than CSRReader.__call__ signature')
    for p, v in zip(params, rest):
        bound[p] = v
    bbox = bound.get('bbox')
    span = bound.get('row_span')
    reflect = bound.get('reflect')
    if not (isinstance(bbox, tuple) and len(bbox) == 4 and all(isinstance(x, int) for x in bbox)):
        raise Unsupported(f'bbox argument of the reader is {bbox!r}')
    if bound.get('field') != Sym('field'):
        raise Unsupported(f'field argument of the reader is {bound.get("field")!r}')
    if not isinstance(reflect, bool):
        raise Unsupported(f'reflect argument of the reader is {reflect!r}')
    if bound.get('return_index') is not return_index and bound.get('return_index') != return_index:
        return 'return_index-mismatch'
    if span is None:
        s0, s1 = bbox[0], bbox[1]
    elif isinstance(span, tuple) and span and span[0] == 'SPAN':
        s0, s1 = span[1], span[2]
    else:
        raise Unsupported(f'row_span argument of the reader is {span!r}')
    r, c = pixel
    out = []
    if s0 <= r < s1 and model['mask'](c, bbox):
        out.append((r, c))
        if reflect and model['dup'](r, c, bbox):
            m1, m2 = model['mirror']
            out.append((r if m1 == 'r' else c, r if m2 == 'r' else c))
    # fetcher: reader, or compose(f, ..., reader)
    chain = []
    if isinstance(fetcher, Compose):
        if fetcher.funcs[-1] != Sym('reader'):
            raise Unsupported(f'fetcher {fetcher!r} does not end in the reader')
        chain = list(fetcher.funcs[:-1])[::-1]
    elif fetcher != Sym('reader'):
        raise Unsupported(f'fetcher {fetcher!r}')
    for f in chain:
        if not isinstance(f, FuncRef):
            raise Unsupported(f'post-processing {f!r}')
        new = []
        for (x, y) in out:
            it = Interp(funcs)
            d = it.call_function(f.node, [{'bin1_id': x, 'bin2_id': y}], {})
            if not isinstance(d, dict):
                raise Unsupported(f'{f.name} did not return the dict')
            new.append((d['bin1_id'], d['bin2_id']))
        out = new
    return out


def window_logic(ctx, model):
    R = 'C03.a-window'
    funcs = _module_funcs(ctx)
    shifts = set()
    # constant shifts inside the extracted predicates
    for t in (model['mask_term'], model['dup_term'], model['empty_term']):
        for x in T.walk(t):
            if x[0] == 'lin' and x[1] != 0:
                shifts.add(abs(x[1]))
    K0 = max([s for s in shifts if isinstance(s, int)] or [0])
    K0 = max(K0 - 1, 0) if K0 == 1 and model['empty_term'] is not None and False else K0
    n = 6 if K0 <= 1 else min(6 + 2 * K0, 9)
    if ctx.tier == 'thorough':
        n = 7 if K0 <= 1 else min(6 + 3 * K0, 10)
    dom = range(n)
    total = 0
    nontrivial = set()
    first_bad = {}
    samples = []
    for cls, stored_upper in (('FillLowerRangeQuery2D', True), ('DirectRangeQuery2D', False)):
        nbad = 0
        unreachable_else = True
        for i0, i1, j0, j1 in itertools.product(dom, repeat=4):
            if i0 > i1 or j0 > j1:
                continue
            for ri in (False, True):
                try:
                    tasks, it = _engine_tasks(ctx, cls, (i0, i1, j0, j1), ri, model, funcs, shifts)
                except Unsupported as e:
                    ctx.unrec(R, f'{cls}.fragment', ctx.where(ctx.fa(f'{RQ}.{cls}.__init__')), found=str(e),
                              reason='constructor leaves the comparison-only fragment')
                    return
                if isinstance(tasks, Raised):
                    unreachable_else = False
                    nbad += 1
                    key = (cls, 'raise')
                    if key not in first_bad:
                        first_bad[key] = dict(window=(i0, i1, j0, j1), raised=tasks.what, line=tasks.line)
                    continue
                if ri:
                    # the task list does not depend on return_index except for the flag itself
                    pass
                for r in dom:
                    for c in dom:
                        if stored_upper and r > c:
                            continue
                        got = []
                        mism = False
                        try:
                            for tk in tasks:
                                o = _run_task(tk, (r, c), model, funcs, ri)
                                if o == 'return_index-mismatch':
                                    mism = True
                                    o = []
                                got.extend(o)
                        except Unsupported as e:
                            ctx.unrec(R, f'{cls}.task', ctx.where(ctx.fa(f'{RQ}.{cls}.__init__')), found=str(e),
                                      reason='task tuple does not fit the reader call')
                            return
                        want = []
                        if i0 <= r < i1 and j0 <= c < j1:
                            want.append((r, c))
                        if stored_upper and r != c and i0 <= c < i1 and j0 <= r < j1:
                            want.append((c, r))
                        total += 1
                        if want or got:
                            nontrivial.add((cls, i0, i1, j0, j1, r, c))
                        if sorted(got) != sorted(want) or mism:
                            nbad += 1
                            key = (cls, 'mismatch')
                            if key not in first_bad:
                                first_bad[key] = dict(
                                    window=(i0, i1, j0, j1), pixel=(r, c), return_index=ri, emitted=sorted(got),
                                    expected=sorted(want), branches=[(ln, tk) for ln, tk in it.trace],
                                    tasks=[repr(t) for t in tasks])
                        elif len(samples) < 6 and want and len(tasks) > 1:
                            samples.append(dict(engine=cls, window=(i0, i1, j0, j1), pixel=(r, c), emitted=sorted(got)))
        w = ctx.where(ctx.fa(f'{RQ}.{cls}.__init__'))
        fb = first_bad.get((cls, 'mismatch')) or first_bad.get((cls, 'raise'))
        ctx.check(nbad == 0, R, f'{cls}.all-order-types', w,
                  found=('all rank vectors agree' if nbad == 0 else
                         f'{nbad} rank vectors disagree; first: {fb}'),
                  expected=('symmetric completion of the stored upper triangle restricted to the window'
                            if stored_upper else 'the stored records inside the window'),
                  reason='for every window position relative to the diagonal, every stored pixel must be emitted '
                         'exactly as often as it occurs in the window of the full matrix')
        if cls == 'FillLowerRangeQuery2D':
            ctx.check(unreachable_else or nbad > 0, R, f'{cls}.case-split-exhaustive', w,
                      found='no window reaches a raise' if unreachable_else else 'raise reachable',
                      expected='the final else: raise is unreachable')
    ctx.extra['exhaustive'] = True
    ctx.extra['domain'] = f'rank vectors over 0..{n - 1} for (i0,i1,j0,j1,r,c), i0<=i1, j0<=j1 (r<=c for fill-lower), return_index in {{False,True}}'
    ctx.extra['rank_vectors_evaluated'] = total
    ctx.extra['rank_vectors_nontrivial'] = len(nontrivial)
    ctx.extra['constant_shifts'] = sorted(s for s in shifts if isinstance(s, int))
    ctx.extra['window_samples'] = samples


# ---------------------------------------------------------------------------
# (b) plumbing

def plumbing(ctx):
    R = 'C03.b-plumbing'
    # tasks are invoked as task[0](*task[1:])
    for meth in ('__iter__', 'get_chunk'):
        fa = ctx.fa(f'{RQ}.BaseRangeQuery2D.{meth}')
        vals = [e.value for e in yields(fa)] + [e.value for e in returns(fa)]
        ok = False
        for v in vals:
            if v[0] == 'call' and v[1][0] == 'sub' and v[1][2] == C(0) and len(v[2]) == 1 and v[2][0][0] == 'star':
                st = v[2][0][1]
                if st[0] == 'sub' and st[1] == v[1][1] and st[2] == T.slice_(C(1), T.NONE):
                    ok = True
        ctx.check(ok, R, f'task-invocation.{meth}', ctx.where(fa), found=[T.show(v) for v in vals],
                  expected='task[0](*task[1:])', reason='a task is (callable, *args)')
    fa = ctx.fa(f'{RQ}.BaseRangeQuery2D.__iter__')
    L = list(fa.loops.values())
    ctx.check(len(L) == 1 and L[0].iter == T.attr(V('self'), 'tasks') and not L[0].has_break and not L[0].has_continue,
              R, 'all-tasks-in-order', ctx.where(fa), found=T.show(L[0].iter) if L else None, expected='for task in self.tasks',
              reason='pixel output lists the records in task (= storage) order, none skipped')
    # get(): concat of all task outputs
    fg = ctx.fa(f'{RQ}.BaseRangeQuery2D.get')
    cc = calls(fg, f'{RQ}.concat')
    ok = bool(cc) and cc[0].args == (('star', T.call(T.attr(V('self'), '__iter__'))),)
    ctx.check(ok, R, 'get-concat', ctx.where(fg), found=[T.show(e.term) for e in cc], expected='concat(*self.__iter__())')
    fcat = ctx.fa(f'{RQ}.concat')
    rv = [r.value for r in returns(fcat) if r.value[0] == 'comp']
    okc = False
    for v in rv:
        if v[1] == 'dict':
            kvt = v[2]
            g = v[3][0]
            # {key: np.concatenate([dct[key] for dct in dcts]) for key in dcts[0]}
            want = spec(ctx.repo, '{key: np.concatenate([dct[key] for dct in dcts]) for key in dcts[0]}', {'dcts': V('dcts')}, RQ)
            okc = (v == want)
    ctx.check(okc, R, 'concat-columns', ctx.where(fcat), found=[T.show(v) for v in rv],
              expected='{key: np.concatenate([dct[key] for dct in dcts]) for key in dcts[0]}',
              reason='every column is concatenated over all task outputs in the same order')
    # output conversion
    for fn, shape_first in (('spmatrix_slice_from_dict', False), ('sparray_slice_from_dict', True)):
        f = ctx.fa(f'{RQ}.{fn}')
        env = {k: V(k) for k in ('dct', 'row_start', 'row_stop', 'col_start', 'col_stop', 'field')}
        coords = spec(ctx.repo, '(dct["bin1_id"] - row_start, dct["bin2_id"] - col_start)', env)
        shape = spec(ctx.repo, '(row_stop - row_start, col_stop - col_start)', env)
        data = spec(ctx.repo, 'dct[field]', env)
        r = returns(f)
        v = r[-1].value if r else T.NONE
        got_shape = T.get_kw(v, 'shape')
        a0 = T.call_arg(v, 0)
        if shape_first:
            got_coords, got_data = a0, T.call_arg(v, 1)
        else:
            got_data = a0[1][0] if a0 and a0[0] == 'tuple' and len(a0[1]) == 2 else None
            got_coords = a0[1][1] if a0 and a0[0] == 'tuple' and len(a0[1]) == 2 else None
        w = ctx.where(f, r[-1] if r else None)
        ctx.eq(R, f'{fn}.coords', got_coords, coords, w, 'row ids are shifted by the row start, column ids by the column start')
        ctx.eq(R, f'{fn}.shape', got_shape, shape, w, 'shape = (rows asked, columns asked)')
        ctx.eq(R, f'{fn}.data', got_data, data, w)
    f = ctx.fa(f'{RQ}.array_slice_from_dict')
    r = returns(f)
    want = spec(ctx.repo, 'spmatrix_slice_from_dict(dct, row_start, row_stop, col_start, col_stop, field).toarray()',
                {k: V(k) for k in ('dct', 'row_start', 'row_stop', 'col_start', 'col_stop', 'field')}, RQ)
    ctx.eq(R, 'array_slice_from_dict', r[-1].value if r else None, want, ctx.where(f),
           'dense output is the dense form of the sparse output (argument order preserved)')
    for meth, fn in (('to_sparse_matrix', 'spmatrix_slice_from_dict'), ('to_sparse_array', 'sparray_slice_from_dict'),
                     ('to_array', 'array_slice_from_dict')):
        f = ctx.fa(f'{RQ}.BaseRangeQuery2D.{meth}')
        r = returns(f)
        want = spec(ctx.repo, f'{fn}(self.get(), *self.bbox, self.field)', {'self': V('self')}, RQ)
        ctx.eq(R, f'{meth}', r[-1].value if r else None, want, ctx.where(f), 'window passed as (row_start, row_stop, col_start, col_stop)')
    f = ctx.fa(f'{RQ}.BaseRangeQuery2D.to_frame')
    r = returns(f)
    want = spec(ctx.repo, 'frame_slice_from_dict(self.get(), self.field)', {'self': V('self')}, RQ)
    ctx.eq(R, 'to_frame', r[-1].value if r else None, want, ctx.where(f))
    f = ctx.fa(f'{RQ}.frame_slice_from_dict')
    r = returns(f)
    want = spec(ctx.repo, 'pd.DataFrame(dct, columns=["bin1_id", "bin2_id", field], index=dct.get("__index"))',
                {'dct': V('dct'), 'field': V('field')}, RQ)
    ctx.eq(R, 'frame_slice_from_dict', r[-1].value if r else None, want, ctx.where(f),
           'pixel output: the three columns, labelled with the pixel-table index when requested')
    # engines keep their bbox / field
    for cls in ('DirectRangeQuery2D', 'FillLowerRangeQuery2D'):
        f = ctx.fa(f'{RQ}.{cls}.__init__')
        st = {e.attr: e.value for e in events(f, 'store_attr') if e.base == V('self')}
        for a in ('reader', 'field', 'bbox', 'return_index'):
            ctx.eq(R, f'{cls}.self.{a}', st.get(a), V(a), ctx.where(f), 'output conversion uses the window the caller asked for')
    # selector: row key against shape[0], col key against shape[1], slicer(field, i0, i1, j0, j1)
    f = ctx.fa('cooler.core._selectors.RangeSelector2D.__getitem__')
    r = returns(f)
    env = spec_env(ctx.repo, '''
        k = self._unpack_index(key)
        a = self._process_slice(k[0], self._shape[0])
        b = self._process_slice(k[1], self._shape[1])
        out = self._slice(self.field, a[0], a[1], b[0], b[1])
    ''', {'self': V('self'), 'key': V('key')}, 'cooler.core._selectors')
    ctx.eq(R, 'selector.__getitem__', r[-1].value if r else None, env['out'], ctx.where(f),
           'row key resolved against the row count, column key against the column count, passed as (i0, i1, j0, j1)')
    f = ctx.fa('cooler.core._selectors.RangeSelector2D.fetch')
    r = [x for x in returns(f)]
    env = spec_env(ctx.repo, '''
        e = self._fetch(*args, **kwargs)
        out = self._slice(self.field, e[0], e[1], e[2], e[3])
    ''', {'self': V('self'), 'args': V('args'), 'kwargs': V('kwargs')}, 'cooler.core._selectors')
    ctx.eq(R, 'selector.fetch', r[0].value if r else None, env['out'], ctx.where(f))
    f = ctx.fa('cooler.core._selectors._IndexingMixin._unpack_index')
    # (_unpack_index - a single key selects rows and all columns - is decided by its reference model,
    #  REF.core._selectors._IndexingMixin._unpack_index, which compares every exit under its conditions;
    #  a rule on "the" return value was tied to the function having a single exit)
    # Cooler.matrix._slice forwards its arguments to api.matrix in signature order
    fs = ctx.fa('cooler.api.Cooler.matrix.<locals>._slice')
    mc = calls(fs, 'cooler.api.matrix')
    if mc:
        b, _, _ = bind_call(ctx.repo, 'cooler.api.matrix', mc[0])
        for p in ('i0', 'i1', 'j0', 'j1', 'field'):
            ctx.eq(R, f'Cooler.matrix._slice.{p}', b.get(p), V(p), ctx.where(fs, mc[0]), 'window and field forwarded unchanged')
        for p in ('balance', 'sparse', 'as_pixels', 'join', 'ignore_index', 'chunksize'):
            got = b.get(p)
            ctx.check(got is not None and T.show(got) == p, R, f'Cooler.matrix._slice.{p}', ctx.where(fs, mc[0]),
                      found=got, expected=p, reason='option forwarded to the parameter of the same name')
    # api.matrix: every engine gets (reader, field, (i0, i1, j0, j1), chunksize); reader = CSRReader(pixels, bin1_offset[:])
    fm = ctx.fa('cooler.api.matrix')
    rd = calls(fm, f'{RQ}.CSRReader')
    want_r = spec(ctx.repo, 'CSRReader(h5["pixels"], h5["indexes/bin1_offset"][:])', {'h5': V('h5')}, 'cooler.api')
    ctx.check(bool(rd) and rd[0].term == want_r, R, 'api.matrix.reader', ctx.where(fm, rd[0] if rd else None),
              found=rd[0].term if rd else None, expected=want_r, reason='the reader is built on the pixel table and its row-offset index')
    box = T.tup([V('i0'), V('i1'), V('j0'), V('j1')])
    fld = T.ite(T.cmp('is', V('field'), T.NONE), C('count'), V('field'))
    n = 0
    engines = {G(f'{RQ}.FillLowerRangeQuery2D'), G(f'{RQ}.DirectRangeQuery2D')}
    sites = [e for e in fm.events if e.kind == 'call' and not e.d.get('in_lambda')
             and (e.f in engines or (e.f[0] == 'ite' and {e.f[2], e.f[3]} == engines))]
    for e in sites:
        # an engine class chosen by a conditional expression and constructed once stands for both constructions
        n += 2 if e.f[0] == 'ite' else 1
        ok = len(e.args) >= 4 and e.args[0] == (rd[0].term if rd else None) and e.args[1] == fld \
            and e.args[2] == box and e.args[3] == V('chunksize')
        ctx.check(ok, R, f'api.matrix.engine#{n}', ctx.where(fm, e), found=e.term,
                  expected='Engine(reader, field, (i0, i1, j0, j1), chunksize)', reason='the window reaches the engine in (row, row, col, col) order')
    if n < 3:
        ctx.unrec(R, 'api.matrix.engines', ctx.where(fm), found=n,
                  reason='expected engine constructions for pixel output, fill-lower output and direct output')
    # pixel output uses the direct engine, index iff not ignore_index
    px = [e for e in calls(fm, f'{RQ}.DirectRangeQuery2D') if e.under(V('as_pixels'))]
    ctx.check(len(px) == 1 and T.get_kw(px[0].term, 'return_index') == T.not_(V('ignore_index')), R, 'api.matrix.pixels-engine',
              ctx.where(fm, px[0] if px else None), found=px[0].term if px else None,
              expected='DirectRangeQuery2D(..., return_index=not ignore_index) under as_pixels',
              reason='pixel output lists exactly the stored records')
    fl = [e for e in calls(fm, f'{RQ}.FillLowerRangeQuery2D') if e.under(V('as_pixels'))]
    ctx.check(not fl, R, 'api.matrix.pixels-no-fill', ctx.where(fm), found=len(fl), expected=0)


# ---------------------------------------------------------------------------
# (c) row spans

def row_spans(ctx):
    R = 'C03.c-spans'
    fs = ctx.fa(f'{RQ}.CSRReader.get_spans')
    rets = returns(fs)
    bb = V('bbox')
    env = spec_env(ctx.repo, '''
        i0 = bbox[0]
        i1 = bbox[1]
        edges = i0 + arg_prune_partition(self.bin1_offsets[i0 : i1 + 1], chunksize)
    ''', {'bbox': bb, 'self': V('self'), 'chunksize': V('chunksize')}, RQ)
    v = rets[-1].value if rets else T.NONE
    # value: list(adj(ite(empty, <empty array>, edges)))
    inner = v[2][0] if v[0] == 'call' and v[1] == G('list') and v[2] else v
    ctx.check(inner[0] == 'adj', R, 'adjacent-pairs', ctx.where(fs), found=v, expected='list(zip(edges[:-1], edges[1:]))',
              reason='consecutive spans share their boundary: no row skipped, none read twice')
    if inner[0] == 'adj':
        e = inner[1]
        def _is_empty_array(emp):
            return emp[0] == 'call' and emp[1] == G('np.array') and emp[2] and emp[2][0][0] == 'call' \
                and emp[2][0][1] == G('$new_list')
        nonempty = e
        if e[0] == 'ite':
            nonempty = e[2] if _is_empty_array(e[3]) else e[3]
        ctx.eq(R, 'edges', nonempty, env['edges'], ctx.where(fs),
               'offsets of rows i0..i1 inclusive (closing offset included) are pruned; indices shifted back by i0')
        if e[0] == 'ite':
            emp = e[3] if _is_empty_array(e[3]) else e[2]
            ok = _is_empty_array(emp)
            ctx.check(ok, R, 'empty-window', ctx.where(fs), found=emp, expected='no edges', reason='an empty window yields no spans')
    fp = ctx.fa(f'{RQ}.arg_prune_partition')
    r = returns(fp)
    env = spec_env(ctx.repo, '''
        lo = seq[0]
        hi = seq[-1]
        cuts = np.linspace(lo, hi, 2 + (hi - lo) // step, dtype=int)
        out = np.unique(np.searchsorted(seq, cuts))
    ''', {'seq': V('seq'), 'step': V('step')}, RQ)
    ctx.eq(R, 'arg_prune_partition', r[-1].value if r else None, env['out'], ctx.where(fp),
           'cut points run from the first to the last offset (both included) so that the first and last row boundary survive')


# ---------------------------------------------------------------------------
# (d) slice resolution

def slice_resolution(ctx):
    R = 'C03.d-slice'
    fa = ctx.fa('cooler.core._selectors._IndexingMixin._process_slice')
    s, n = V('s'), V('nmax')
    rets = returns(fa)
    isl = T.call(G('isinstance'), (s, G('slice')))
    sl = [r for r in rets if r.under(isl)]
    sc = [r for r in rets if r.under(isl, False)]
    if len(sl) != 1 or len(sc) != 1:
        ctx.unrec(R, 'shape', ctx.where(fa), found=(len(sl), len(sc)), reason='expected one return for slices and one for scalars')
        return
    start, stop = T.attr(s, 'start'), T.attr(s, 'stop')

    def unclamped(x, dflt):
        return T.ite(T.cmp('is', x, T.NONE), dflt, T.ite(T.cmp('<', x, C(0)), T.add(x, n), x))
    un = T.tup([unclamped(start, C(0)), unclamped(stop, n)])
    v = sl[0].value
    w = ctx.where(fa, sl[0])
    if v == un:
        ctx.ok(R, 'slice.defaults-and-negatives', w, found=v, expected=un)
        ctx.bad(R, 'slice.clamping', w, found='bounds returned unclamped: start/stop beyond nmax or below -nmax pass through',
                expected='both bounds within [0, nmax] and ordered (as slice.indices does)',
                reason='m[-10:, :] on a 4x4 matrix yields shape (10, 4); m[0:n+3] yields n+3 rows',
                key='C03.d-slice|_process_slice|unclamped-bounds')
    else:
        # accepted clamped spellings
        ind = T.call(T.attr(s, 'indices'), (n,))
        acc = [T.tup([T.sub(ind, C(0)), T.sub(ind, C(1))])]
        if v in acc or (T.contains(v, ind)):
            ctx.ok(R, 'slice.clamping', w, found=v, expected='slice.indices(nmax)')
        elif any(x[0] == 'call' and x[1] in (G('min'), G('max'), G('np.clip')) for x in T.walk(v)):
            ctx.ok(R, 'slice.clamping', w, found=v, expected='clamped with min/max')
            ctx.assume('_process_slice: min/max clamp accepted without bound check')
        else:
            ctx.bad(R, 'slice.defaults-and-negatives', w, found=v, expected=un,
                    reason='None -> 0 / nmax; negative -> nmax + bound; otherwise the bound itself',
                    key=f'C03.d-slice|_process_slice|slice-resolution|{T.show(v)}')
    # step other than 1/None refused
    rs = [e for e in events(fa, 'raise') if e.under(isl)]
    ok = any(e.under(T.cmp('not in', T.attr(s, 'step'), T.tup([C(1), T.NONE]))) for e in rs)
    ctx.check(ok, R, 'slice.step', ctx.where(fa), found=[T.show(e.exc) for e in rs], expected='raise when step not in (1, None)')
    # scalar
    sv = T.ite(T.cmp('<', s, C(0)), T.add(s, n), s)
    want = T.tup([T.call(G('int'), (sv,)), T.call(G('int'), (T.add(sv, C(1)),))])
    ctx.eq(R, 'scalar.range', sc[0].value, want, ctx.where(fa, sc[0]), 'a scalar selects [s, s+1) (negative s counted from the end)')
    upper = T.cmp('>=', sv, n)
    rsc = [e for e in events(fa, 'raise') if e.under(isl, False)]
    ok = any(e.under(upper) for e in rsc)
    ctx.check(ok, R, 'scalar.upper-bound', ctx.where(fa), found=[[T.show(c) for c, p in e.guards] for e in rsc],
              expected='raise IndexError when the resolved index >= nmax')
    ok = any(e.exc[0] == 'call' and e.exc[1] == G('TypeError') for e in rsc)
    ctx.check(ok, R, 'scalar.type', ctx.where(fa), found=[T.show(e.exc) for e in rsc], expected='TypeError for other keys')
    # the exact conditions of the scalar exits (complete path conditions, as sets of tests)
    intlike = T.call(T.attr(V('self'), '_isintlike'), (s,))

    def truths(e):
        out = set()
        for t in e.nguards:
            out.update(t[1] if t[0] == 'and' else [t])
        return out
    for e in rsc:
        if e.exc[0] == 'call' and e.exc[1] == G('TypeError'):
            ctx.check(truths(e) == {T.not_(isl), T.not_(intlike)}, R, 'scalar.type.condition', ctx.where(fa, e),
                      found=sorted(T.show(t) for t in truths(e)), expected='refused exactly when the key is neither a slice nor int-like',
                      reason='otherwise valid scalar keys are refused (or invalid ones reach the arithmetic)')
        if e.exc[0] == 'call' and e.exc[1] == G('IndexError'):
            ctx.check(truths(e) == {T.not_(isl), intlike, upper}, R, 'scalar.upper-bound.condition', ctx.where(fa, e),
                      found=sorted(T.show(t) for t in truths(e)), expected='refused exactly when an int-like key resolves to >= nmax')
    ctx.check(truths(sc[0]) == {T.not_(isl), intlike, T.not_(upper)}, R, 'scalar.range.condition', ctx.where(fa, sc[0]),
              found=sorted(T.show(t) for t in truths(sc[0])), expected='[s, s+1) is returned exactly for an int-like key that resolves below nmax')


_run_core = run


def run(ctx):
    _run_core(ctx)
    from . import refs_misc
    refs_misc.run_for(ctx, 'C03')
    from . import reflib
    reflib.run_for(ctx, 'C03')
