"""C20  Generated bin tables tile the genome; a reported bin size is always true.

 1 binnify: per chromosome ceil(len / width) bins, edges k*width with the last
   edge replaced by the length, chromosomes in the given order
 2 get_binsize considers every bin (shared rule; the repaired finding F3)
 3 get_chromsizes and cli parse_bins: length = end of the last bin per chromosome
 4 makebins / parse_bins call binnify(read_chromsizes(..., all_names=True), int(binsize))
"""
from __future__ import annotations

from .. import terms as T
from ..facts import (C, G, V, arg, bind_call, calls, events, raises, receiver, returns, spec, spec_env, yields)
from ..refcompare import analyze_source, compare
from . import common

META = {
    'explanation': (
        'Effect-level comparison of binnify (and its per-chromosome helper), get_chromsizes, cli parse_bins and '
        'makebins with reference models derived from the property; structural rule that a non-None result of '
        'get_binsize is conditioned on the last bin of EVERY chromosome (accumulated, unconditional) and is the '
        'single common width of the other bins. numpy ceil/arange arithmetic on floats >= 2**53 is not decided.'),
    'not_decided': ['float arithmetic of np.ceil(len / width) for lengths >= 2**53', 'pandas Categorical / drop_duplicates semantics'],
}

U = 'cooler.util'

REF_BINNIFY = '''
def ref(chromsizes, binsize):
    def _each(chrom):
        clen = chromsizes[chrom]
        n_bins = int(np.ceil(clen / binsize))
        edges = np.arange(0, (n_bins + 1)) * binsize
        edges[-1] = clen
        return pd.DataFrame({"chrom": [chrom] * n_bins, "start": edges[:-1], "end": edges[1:]},
                            columns=["chrom", "start", "end"])
    table = pd.concat(map(_each, chromsizes.keys()), axis=0, ignore_index=True)
    table["chrom"] = pd.Categorical(table["chrom"], categories=list(chromsizes.index), ordered=True)
    return table
'''

# the same table built by an explicit loop instead of a nested helper mapped over the chromosomes (accepted alternative
# skeleton, section 3.1 of DESIGN.md: the per-chromosome arithmetic and the order of concatenation are the same obligations)
REF_BINNIFY_LOOP = '''
def ref(chromsizes, binsize):
    frames = []
    for chrom in chromsizes.keys():
        clen = chromsizes[chrom]
        n_bins = int(np.ceil(clen / binsize))
        edges = np.arange(0, (n_bins + 1)) * binsize
        edges[-1] = clen
        frames.append(pd.DataFrame({"chrom": [chrom] * n_bins, "start": edges[:-1], "end": edges[1:]},
                                   columns=["chrom", "start", "end"]))
    table = pd.concat(frames, axis=0, ignore_index=True)
    table["chrom"] = pd.Categorical(table["chrom"], categories=list(chromsizes.index), ordered=True)
    return table
'''


def compare_binnify(ctx, rule):
    """binnify against its reference; when the nested per-chromosome helper is gone, against the loop skeleton."""
    fa = ctx.fa(f'{U}.binnify')
    if '_each' in fa.nested or any(k.split('#')[0] for k in fa.nested):
        ref = analyze_source(ctx.repo, U, REF_BINNIFY)
        compare(ctx, rule, fa, None, ref_fa=ref, why='per-chromosome tables concatenated in the given order; chrom is an ordered categorical in that order')
        compare(ctx, rule + '._each', ctx.fa(f'{U}.binnify.<locals>._each'), None, ref_fa=ref.nested_analyses['_each'],
                why='ceil(len / width) bins; edges k*width, last edge replaced by the chromosome length; start = edges[:-1], end = edges[1:]')
        return
    mark = len(ctx.obligations)
    compare(ctx, rule, fa, REF_BINNIFY_LOOP, module=U,
            why='per-chromosome tables (ceil(len / width) bins, last edge = chromosome length) built in a loop and concatenated in the '
                'given order; chrom is an ordered categorical in that order')
    if all(ob['status'] == 'discharged' for ob in ctx.obligations[mark:]):
        return
    del ctx.obligations[mark:]
    ref = analyze_source(ctx.repo, U, REF_BINNIFY)
    compare(ctx, rule, fa, None, ref_fa=ref, why='per-chromosome tables concatenated in the given order; chrom is an ordered categorical in that order')
    compare(ctx, rule + '._each', ctx.fa(f'{U}.binnify.<locals>._each'), None, ref_fa=ref.nested_analyses['_each'],
            why='ceil(len / width) bins; edges k*width, last edge replaced by the chromosome length; start = edges[:-1], end = edges[1:]')


REF_CHROMSIZES = '''
def ref(bins):
    tab = (bins.drop_duplicates(["chrom"], keep="last")[["chrom", "end"]].reset_index(drop=True)
           .rename(columns={"chrom": "name", "end": "length"}))
    chroms, lengths = list(tab["name"]), list(tab["length"])
    return pd.Series(index=chroms, data=lengths)
'''

REF_PARSE_BINS = '''
def ref(arg):
    arg_nodrive = op.splitdrive(arg)[1]
    if ":" in arg_nodrive:
        chromsizes_file, binsize = arg.rsplit(":", maxsplit=1)
        if not op.exists(chromsizes_file):
            raise ValueError("not found")
        try:
            binsize = int(binsize)
        except ValueError as e:
            raise ValueError("not an integer") from e
        chromsizes = util.read_chromsizes(chromsizes_file, all_names=True)
        bins = util.binnify(chromsizes, binsize)
    elif op.exists(arg):
        try:
            bins = pd.read_csv(arg, sep="\\t", names=["chrom", "start", "end"], usecols=[0, 1, 2], dtype={"chrom": str})
        except pd.parser.CParserError as e:
            raise ValueError("parse error") from e
        tab = (bins.drop_duplicates(["chrom"], keep="last")[["chrom", "end"]].reset_index(drop=True)
               .rename(columns={"chrom": "name", "end": "length"}))
        chroms, lengths = list(tab["name"]), list(tab["length"])
        chromsizes = pd.Series(index=chroms, data=lengths)
    else:
        raise ValueError("bad BINS")
    return chromsizes, bins
'''

REF_MAKEBINS = '''
def ref(chromsizes, binsize, out, header, rel_ids):
    chromsizes = util.read_chromsizes(chromsizes, all_names=True)
    bins = util.binnify(chromsizes, binsize)
    if rel_ids is not None:
        bins["id"] = bins.groupby("chrom", observed=True).cumcount()
        if int(rel_ids) == 1:
            bins["id"] += 1
    if out is None:
        f = sys.stdout
    else:
        f = open(out, "w")
    if header:
        bins[0:0].to_csv(f, sep="\\t", lineterminator="\\n", index=False, header=True)
    bins.to_csv(f, sep="\\t", lineterminator="\\n", index=False, header=False)
    f.flush()
'''

REF_READ_CHROMSIZES = '''
def ref(filepath_or, name_patterns=(r"^chr[0-9]+$", r"^chr[XY]$", r"^chrM$"), all_names=False, **kwargs):
    if isinstance(filepath_or, str) and filepath_or.endswith(".gz"):
        kwargs.setdefault("compression", "gzip")
    tab = pd.read_csv(filepath_or, sep="\\t", usecols=[0, 1], names=["name", "length"], dtype={"name": str}, **kwargs)
    if not all_names:
        parts = []
        for pattern in name_patterns:
            part = tab[tab["name"].str.contains(pattern)]
            part = part.iloc[argnatsort(part["name"])]
            parts.append(part)
        tab = pd.concat(parts, axis=0)
    tab.index = tab["name"].values
    return tab["length"]
'''


def run(ctx):
    compare_binnify(ctx, 'C20.binnify')
    alias = ctx.repo.resolve(f'{U}.make_bintable')
    ctx.check(alias == f'{U}.binnify', 'C20.alias', 'make_bintable', found=alias, expected=f'{U}.binnify')
    common.get_binsize_all_bins(ctx)
    compare(ctx, 'C20.get_chromsizes', ctx.fa(f'{U}.get_chromsizes'), REF_CHROMSIZES, module=U,
            why='chromosome length = end of the LAST bin of the chromosome, in table order')
    compare(ctx, 'C20.parse_bins', ctx.fa('cooler.cli._util.parse_bins'), REF_PARSE_BINS, module='cooler.cli._util',
            why='chromsizes:binsize -> binnify(read_chromsizes(all_names=True), int(binsize)); BED bins -> lengths from last bins')
    compare(ctx, 'C20.makebins', ctx.fa('cooler.cli.makebins.makebins'), REF_MAKEBINS, module='cooler.cli.makebins',
            why='all chromosomes of the file, in file order, binned at the requested width')
    compare(ctx, 'C20.read_chromsizes', ctx.fa(f'{U}.read_chromsizes'), REF_READ_CHROMSIZES, module=U,
            why='all_names keeps every chromosome in file order; otherwise the documented pattern filter')


_run_core = run


def run(ctx):
    _run_core(ctx)
    from . import refs_misc
    refs_misc.run_for(ctx, 'C20')
    from . import reflib
    reflib.run_for(ctx, 'C20')
