"""C07  Merging coolers is the exact element-wise aggregate of the inputs.

 1 refusal guards: every incompatibility the property names has a comparison
   whose mismatch arm raises (reference models of CoolerMerger.__init__ and
   merge_coolers)
 2 epoch partition and aggregation (shared with C06)
 3 output dtype = common type of the inputs unless overridden; symmetric flag,
   assembly and columns reach create()
 4 recorded total = accumulated sum of the written counts (shared with C02)
 5 narrowing stores are checked (F15: they are not)
"""
from __future__ import annotations

from .. import terms as T
from ..facts import (C, G, V, arg, bind_call, calls, events, raises, receiver, returns, spec, spec_env, yields)
from ..refcompare import compare
from . import common
from .C06 import REF_BREAKPOINTS, REF_MERGER_ITER, merger_agg

META = {
    'explanation': (
        'Effect-level comparison of CoolerMerger.__init__ and merge_coolers with reference models derived from '
        'the property (which incompatibilities must raise, what reaches create()), of merge_breakpoints and '
        'CoolerMerger.__iter__ (epoch discipline, shared with C06), the accumulated total of the pixel writer, '
        'and an error-discipline rule on the typed store of aggregated values (narrowing must be checked). '
        'Order independence / associativity as runtime equalities and custom aggregation callables are not decided.'),
    'not_decided': ['order independence, associativity and buffer-size independence as runtime equalities',
                    'exactness for user-supplied aggregation callables', 'numpy result_type promotion rules'],
}

REF_MERGER_INIT = '''
def ref(self, coolers, mergebuf, columns=None, agg=None):
    self.coolers = list(coolers)
    self.mergebuf = mergebuf
    self.columns = ["count"] if columns is None else columns
    self.agg = {col: "sum" for col in self.columns}
    if agg is not None:
        self.agg.update(agg)
    binsize = coolers[0].binsize
    if binsize is not None:
        # same resolution and same chromosome lengths
        if len({c.binsize for c in coolers}) > 1:
            raise ValueError("resolution")
        chromsizes = coolers[0].chromsizes
        for i in range(1, len(coolers)):
            if not np.all(coolers[i].chromsizes == chromsizes):
                raise ValueError("chromosomes")
    else:
        # variable bins: identical bin tables
        bins = coolers[0].bins()[["chrom", "start", "end"]][:]
        for i in range(1, len(coolers)):
            other = coolers[i].bins()[["chrom", "start", "end"]][:]
            if (len(other) != len(bins)) or not np.all(other == bins):
                raise ValueError("bins")
'''

REF_MERGE_COOLERS = '''
def ref(output_uri, input_uris, mergebuf, columns=None, dtypes=None, agg=None, **kwargs):
    clrs = [Cooler(path) for path in input_uris]
    symm = [clr.storage_mode == "symmetric-upper" for clr in clrs]
    if all(symm):
        symmetric_upper = True
    elif not any(symm):
        symmetric_upper = False
    else:
        raise ValueError("mixed storage modes")
    if columns is None:
        columns = ["count"]
    seen = defaultdict(list)
    for clr in clrs:
        have = clr.pixels().dtypes
        for col in columns:
            if col not in have:
                raise ValueError("missing column")
            else:
                seen[col].append(have[col])
    dtypes = {} if dtypes is None else dict(dtypes)      # a private copy: the caller's dict is never written (F28)
    for col in columns:
        if col not in dtypes:
            dtypes[col] = np.result_type(*seen[col])
    bins = clrs[0].bins()[["chrom", "start", "end"]][:]
    assembly = clrs[0].info.get("genome-assembly", None)
    it = CoolerMerger(clrs, mergebuf=mergebuf, columns=columns, agg=agg)
    create(output_uri, bins, it, columns=columns, dtypes=dtypes, assembly=assembly,
           symmetric_upper=symmetric_upper, **kwargs)
'''


def run(ctx):
    fi = ctx.fa('cooler._reduce.CoolerMerger.__init__')
    compare(ctx, 'C07.compat', fi, REF_MERGER_INIT,
            why='inputs that differ in resolution, chromosome lengths or bin table are refused (raise), never merged')
    fm = ctx.fa('cooler._reduce.merge_coolers')
    compare(ctx, 'C07.merge_coolers', fm, REF_MERGE_COOLERS,
            why='mixed storage modes and missing value columns are refused; common dtype, assembly, symmetric flag and columns reach create()')
    refusals_raise(ctx, fi, fm)
    fb = ctx.fa('cooler._reduce.merge_breakpoints')
    compare(ctx, 'C07.breakpoints', fb, REF_BREAKPOINTS, why='see C06: breakpoints over the index summed over all inputs')
    fit = ctx.fa('cooler._reduce.CoolerMerger.__iter__')
    compare(ctx, 'C07.epochs', fit, REF_MERGER_ITER, why='see C06: every input contributes its rows of the epoch; grouped by pixel, default sum')
    common.write_pixels_append(ctx, 'C07')
    narrowing(ctx)


def refusals_raise(ctx, fi, fm):
    """Error discipline: an incompatibility must end in raise, not in a warning."""
    R = 'C07.refusals'
    for fa, n in ((fi, 3), (fm, 2)):
        rs = raises(fa)
        ctx.check(len(rs) >= n, R, f'{fa.fi.qualname.split(".")[-2] if "__init__" in fa.fi.qualname else fa.fi.qualname.split(".")[-1]}.count',
                  ctx.where(fa), found=len(rs), expected=f'>= {n} refusals that raise')
        ws = calls(fa, 'warnings.warn')
        ctx.check(not ws, R, f'{fa.fi.qualname.split(".")[-1]}.no-warn-instead', ctx.where(fa, ws[0] if ws else None),
                  found=len(ws), expected='no incompatibility downgraded to a warning')


def narrowing(ctx):
    """A store of an aggregated column into a dataset of declared dtype must be
    preceded by a range/equality check that raises."""
    R = 'C07.narrowing'
    fa = ctx.fa('cooler.create._create.write_pixels')
    stores = [e for e in events(fa, 'store_sub') if e.key[0] == 'slice' and e.loops]
    if not stores:
        ctx.unrec(R, 'store', ctx.where(fa), reason='typed store not found')
        return
    e = stores[0]
    # any raise in the function whose guard inspects the value against the dataset dtype?
    checked = False
    for r in raises(fa):
        s = ' '.join(T.show(c) for c, p in r.guards)
        if any(k in s for k in ('dtype', 'can_cast', 'iinfo', 'finfo', 'astype', 'min_scalar_type')):
            checked = True
    for c in calls(fa, ('np.can_cast', 'np.iinfo', 'np.min_scalar_type')):
        checked = True
    ctx.check(checked, R, 'checked-before-store', ctx.where(fa, e),
              found='chunk[col] is stored into the typed dataset without any range / exactness check',
              expected='a check that raises when an aggregated value does not fit the column dtype',
              reason='two int32 maxima merge to a stored 2147483647 (h5py saturates silently) while the sum attribute says 4294967294',
              key='C07.narrowing|write_pixels|unchecked-narrowing-store')


_run_core = run


def run(ctx):
    _run_core(ctx)
    from . import refs_misc
    refs_misc.run_for(ctx, 'C07')
    from . import reflib
    reflib.run_for(ctx, 'C07')
