"""C09  Every zoom level of a multires file equals direct coarsening of its base.

 1 the truncating open of the output file is outside the per-base loop
 2 layout: base copies (data before attributes) under /resolutions/<binsize>,
   derived levels coarsened from their predecessor, root tagged as MCOOL;
   the recogniser tests the same group name and literal
 3 get_multiplier_sequence: predecessor only if it divides the target, the
   multiplier is the quotient, underivable non-base levels refused
 4 zoomify_cooler: every level copied or coarsened exactly once
 5 CLI resolution-spec expansion: no dead arm, each suffix arm splits on the
   suffix it tested; progressions
"""
from __future__ import annotations

import ast

from .. import terms as T
from ..facts import (C, G, V, arg, bind_call, calls, events, receiver, returns, spec, spec_env, yields)
from ..refcompare import compare
from ..symeval import mk_elem
from . import common

META = {
    'explanation': (
        'Effect-level comparison of zoomify_cooler, get_multiplier_sequence, the progression generators and '
        'is_multires_file with reference models derived from the property; a truncate-in-loop rule over every '
        'h5py.File(..., "w") of the zoomify path; writer/recogniser agreement on the resolutions group and the '
        'MCOOL magic; exact pattern of the CLI resolution-spec expansion and a dead-branch rule over its '
        'if/elif chain. That a level equals coarsen(base, r/base) whatever the chain is a runtime equality and is not decided.'),
    'not_decided': ['that coarsening composes (level r == coarsen(base, r/base) for any chain)', 'h5py copy semantics'],
}

RED = 'cooler._reduce'

REF_ZOOMIFY = '''
def ref(base_uris, outfile, resolutions, chunksize, nproc=1, columns=None, dtypes=None, agg=None, **kwargs):
    if isinstance(base_uris, str):
        base_uris = [base_uris]
    sources = {}
    longest = {}
    bases = set()
    for uri in base_uris:
        infile, ingroup = parse_cooler_uri(uri)
        clr = Cooler(infile, ingroup)
        b = 1 if clr.binsize is None else clr.binsize
        sources[b] = (infile, ingroup)
        longest[b] = clr.bins()[:].groupby("chrom", observed=True).size().max()
        bases.add(b)
    resn, pred, mult = get_multiplier_sequence(resolutions, bases)
    n_zooms = len(resn)
    if columns is None:
        columns = ["count"]
    # the output file is truncated ONCE, then every base is appended
    with h5py.File(outfile, "w"):
        pass
    for b in bases:
        infile, ingroup = sources[b]
        with h5py.File(infile, "r") as src, h5py.File(outfile, "r+") as dest:
            prefix = f"/resolutions/{b}"
            src.copy(ingroup + "/chroms", dest, prefix + "/chroms")
            src.copy(ingroup + "/bins", dest, prefix + "/bins")
            for col in ["bin1_id", "bin2_id", *list(columns)]:
                src.copy(ingroup + f"/pixels/{col}", dest, prefix + f"/pixels/{col}")
            src.copy(ingroup + "/indexes", dest, prefix + "/indexes")
            dest[prefix].attrs.update(src[ingroup].attrs)
    for i in range(n_zooms):
        if pred[i] == -1:
            continue
        prev = resn[pred[i]]
        binsize = prev * mult[i]
        coarsen_cooler(outfile + f"::resolutions/{prev}", outfile + f"::resolutions/{binsize}", mult[i], chunksize,
                       nproc=nproc, columns=columns, dtypes=dtypes, agg=agg, mode="r+", **kwargs)
    with h5py.File(outfile, "r+") as fw:
        fw.attrs.update({"format": "HDF5::MCOOL", "format-version": __format_version_mcool__})
'''

REF_MULT = '''
def ref(resolutions, bases=None):
    if bases is None:
        bases = {min(resolutions)}
    else:
        bases = set(bases)
    resn = np.array(sorted(bases.union(resolutions)))
    pred = -np.ones(len(resn), dtype=int)
    mult = -np.ones(len(resn), dtype=int)
    for i, target in list(enumerate(resn))[::-1]:
        p = i - 1
        while p >= 0:
            if target % resn[p] == 0:
                pred[i] = p
                mult[i] = target // resn[p]
                break
            else:
                p -= 1
    for i, p in enumerate(pred):
        if p == -1 and resn[i] not in bases:
            raise ValueError("underivable")
    return resn, pred, mult
'''

# accepted alternative skeleton (section 3.1 of DESIGN.md): the predecessor search as a counted loop instead of a hand-rolled
# countdown - the same obligations (nearest smaller resolution that divides the target; multiplier = quotient; stop at it)
REF_MULT_FOR = '''
def ref(resolutions, bases=None):
    if bases is None:
        bases = {min(resolutions)}
    else:
        bases = set(bases)
    resn = np.array(sorted(bases.union(resolutions)))
    pred = -np.ones(len(resn), dtype=int)
    mult = -np.ones(len(resn), dtype=int)
    for i in range(len(resn) - 1, -1, -1):
        target = resn[i]
        for p in range(i - 1, -1, -1):
            if target % resn[p] == 0:
                pred[i] = p
                mult[i] = target // resn[p]
                break
    for i, p in enumerate(pred):
        if p == -1 and resn[i] not in bases:
            raise ValueError("underivable")
    return resn, pred, mult
'''

REF_GEOM = '''
def ref(start, mul):
    start, mul = int(start), int(mul)
    yield start
    while True:
        start *= mul
        yield start
'''

REF_NICE = '''
def ref(start):
    start = int(start)
    yield start
    while True:
        for mul in (2, 5, 10):
            yield start * mul
        start *= 10
'''

REF_PREFERRED = '''
def ref(start, stop, style="nice"):
    if start > stop:
        return []
    if style == "binary":
        gen = geomprog(start, 2)
    elif style == "nice":
        gen = niceprog(start)
    seq = [next(gen)]
    while True:
        n = next(gen)
        if n > stop:
            break
        seq.append(n)
    return seq
'''

REF_IS_MULTIRES = '''
def ref(filepath, min_version=1):
    if not h5py.is_hdf5(filepath):
        return False
    with h5py.File(filepath) as f:
        fmt = f.attrs.get("format", None)
        if "resolutions" in f.keys() and len(f["resolutions"].keys()) > 0:
            name = next(iter(f["resolutions"].keys()))
            if fmt == "HDF5::MCOOL" and _is_cooler(f["resolutions"][name]):
                return True
        elif "0" in f.keys() and _is_cooler(f["0"]) and min_version < 2:
            return True
    return False
'''


def run(ctx):
    fz = ctx.fa(f'{RED}.zoomify_cooler')
    compare(ctx, 'C09.zoomify', fz, REF_ZOOMIFY,
            why='truncate once, copy each base (data, then attributes) to /resolutions/<binsize>, coarsen every derived level '
                'from its predecessor by its multiplier, tag the root as MCOOL')
    truncate_outside_loops(ctx)
    fm = ctx.fa(f'{RED}.get_multiplier_sequence')
    why_m = 'a predecessor must divide the target; multiplier = quotient; a non-base level without predecessor is refused'
    mark = len(ctx.obligations)
    compare(ctx, 'C09.multipliers', fm, REF_MULT, why=why_m)
    if not all(ob['status'] == 'discharged' for ob in ctx.obligations[mark:]):
        kept = ctx.obligations[mark:]
        del ctx.obligations[mark:]
        compare(ctx, 'C09.multipliers', fm, REF_MULT_FOR, why=why_m + ' [counted-loop skeleton]')
        if not all(ob['status'] == 'discharged' for ob in ctx.obligations[mark:]):
            del ctx.obligations[mark:]
            ctx.obligations.extend(kept)
    compare(ctx, 'C09.geomprog', ctx.fa(f'{RED}.geomprog'), REF_GEOM, why='start, start*mul, start*mul^2, ...')
    compare(ctx, 'C09.niceprog', ctx.fa(f'{RED}.niceprog'), REF_NICE, why='start*{1,2,5,10,20,50,...}')
    compare(ctx, 'C09.preferred', ctx.fa(f'{RED}.preferred_sequence'), REF_PREFERRED,
            ignore=lambda p, gs: p[0] == 'call', why='values of the progression not exceeding stop')
    compare(ctx, 'C09.recogniser', ctx.fa('cooler.fileops.is_multires_file'), REF_IS_MULTIRES, module='cooler.fileops',
            why='recognised by the resolutions group, the MCOOL magic and a cooler inside')
    magic(ctx)
    cli_expansion(ctx)
    common.dead_branches(ctx, ['cooler.cli.zoomify.zoomify', f'{RED}.zoomify_cooler', f'{RED}.get_multiplier_sequence'])
    cli_call(ctx)


def truncate_outside_loops(ctx):
    R = 'C09.truncate-in-loop'
    for q in (f'{RED}.zoomify_cooler', f'{RED}.legacy_zoomify'):
        fa = ctx.fa(q)
        ws = [e for e in calls(fa, 'h5py.File') if arg(e, 1, 'mode') == C('w')]
        if not ws:
            ctx.unrec(R, q.split('.')[-1], ctx.where(fa), reason='no truncating open found (the output file must be created somewhere)')
            continue
        for k, e in enumerate(ws):
            path = arg(e, 0, 'name')
            inloop = [l for l in e.loops if not T.contains(path, ('elem', fa.loops[l].iter, l, ()))
                      and not any(x[0] == 'elem' and x[2] == l for x in T.walk(path))]
            ctx.check(not inloop, R, f'{q.split(".")[-1]}#{k + 1}', ctx.where(fa, e), found=f'h5py.File({T.show(path)}, "w") inside {len(inloop)} loop(s) that do not change the path',
                      expected='truncating open of a loop-invariant path is outside the loop that fills the file',
                      reason='with several base coolers every base copy would truncate the previous ones',
                      key=f'{R}|{q}|w-open-inside-loop')


def magic(ctx):
    R = 'C09.magic'
    mm = ctx.repo.const_value('cooler.create.MAGIC_MCOOL')
    ctx.check(mm == 'HDF5::MCOOL', R, 'constant', found=mm, expected='HDF5::MCOOL',
              reason='the (unused) constant, the literal written by zoomify_cooler and the literal tested by is_multires_file must be one string')
    ver = ctx.repo.const_value('cooler._version.__format_version_mcool__')
    ctx.check(ver == 2, R, 'version', found=ver, expected=2, reason='MCOOL v2 layout = /resolutions/<binsize>')


def cli_expansion(ctx):
    R = 'C09.cli-resolution-spec'
    fa = ctx.fa('cooler.cli.zoomify.zoomify')
    ex = [e for e in calls(fa, method='extend') if e.loops]
    if len(ex) != 1:
        ctx.unrec(R, 'extend', ctx.where(fa), found=len(ex), reason='expected one resolutions.extend(r) in the spec loop')
        return
    e = ex[0]
    L = fa.loops[e.loops[-1]]
    res = mk_elem(L.iter, L.id, ())
    want_iter = spec(ctx.repo, '[s.strip().lower() for s in Q_r.split(",")]', {}, 'cooler.cli.zoomify')
    m = T.match(want_iter, L.iter)
    ctx.check(m is not None, R, 'tokens', ctx.where(fa, e), found=L.iter, expected='comma-separated, stripped, case-folded specs')
    pat = spec(ctx.repo, '''(preferred_sequence(Q_cur, Q_max, "nice") if res == "n" else
        (preferred_sequence(Q_cur, Q_max, "binary") if res == "b" else
        ([1000, 2000, *preferred_sequence(5000, Q_max, "nice")] if res == "4dn" else
        (preferred_sequence(int(res.split("n")[0]), Q_max, "nice") if res.endswith("n") else
        (preferred_sequence(int(res.split("b")[0]), Q_max, "binary") if res.endswith("b") else
        [int(res)])))))'''.replace('\n', ' '), {'res': res}, 'cooler.cli.zoomify')
    m = T.match(pat, e.args[0])
    ctx.check(m is not None, R, 'expansion', ctx.where(fa, e), found=e.args[0], expected=pat,
              reason='"N"/"B" progressions from the current resolution, "4DN" ladder, "<n>N"/"<n>B" progressions from n, plain integers')
    if m:
        ctx.check('genome_length' in T.show(m['Q_max']) or 'HIGLASS_TILE_DIM' in T.show(m['Q_max']), R, 'maxres', ctx.where(fa, e),
                  found=m['Q_max'], expected='coarsest resolution from genome length / tile size')


def cli_call(ctx):
    R = 'C09.cli-call'
    fa = ctx.fa('cooler.cli.zoomify.zoomify')
    zc = calls(fa, f'{RED}.zoomify_cooler')
    if not zc:
        ctx.unrec(R, 'call', ctx.where(fa), reason='zoomify CLI no longer calls zoomify_cooler')
        return
    b, _, (xp, xk) = bind_call(ctx.repo, f'{RED}.zoomify_cooler', zc[0])
    want_bases = spec(ctx.repo, '[cool_uri, *list(base_uri)]', {'cool_uri': V('cool_uri'), 'base_uri': V('base_uri')}, 'cooler.cli.zoomify')
    ctx.eq(R, 'base_uris', b.get('base_uris'), want_bases, ctx.where(fa, zc[0]), 'the main cooler plus every additional base URI')
    ctx.check(b.get('outfile') is not None and T.contains(b.get('outfile'), V('out')) or T.contains(b.get('outfile'), V('cool_uri')), R, 'outfile',
              ctx.where(fa, zc[0]), found=b.get('outfile'), expected='--out, or derived from the input path')
    for p in ('chunksize', 'nproc'):
        ctx.eq(R, p, b.get(p), V(p), ctx.where(fa, zc[0]))


_run_core = run


def run(ctx):
    _run_core(ctx)
    from . import refs_misc
    refs_misc.run_for(ctx, 'C09')
    from . import reflib
    reflib.run_for(ctx, 'C09')
