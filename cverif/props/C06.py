"""C06  Unordered ingestion equals aggregating all records in memory.

Effect-level comparison with reference models of
  create_from_unordered   one temporary cooler per chunk (distinct group, append
                          mode, validator options forwarded), one- or two-pass
                          merge whose fan-in groups cover all chunks, final merge
                          into the target with the caller's mode, temp-file lifecycle
  merge_breakpoints       partition of row ids: starts at 0, combined index over
                          all inputs, forced progress, ends exactly at the total
  CoolerMerger.__iter__   epochs cut at row-offset values only, carried starts,
                          only empty slices filtered, group-by (bin1, bin2) sorted
plus the fan-in interval rule (at least two edges) and the temp-file typestate.
"""
from __future__ import annotations

from .. import terms as T
from ..facts import (C, G, V, arg, bind_call, calls, events, receiver, returns, spec, spec_env, yields)
from ..refcompare import compare
from . import common

META = {
    'explanation': (
        'Effect-level comparison (normalised symbolic dataflow) of create_from_unordered, merge_breakpoints '
        'and CoolerMerger.__iter__ with reference models derived from the property: every chunk gets its own '
        'temporary collection, merge groups partition the chunk list, epochs are cut at row-offset values so '
        'no row is split, only empty slices are skipped, every epoch is grouped by (bin1, bin2) and sorted, '
        'temporary files are created deletable and removed. Independence of chunk order / buffer size as a '
        'runtime equality is not decided.'),
    'not_decided': ['numerical placement of breakpoints and independence of the result from it (needs associativity of the aggregate)',
                    'pandas group-by semantics', 'actual file deletion by the OS / garbage collector'],
}

REF_UNORDERED = '''
def ref(cool_uri, bins, chunks, columns=None, dtypes=None, mode=None, mergebuf=20_000_000,
        delete_temp=True, temp_dir=None, max_merge=200, **kwargs):
    from .._reduce import CoolerMerger
    from ..api import Cooler
    bins = bins.copy()
    bins["chrom"] = bins["chrom"].astype(object)
    if columns is not None:
        columns = [c for c in columns if c not in {"bin1_id", "bin2_id"}]
    if temp_dir is None:
        temp_dir = op.dirname(parse_cooler_uri(cool_uri)[0])
    elif temp_dir == "-":
        temp_dir = None
    dtypes = _get_dtypes_arg(dtypes, kwargs)
    windows = os.name == "nt"
    if windows and delete_temp:
        delete = False
    else:
        delete = delete_temp
    files = []
    # pass 1: one temporary collection per chunk, each under its own group
    tf = tempfile.NamedTemporaryFile(suffix=".multi.cool", delete=delete, dir=temp_dir)
    files.append(tf)
    parts = []
    for i, chunk in enumerate(chunks):
        part = tf.name + "::" + str(i)
        parts.append(part)
        create(part, bins, chunk, columns=columns, dtypes=dtypes, mode="a", **kwargs)
    n = len(parts)
    if n > max_merge > 0:
        # pass 2 of 3: about sqrt(n) groups that tile [0, n) - at least two edges
        edges = np.linspace(0, n, max(int(np.sqrt(n)), 2), dtype=int)
        tf2 = tempfile.NamedTemporaryFile(suffix=".multi.cool", delete=delete, dir=temp_dir)
        files.append(tf2)
        merged = []
        for lo, hi in zip(edges[:-1], edges[1:]):
            subset = CoolerMerger([Cooler(u) for u in parts[lo:hi]], mergebuf, columns=columns)
            part = tf2.name + "::" + f"{lo}-{hi}"
            merged.append(part)
            create(part, bins, subset, columns=columns, dtypes=dtypes, mode="a", **kwargs)
        final = merged
    else:
        final = parts
    chunks = CoolerMerger([Cooler(u) for u in final], mergebuf, columns=columns)
    create(cool_uri, bins, chunks, columns=columns, dtypes=dtypes, mode=mode, **kwargs)
    # every temporary file is closed explicitly on the success path (closing deletes it when
    # delete=True) - never left to garbage collection
    for tf in files:
        if not tf.closed:
            tf.close()
        if windows and delete_temp:
            os.remove(tf.name)
    del files
'''

REF_BREAKPOINTS = '''
def ref(indexes, bufsize):
    combined = np.zeros(indexes[0].shape)
    for i in range(len(indexes)):
        combined += indexes[i]
    start = 0
    total = combined[-1]
    partition = [0]
    cum = [0]
    lo = 0
    while True:
        hi = bisect_right(combined, min(start + bufsize, total), lo=lo) - 1
        if hi == lo:
            hi += 1
        partition.append(hi)
        cum.append(combined[hi])
        if combined[hi] == total:
            break
        lo = hi
        start = combined[hi]
    partition = np.array(partition)
    cum = np.array(cum)
    per_epoch = np.diff(cum)
    n_over = (per_epoch > bufsize).sum()
    if n_over > 0:
        warnings.warn("x", stacklevel=2)
    return partition, cum
'''

REF_MERGER_ITER = '''
def ref(self):
    indexes = [c.open("r")["indexes/bin1_offset"] for c in self.coolers]
    partition, cum = merge_breakpoints(indexes, self.mergebuf)
    per_epoch = np.diff(cum)
    nnzs = [len(c.pixels()) for c in self.coolers]
    starts = [0] * len(self.coolers)
    for row in partition[1:]:
        stops = [index[row] for index in indexes]
        pieces = [c.pixels()[a:b] for c, a, b in zip(self.coolers, starts, stops) if (b - a) > 0]
        if not pieces:
            # an epoch in which no input has a record (empty inputs; empty rows ahead of an
            # oversized row) contributes nothing - it must not reach pandas.concat
            continue
        combined = pd.concat(pieces, axis=0, ignore_index=True)
        df = combined.groupby(["bin1_id", "bin2_id"], sort=True).aggregate(self.agg).reset_index()
        yield {k: v.values for k, v in df.items()}
        starts = stops
'''


def run(ctx):
    fa = ctx.fa('cooler.create._create.create_from_unordered')
    compare(ctx, 'C06.unordered', fa, REF_UNORDERED,
            why='reference model of two-pass external sort: one temp collection per chunk, fan-in groups tile the chunk list, '
                'final merge into the target, temp files deletable and removed')
    fan_in(ctx, fa)
    tempfiles(ctx, fa)
    fb = ctx.fa('cooler._reduce.merge_breakpoints')
    compare(ctx, 'C06.breakpoints', fb, REF_BREAKPOINTS,
            why='partition starts at row 0, uses the index summed over ALL inputs, always progresses, and ends exactly when all records are covered')
    fm = ctx.fa('cooler._reduce.CoolerMerger.__iter__')
    compare(ctx, 'C06.epochs', fm, REF_MERGER_ITER,
            why='epoch slices [start:stop) per input with stops = row offsets at the breakpoint (no row split), starts carried over, '
                'only empty slices filtered, grouped by (bin1, bin2) and sorted')
    merger_agg(ctx)
    dispatch(ctx)


def fan_in(ctx, fa):
    """E8: the number of linspace points is at least 2 under the guard n > max_merge > 0."""
    R = 'C06.fan-in'
    ls = calls(fa, 'np.linspace')
    if not ls:
        ctx.unrec(R, 'linspace', ctx.where(fa), reason='fan-in edges are not built with np.linspace')
        return
    num = arg(ls[0], 2, 'num')
    ok = False
    if num is not None:
        if T.is_int_const(num) and num[1] >= 2:
            ok = True
        if num[0] == 'call' and num[1] == G('max') and any(T.is_int_const(a) and a[1] >= 2 for a in num[2]):
            ok = True
        if num[0] == 'lin' and num[1] >= 1 and all(li[2] > 0 for li in num[2]):
            # int(sqrt(n)) + k, k >= 1 (sqrt(n) >= 1 under n > max_merge > 0)
            ok = True
    ctx.check(ok, R, 'at-least-two-edges', ctx.where(fa, ls[0]), found=num,
              expected='number of edges >= 2 for every n (e.g. max(int(sqrt(n)), 2))',
              reason='for n in {2, 3} chunks int(sqrt(n)) == 1 gives one edge, no merge group, and the final merge over an empty list fails',
              key='C06.fan-in|create_from_unordered|linspace-may-have-one-point')
    ctx.eq(R, 'edges-span', (arg(ls[0], 0), arg(ls[0], 1)), (C(0), T.call(G('len'), (_uris_term(fa),))), ctx.where(fa, ls[0]),
           'edges run from 0 to the number of temporary coolers inclusive')


def _uris_term(fa):
    for e in calls(fa, 'len'):
        return e.args[0]
    return T.NONE


def tempfiles(ctx, fa):
    """Typestate: every temporary file comes from NamedTemporaryFile(delete=<derived from delete_temp>)."""
    R = 'C06.tempfiles'
    mk = calls(fa, 'tempfile.NamedTemporaryFile')
    other = calls(fa, ('tempfile.mkstemp', 'tempfile.mktemp', 'tempfile.mkdtemp', 'tempfile.TemporaryDirectory', 'open'))
    ctx.check(len(mk) == 2 and not other, R, 'creation-api', ctx.where(fa), found=(len(mk), len(other)),
              expected='two NamedTemporaryFile sites, no other temp-file API')
    dt = V('delete_temp')
    want = T.ite(T.nary('and', (T.cmp('==', T.attr(G('os'), 'name'), C('nt')), dt)), T.FALSE, dt)
    for k, e in enumerate(mk):
        d = T.get_kw(e.term, 'delete')
        ctx.eq(R, f'delete-flag#{k + 1}', d, want, ctx.where(fa, e), 'temporary files vanish on close unless the caller keeps them')
        reg = [c for c in calls(fa, method='append') if c.args and c.args[0] == e.term]
        # ... and every registered file is closed explicitly at the end (typestate: created -> closed)
        if k == 0:
            closes = [c for c in calls(fa, method='close') if c.loops and not [g for g, kd in zip(c.guards, c.gkinds)
                                                                                if kd == 'if' and 'closed' not in T.show(g[0])]]
            ctx.check(bool(closes), R, 'closed-explicitly', ctx.where(fa, closes[0] if closes else None), found=len(closes),
                      expected='for tf in temp_files: tf.close()  - unconditional (except "if not tf.closed")',
                      reason='relying on garbage collection lets a temporary file outlive a successful run (a cached traceback keeps the frame alive)',
                      key='C06.tempfiles|create_from_unordered|temp-files-not-closed-explicitly')
        ctx.check(bool(reg), R, f'registered#{k + 1}', ctx.where(fa, e), found=len(reg), expected='appended to the temp-file list',
                  reason='the object must stay referenced until the final merge is done and be removed on the Windows path')


def merger_agg(ctx):
    R = 'C06.agg'
    fi = ctx.fa('cooler._reduce.CoolerMerger.__init__')
    st = {e.attr: e.value for e in events(fi, 'store_attr') if e.base == V('self')}
    want_cols = T.ite(T.cmp('is', V('columns'), T.NONE), T.lst([C('count')]), V('columns'))
    ctx.eq(R, 'columns', st.get('columns'), want_cols, ctx.where(fi), 'default value column is count')
    agg = st.get('agg')
    want = spec(ctx.repo, '{col: "sum" for col in cols}', {'cols': want_cols}, 'cooler._reduce')
    ctx.eq(R, 'default-sum', agg, want, ctx.where(fi), 'every requested column is aggregated, by sum unless overridden')
    ups = [e for e in calls(fi, method='update') if receiver(e) == agg or T.show(receiver(e)) == 'self.agg']
    ctx.check(bool(ups) and ups[0].args == (V('agg'),) and ups[0].under(T.cmp('is not', V('agg'), T.NONE)),
              R, 'override', ctx.where(fi), found=[T.show(e.term) for e in ups], expected='self.agg.update(agg) when agg is given')
    ctx.eq(R, 'coolers', st.get('coolers'), T.call(G('list'), (V('coolers'),)), ctx.where(fi))
    ctx.eq(R, 'mergebuf', st.get('mergebuf'), V('mergebuf'), ctx.where(fi))


def dispatch(ctx):
    """create_cooler forwards the validator flags and merge options to the unordered path."""
    R = 'C06.dispatch'
    fa = ctx.fa('cooler.create._create.create_cooler')
    un = calls(fa, 'cooler.create._create.create_from_unordered')
    if not un:
        ctx.unrec(R, 'call', ctx.where(fa), reason='create_cooler does not call create_from_unordered')
        return
    b, _, (xp, xk) = bind_call(ctx.repo, 'cooler.create._create.create_from_unordered', un[0])
    b.update(xk)
    for p in ('columns', 'dtypes', 'mode', 'mergebuf', 'delete_temp', 'temp_dir', 'max_merge', 'metadata', 'assembly',
              'symmetric_upper', 'boundscheck', 'dupcheck', 'triucheck', 'ensure_sorted', 'h5opts', 'lock'):
        ctx.eq(R, p, b.get(p), V(p), ctx.where(fa, un[0]), 'option forwarded to the parameter of the same name')
    ctx.eq(R, 'cool_uri', b.get('cool_uri'), V('cool_uri'), ctx.where(fa, un[0]))
    ctx.eq(R, 'bins', b.get('bins'), V('bins'), ctx.where(fa, un[0]))


_run_core = run


def run(ctx):
    _run_core(ctx)
    from . import refs_misc
    refs_misc.run_for(ctx, 'C06')
    from . import reflib
    reflib.run_for(ctx, 'C06')
