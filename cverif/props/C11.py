"""C11  Balancing depends on the data only, not on chunking or scheduling.

 1 spans partition [0, nnz) for every chunk size (balance_cooler, cis-only
   sweep, parallel.split default, util.partition)
 2 stage purity: every pipeline stage stores only into its private copy
 3 the fold is order-insensitive: reduce(operator.add, fresh zeros); mapped
   results are consumed only by the fold / gather; a pipeline is extended on
   a copy with a copied stage list
 4 the chunk getter reads pixels[lo:hi] of its span and the whole bin table
   under a paired lock
 5 the CLI's unordered map reaches balance_cooler(map=...) unchanged
"""
from __future__ import annotations

from .. import terms as T
from ..facts import (C, G, V, arg, bind_call, calls, events, receiver, returns, spec, spec_env, yields)
from ..refcompare import compare
from . import common
from .C10 import REF_BALANCE, REF_CISONLY, REF_FILTERS

META = {
    'explanation': (
        'Span partition structure (edges every chunksize from 0 up to at least nnz, adjacent pairs; '
        'util.partition yields (i, min(i+step, stop)) for i in range(start, stop, step)), effect purity of '
        'every pipeline stage (stores only into the private data copy, never into the shared chunk, captured '
        'vectors, globals or attributes), effect-level comparison of the split-apply-combine pipeline '
        '(MultiplexDataPipe, apply_pipeline, chunkgetter, split) with reference models, lock pairing, and the '
        'provenance of the map argument from the CLI. Equality up to floating-point summation order and '
        'agreement with dense iterative correction are numerical and not decided.'),
    'not_decided': ['equality up to floating-point summation order', 'agreement with dense iterative correction',
                    'real multiprocessing behaviour'],
}

PAR = 'cooler.parallel'

REF_PARTITION = '''
def ref(start, stop, step):
    return ((i, min(i + step, stop)) for i in range(start, stop, step))
'''

REF_APPLY = '''
def ref(funcs, prepare, get, key):
    chunk = get(key)
    if prepare is not None:
        data = prepare(chunk)
        for func in funcs:
            data = func(chunk, data)
    else:
        data = chunk
        for func in funcs:
            data = func(data)
    return data
'''

REF_PIPE_INIT = '''
def ref(self, get, keys, map):
    self.get = get
    self.keys = list(keys)
    self.map = map
    self.funcs = []
    self._prepare = None
'''

REF_PIPE_COPY = '''
def ref(self):
    other = self.__class__(self.get, self.keys, self.map)
    other.funcs = list(self.funcs)
    other._prepare = self._prepare
    return other
'''

REF_PIPE_PREPARE = '''
def ref(self, func):
    self._prepare = func
    return self
'''

REF_PIPE_PIPE = '''
def ref(self, func, *args, **kwargs):
    other = self.__copy__()
    if args or kwargs:
        addon = [partial(func, *args, **kwargs)]
    else:
        try:
            addon = list(func)
        except TypeError:
            addon = [func]
    other.funcs += addon
    return other
'''

REF_PIPE_RUN = '''
def ref(self):
    pipeline = partial(apply_pipeline, self.funcs, self._prepare, self.get)
    return self.map(pipeline, self.keys)
'''

REF_PIPE_GATHER = '''
def ref(self, combine=list, *args, **kwargs):
    return combine(iter(self.run()), *args, **kwargs)
'''

REF_PIPE_REDUCE = '''
def ref(self, binop, init):
    return reduce(binop, iter(self.run()), init)
'''

REF_GETTER = '''
def ref(self, span):
    lo, hi = span
    chunk = {}
    try:
        if self.use_lock:
            lock.acquire()
        with self.cooler.open("r") as grp:
            if self.include_chroms:
                chunk["chroms"] = get(grp["chroms"], as_dict=True)
            if self.include_bins:
                chunk["bins"] = get(grp["bins"], as_dict=True)
            chunk["pixels"] = get(grp["pixels"], lo, hi, as_dict=True)
    finally:
        if self.use_lock:
            lock.release()
    return chunk
'''

REF_GETTER_INIT = '''
def ref(self, clr, include_chroms=False, include_bins=True, use_lock=False):
    self.cooler = clr
    self.include_chroms = include_chroms
    self.include_bins = include_bins
    self.use_lock = use_lock
'''

REF_SPLIT = '''
def ref(clr, map=map, chunksize=10_000_000, spans=None, **kwargs):
    if spans is None:
        spans = partition(0, int(clr.info["nnz"]), chunksize)
    return MultiplexDataPipe(get=chunkgetter(clr, **kwargs), keys=spans, map=map)
'''


def run(ctx):
    compare(ctx, 'C11.partition', ctx.fa('cooler.util.partition'), REF_PARTITION, module='cooler.util',
            why='consecutive pieces (i, min(i+step, stop)) for i = start, start+step, ...: contiguous, start at start, end at stop')
    span_rules(ctx)
    purity(ctx)
    for name, src in REF_FILTERS.items():
        compare(ctx, f'C11.stage.{name}', ctx.fa(f'cooler._balance.{name}'), src,
                why='stage reads the shared chunk and writes only its private data')
    compare(ctx, 'C11.apply_pipeline', ctx.fa(f'{PAR}.apply_pipeline'), REF_APPLY,
            why='every stage of the pipeline is applied, in order, to the chunk of the key')
    for meth, src in (('__init__', REF_PIPE_INIT), ('__copy__', REF_PIPE_COPY), ('prepare', REF_PIPE_PREPARE),
                      ('pipe', REF_PIPE_PIPE), ('run', REF_PIPE_RUN), ('gather', REF_PIPE_GATHER), ('reduce', REF_PIPE_REDUCE)):
        compare(ctx, f'C11.pipe.{meth}', ctx.fa(f'{PAR}.MultiplexDataPipe.{meth}'), src,
                why='pipelines are extended on a copy with a copied stage list; run maps the pipeline over all keys; '
                    'results are consumed only by the fold / gather')
    compare(ctx, 'C11.getter', ctx.fa(f'{PAR}.chunkgetter.__call__'), REF_GETTER,
            why='a worker reads pixels[lo:hi] of exactly its span plus the whole bin table, under a paired lock')
    compare(ctx, 'C11.getter-init', ctx.fa(f'{PAR}.chunkgetter.__init__'), REF_GETTER_INIT, why='flags stored under their own names')
    compare(ctx, 'C11.split', ctx.fa(f'{PAR}.split'), REF_SPLIT,
            why='default spans partition [0, nnz); the caller\'s map is used')
    compare(ctx, 'C11.balance_cooler', ctx.fa('cooler._balance.balance_cooler'), REF_BALANCE,
            why='see C10; here: spans and the map reach every pipeline unchanged; fold with + from fresh zeros')
    compare(ctx, 'C11.cisonly', ctx.fa('cooler._balance._balance_cisonly'), REF_CISONLY,
            why='see C10; here: per-chromosome spans partition the pixel rows of the chromosome')
    common.lock_pairing(ctx, [f'{PAR}.chunkgetter.__call__'])
    folds(ctx)
    cli_map(ctx)


def span_rules(ctx):
    """E6-F: edges = arange(0, nnz + cs, cs); spans = adjacent pairs; None -> [(0, nnz)]."""
    R = 'C11.spans'
    fa = ctx.fa('cooler._balance.balance_cooler')
    sp = [e for e in calls(fa, 'cooler.parallel.split')]
    if not sp:
        ctx.unrec(R, 'split-calls', ctx.where(fa), reason='no split() call')
        return
    spans = T.get_kw(sp[0].term, 'spans')
    nnz = spec(ctx.repo, 'int(clr.info["nnz"])', {'clr': V('clr')})
    cs = V('chunksize')
    want = T.ite(T.cmp('is', cs, T.NONE), T.lst([T.tup([C(0), nnz])]),
                 T.call(G('list'), (('adj', T.call(G('np.arange'), (C(0), T.add(nnz, cs), cs))),)))
    ctx.eq(R, 'balance_cooler.spans', spans, want, ctx.where(fa, sp[0]),
           'edges 0, cs, 2cs, ... up to the first edge >= nnz, taken as adjacent pairs: every pixel in exactly one span')
    for k, e in enumerate(sp):
        ctx.eq(R, f'balance_cooler.split#{k + 1}.spans', T.get_kw(e.term, 'spans'), want, ctx.where(fa, e), 'every pass uses the same spans')
        ctx.eq(R, f'balance_cooler.split#{k + 1}.map', T.get_kw(e.term, 'map'), V('map'), ctx.where(fa, e), 'the caller\'s map')
    for q in ('_balance_genomewide', '_balance_transonly'):
        f = ctx.fa(f'cooler._balance.{q}')
        for k, e in enumerate(calls(f, 'cooler.parallel.split')):
            ctx.eq(R, f'{q}.spans', T.get_kw(e.term, 'spans'), V('spans'), ctx.where(f, e), 'the spans computed once by balance_cooler')
            ctx.eq(R, f'{q}.map', T.get_kw(e.term, 'map'), V('map'), ctx.where(f, e))


def purity(ctx):
    """E9: stages store only into their private data."""
    R = 'C11.stage-purity'
    stages = ['_binarize', '_zero_diags', '_zero_trans', '_zero_cis', '_timesouterproduct', '_marginalize']
    for name in stages:
        fa = ctx.fa(f'cooler._balance.{name}')
        data = V(fa.params[-1])
        chunk = V(fa.params[-2])
        bad = []
        for e in fa.events:
            if e.kind in ('store_sub', 'aug_sub', 'store_attr', 'aug_attr', 'del', 'store_global', 'store_nonlocal'):
                base = e.d.get('base')
                if e.kind in ('store_global', 'store_nonlocal'):
                    bad.append(f'{e.kind} {e.name}')
                elif base != data:
                    bad.append(f'{e.kind} into {T.show(base)}')
            if e.kind == 'call' and e.f[0] == 'attr' and e.f[2] in ('sort', 'fill', 'resize', 'put', 'itemset', 'update', 'pop', 'clear') \
                    and T.contains(e.f[1], chunk):
                bad.append(f'mutating call {T.show(e.term)[:80]}')
        ctx.check(not bad, R, name, ctx.where(fa), found=bad or 'stores only into data', expected='no store into the chunk, captured vectors, globals or attributes',
                  reason='a stage that writes the shared chunk or a captured vector makes the result depend on scheduling / repetition')
    fi = ctx.fa('cooler._balance._init')
    r = returns(fi)
    ok = bool(r) and r[-1].value[0] == 'call' and r[-1].value[1] in (G('np.copy'), G('np.array')) or \
        (bool(r) and r[-1].value[0] == 'call' and r[-1].value[1][0] == 'attr' and r[-1].value[1][2] in ('copy', 'astype'))
    ctx.check(ok, R, '_init-copies', ctx.where(fi), found=r[-1].value if r else None, expected='a copy of the count column',
              reason='the private data must not alias the chunk')


def folds(ctx):
    R = 'C11.fold'
    n = 0
    for q in ('balance_cooler', '_balance_genomewide', '_balance_cisonly', '_balance_transonly'):
        fa = ctx.fa(f'cooler._balance.{q}')
        for e in calls(fa, method='reduce'):
            n += 1
            ok = len(e.args) == 2 and e.args[0] == G('operator.add') and e.args[1][0] == 'call' and e.args[1][1] == G('np.zeros')
            ctx.check(ok, R, f'{q}#{n}', ctx.where(fa, e), found=[T.show(a) for a in e.args], expected='reduce(operator.add, np.zeros(n_bins))',
                      reason='a commutative, associative fold from a fresh neutral element admits any completion order')
    if n < 5:
        ctx.unrec(R, 'sites', found=n, reason='expected the five pipeline folds confirmed by reading')


def cli_map(ctx):
    R = 'C11.cli-map'
    fa = ctx.fa('cooler.cli.balance.balance')
    bc = calls(fa, 'cooler._balance.balance_cooler')
    if not bc:
        ctx.unrec(R, 'call', ctx.where(fa), reason='CLI no longer calls balance_cooler')
        return
    m = T.get_kw(bc[0].term, 'map')
    pool = T.call(G('mp.Pool'), (V('nproc'),))
    want = T.ite(T.cmp('>', V('nproc'), C(1)), T.attr(pool, 'imap_unordered'), G('map'))
    ok = m == want or (m is not None and m[0] == 'ite' and m[1] == T.cmp('>', V('nproc'), C(1)) and m[3] == G('map')
                       and m[2][0] == 'attr' and m[2][2] in ('imap_unordered', 'imap', 'map'))
    ctx.check(ok, R, 'map', ctx.where(fa, bc[0]), found=m, expected='pool.imap_unordered if nproc > 1 else map')
    for p in ('chunksize', 'cis_only', 'trans_only', 'tol', 'min_nnz', 'min_count', 'mad_max', 'max_iters'):
        ctx.eq(R, p, T.get_kw(bc[0].term, p), V(p), ctx.where(fa, bc[0]), 'option forwarded to the parameter of the same name')


_run_core = run


def run(ctx):
    _run_core(ctx)
    from . import refs_misc
    refs_misc.run_for(ctx, 'C11')
    from . import reflib
    reflib.run_for(ctx, 'C11')
