"""C04  Genomic ranges map to exactly the bins that cover them.

 1 rounding-direction typing of _region_to_extent (floor for the start, ceil
   for the end; last-start-<= / count-of-starts-< on the variable path, within
   the chromosome's own slice of the bin table)
 2 parse_region: defaults, refusals and their strictness
 3 every public entry goes through parse_region -> region_to_extent with the
   cooler's own tables; pixel fetch maps the extent through the row-offset
   index; matrix fetch takes rows from region, columns from region2
 4 the two overlap selectors on a bin frame agree with the overlap definition
 5 the arithmetic fast path is only taken when the bin size is true of every
   bin (shared with C20)
"""
from __future__ import annotations

from .. import terms as T
from ..facts import (C, G, V, arg, bind_call, calls, events, raises, returns, spec, spec_env, yields)
from . import common

META = {
    'explanation': (
        'Static decision of: rounding direction and chromosome-local slicing of the extent computation '
        '(normalised dataflow terms of the four yields compared with the reference derived from the '
        'overlap definition), the defaults/refusals of parse_region and their strictness, call-graph and '
        'argument provenance of every public entry (offset/extent, bins/pixels/matrix fetch), the two '
        'bin-frame overlap selectors, and the precondition of the arithmetic path (get_binsize inspects '
        'every bin). Not decided: float division for coordinates >= 2**53, numpy searchsorted itself.'),
    'not_decided': ['numerical behaviour of float division for coordinates >= 2**53',
                    'numpy searchsorted semantics', 'the degenerate empty range at start = end = length'],
}

RQ = 'cooler.core._rangequery'


def run(ctx):
    extent_rounding(ctx)
    parse_region_rules(ctx)
    entries(ctx)
    overlap_selectors(ctx)
    common.get_binsize_all_bins(ctx)


def extent_rounding(ctx):
    R = 'C04.1-rounding'
    fa = ctx.fa(f'{RQ}._region_to_extent')
    ys = yields(fa)
    env = spec_env(ctx.repo, '''
        chrom = region[0]
        start = region[1]
        end = region[2]
        cid = chrom_ids[chrom]
        base = h5["indexes"]["chrom_offset"][cid]
        nxt = h5["indexes"]["chrom_offset"][cid + 1]
        fixed_lo = base + start // binsize
        fixed_hi = base + (-(-end // binsize))
        starts = h5["bins"]["start"][base:nxt]
        var_lo = base + np.searchsorted(starts, start, "right") - 1
        var_hi = base + np.searchsorted(starts, end, "left")
    ''', {k: V(k) for k in ('h5', 'chrom_ids', 'region', 'binsize')}, RQ)
    fixed = T.cmp('is not', V('binsize'), T.NONE)
    got = {'fixed': [], 'var': []}
    for y in ys:
        if y.under(fixed):
            got['fixed'].append(y)
        elif y.under(fixed, False):
            got['var'].append(y)
        else:
            ctx.bad(R, 'dispatch', ctx.where(fa, y), found=[(T.show(c), p) for c, p in y.guards],
                    expected='path decided by "binsize is not None" only', key=f'{R}|dispatch')
    if len(got['fixed']) != 2 or len(got['var']) != 2:
        if 0 < len(ys) < 4 and not [y for y in ys if y.loops]:
            ctx.bad(R, 'yields', ctx.where(fa), found={k: len(v) for k, v in got.items()},
                    expected='(first bin, end bin) yielded on the fixed and on the variable path',
                    reason='a missing yield turns the extent into a 1-tuple / shifts end into start', key=f'{R}|yield-count')
        else:
            ctx.unrec(R, 'yields', ctx.where(fa), found={k: len(v) for k, v in got.items()},
                      reason='expected (start, end) yields on the fixed and on the variable path')
        return
    why = {
        'fixed_lo': 'first bin = offset of the chromosome + floor(start / binsize)',
        'fixed_hi': 'end bin (exclusive) = offset of the chromosome + ceil(end / binsize)',
        'var_lo': 'first bin = last bin of this chromosome whose start <= start',
        'var_hi': 'end bin (exclusive) = number of bins of this chromosome whose start < end',
    }
    for name, y in (('fixed_lo', got['fixed'][0]), ('fixed_hi', got['fixed'][1]),
                    ('var_lo', got['var'][0]), ('var_hi', got['var'][1])):
        ctx.eq(R, name, y.value, env[name], ctx.where(fa, y), why[name])
    for fn, wrap in (('region_to_offset', 'next'), ('region_to_extent', 'tuple')):
        f = ctx.fa(f'{RQ}.{fn}')
        r = returns(f)
        want = spec(ctx.repo, f'{wrap}(_region_to_extent(h5, chrom_ids, region, binsize))',
                    {k: V(k) for k in ('h5', 'chrom_ids', 'region', 'binsize')}, RQ)
        ctx.eq(R, fn, r[-1].value if r else None, want, ctx.where(f), 'arguments forwarded in order')


def parse_region_rules(ctx):
    R = 'C04.2-parse_region'
    fa = ctx.fa('cooler.util.parse_region')
    env = spec_env(ctx.repo, '''
        if isinstance(reg, str):
            chrom, start, end = parse_region_string(reg)
        else:
            chrom, start, end = reg
            start = int(start) if start is not None else start
            end = int(end) if end is not None else end
        clen = chromsizes[chrom] if chromsizes is not None else None
        start2 = 0 if start is None else start
        end2 = clen if end is None else end
        out = (chrom, start2, end2)
        reversed_ = end2 < start2
        oob = start2 < 0 or (clen is not None and end2 > clen)
        noend = end is None and clen is None
    ''', {'reg': V('reg'), 'chromsizes': V('chromsizes')})
    rets = returns(fa)
    ctx.eq(R, 'result', rets[-1].value if rets else None, env['out'], ctx.where(fa, rets[-1] if rets else None),
           'missing start -> 0, missing end -> chromosome length (tests on None, not truthiness: 0 is a coordinate)')
    rs = raises(fa)

    def raised_under(cond):
        for e in rs:
            conj = T.nary('and', tuple(c if p else T.not_(c) for c, p in e.guards if c[0] != 'unk'))
            if conj == cond or any((c == cond and p) for c, p in e.guards):
                return e
            # the raise may sit under nested ifs whose conjunction is the condition
            gs = []
            for c, p in e.cguards:
                if c[0] != 'unk':
                    t = c if p else T.not_(c)
                    gs.extend(t[1] if t[0] == 'and' else [t])
            if gs and T.nary('and', tuple(gs)) == cond:
                return e
        return None
    for name, cond, why in (
            ('reversed', env['reversed_'], 'end < start refused (equal is the legal empty range)'),
            ('out-of-bounds', env['oob'], 'start < 0 or end beyond the chromosome refused; end == length is legal (end is exclusive)'),
            ('no-end', env['noend'], 'an open end needs a chromosome length')):
        e = raised_under(cond)
        ctx.check(e is not None, R, f'refuses.{name}', ctx.where(fa, e), found=[[T.show(c) for c, p in x.guards if p][-1:] for x in rs],
                  expected=cond, reason=why)
    # unknown name: lookup inside try/except KeyError -> ValueError
    hk = [e for e in rs if any(part == 'handler' and 'KeyError' in types for types, part, _ in e.trys)]
    ctx.check(bool(hk), R, 'refuses.unknown-name', ctx.where(fa, hk[0] if hk else None), found=len(hk),
              expected='KeyError of the chromosome lookup re-raised as ValueError')
    from ..facts import exc_name
    ctx.check(all(exc_name(e) == 'ValueError' for e in rs), R, 'error-type', ctx.where(fa),
              found=sorted({exc_name(e) for e in rs}), expected=['ValueError'])
    # no early return that bypasses the checks
    ctx.check(len(rets) == 1 and not rets[0].cguards, R, 'single-exit',
              ctx.where(fa), found=len(rets), expected='one return, reached only past all refusals')


def _extent_call(ctx, fa, e, region_term, inst, R):
    b, _, _ = bind_call(ctx.repo, f'{RQ}.region_to_extent' if e.f[1].endswith('extent') else f'{RQ}.region_to_offset', e)
    slf = V('self')
    grp = b.get('h5')
    okg = grp is not None and grp[0] == 'sub' and grp[2] == T.attr(slf, 'root')
    ctx.check(okg, R, inst + '.group', ctx.where(fa, e), found=grp, expected='<opened store>[self.root]')
    ctx.eq(R, inst + '.chrom_ids', b.get('chrom_ids'), T.attr(slf, '_chromids'), ctx.where(fa, e))
    want_reg = T.call(G('cooler.util.parse_region'), (region_term, T.attr(slf, '_chromsizes')))
    ctx.eq(R, inst + '.region', b.get('region'), want_reg, ctx.where(fa, e),
           'the region is validated against this cooler\'s chromosome lengths before it is mapped to bins')
    bs = b.get('binsize')
    ctx.check(bs == T.attr(slf, 'binsize'), R, inst + '.binsize', ctx.where(fa, e), found=bs, expected='self.binsize')


def entries(ctx):
    R = 'C04.3-entries'
    region = V('region')
    for q, callee in (('cooler.api.Cooler.offset', 'region_to_offset'),
                      ('cooler.api.Cooler.extent', 'region_to_extent'),
                      ('cooler.api.Cooler.bins.<locals>._fetch', 'region_to_extent'),
                      ('cooler.api.Cooler.pixels.<locals>._fetch', 'region_to_extent')):
        fa = ctx.fa(q)
        cs = calls(fa, f'{RQ}.{callee}')
        short = q.replace('cooler.api.Cooler.', '').replace('.<locals>', '')
        if len(cs) != 1:
            ctx.bad(R, short + '.call', ctx.where(fa), found=len(cs), expected=f'one call to {callee}',
                    key=f'{R}|{short}|call-missing')
            continue
        _extent_call(ctx, fa, cs[0], region, short, R)
        r = returns(fa)
        if 'pixels' in q:
            ext = cs[0].term
            grp = bind_call(ctx.repo, f'{RQ}.region_to_extent', cs[0])[0].get('h5')
            idx = T.sub(T.sub(grp, C('indexes')), C('bin1_offset'))
            want = T.tup([T.sub(idx, T.sub(ext, C(0))), T.sub(idx, T.sub(ext, C(1)))])
            ctx.eq(R, short + '.rows', r[-1].value if r else None, want, ctx.where(fa, r[-1] if r else None),
                   'pixel rows of the extent = [bin1_offset[first bin], bin1_offset[end bin])')
        else:
            ctx.eq(R, short + '.result', r[-1].value if r else None, cs[0].term, ctx.where(fa, r[-1] if r else None))
    # property binsize reads the stored attribute
    fb = ctx.fa('cooler.api.Cooler.binsize')
    r = returns(fb)
    ctx.eq(R, 'binsize-property', r[-1].value if r else None, spec(ctx.repo, 'self._info["bin-size"]', {'self': V('self')}),
           ctx.where(fb), 'the fast path is selected by the recorded bin size')
    # matrix fetch
    fa = ctx.fa('cooler.api.Cooler.matrix.<locals>._fetch')
    cs = calls(fa, f'{RQ}.region_to_extent')
    if len(cs) != 2:
        ctx.bad(R, 'matrix._fetch.calls', ctx.where(fa), found=len(cs), expected='two extent computations',
                key=f'{R}|matrix._fetch|calls')
        return
    slf = V('self')
    r2 = T.ite(T.cmp('is', V('region2'), T.NONE), region, V('region2'))
    for k, (e, reg) in enumerate(zip(cs, (region, r2))):
        b, _, _ = bind_call(ctx.repo, f'{RQ}.region_to_extent', e)
        want_reg = T.call(G('cooler.util.parse_region'), (reg, T.attr(slf, '_chromsizes')))
        ctx.eq(R, f'matrix._fetch.region{k + 1}', b.get('region'), want_reg, ctx.where(fa, e),
               'rows from region, columns from region2 (default: region)')
        ctx.eq(R, f'matrix._fetch.chrom_ids{k + 1}', b.get('chrom_ids'), T.attr(slf, '_chromids'), ctx.where(fa, e))
        ctx.eq(R, f'matrix._fetch.binsize{k + 1}', b.get('binsize'), T.attr(slf, 'binsize'), ctx.where(fa, e))
    r = returns(fa)
    want = T.tup([T.sub(cs[0].term, C(0)), T.sub(cs[0].term, C(1)), T.sub(cs[1].term, C(0)), T.sub(cs[1].term, C(1))])
    ctx.eq(R, 'matrix._fetch.result', r[-1].value if r else None, want, ctx.where(fa, r[-1] if r else None),
           '(i0, i1, j0, j1) = row extent then column extent')
    # selectors pass the fetched extent to the slicer
    f1 = ctx.fa('cooler.core._selectors.RangeSelector1D.fetch')
    env = spec_env(ctx.repo, '''
        e = self._fetch(*args, **kwargs)
        out = self._slice(self.fields, e[0], e[1])
    ''', {'self': V('self'), 'args': V('args'), 'kwargs': V('kwargs')}, 'cooler.core._selectors')
    r = returns(f1)
    ctx.eq(R, 'RangeSelector1D.fetch', r[0].value if r else None, env['out'], ctx.where(f1), 'fetch = slice on the extent')
    from ..refcompare import compare
    from .C14 import REF_SEL_FETCH
    compare(ctx, 'C04.3-selector-fetch', f1, REF_SEL_FETCH, why='fetch = slice on the fetched extent (when a fetcher exists)')
    # the selector is constructed with that fetcher
    for q, name in (('cooler.api.Cooler.bins', 'bins'), ('cooler.api.Cooler.pixels', 'pixels')):
        fa = ctx.fa(q)
        cs = calls(fa, 'cooler.core._selectors.RangeSelector1D')
        ok = bool(cs) and len(cs[-1].args) >= 3 and cs[-1].args[1] == ('fn', ctx.repo.func(q + '.<locals>._slice').qualname) \
            and cs[-1].args[2] == ('fn', ctx.repo.func(q + '.<locals>._fetch').qualname)
        ctx.check(ok, R, f'{name}.selector', ctx.where(fa), found=cs[-1].term if cs else None,
                  expected='RangeSelector1D(None, _slice, _fetch, n)')
    fa = ctx.fa('cooler.api.Cooler.matrix')
    cs = calls(fa, 'cooler.core._selectors.RangeSelector2D')
    ok = bool(cs) and len(cs[-1].args) >= 3 and cs[-1].args[1] == ('fn', ctx.repo.func('cooler.api.Cooler.matrix.<locals>._slice').qualname) \
        and cs[-1].args[2] == ('fn', ctx.repo.func('cooler.api.Cooler.matrix.<locals>._fetch').qualname)
    ctx.check(ok, R, 'matrix.selector', ctx.where(fa), found=cs[-1].term if cs else None,
              expected='RangeSelector2D(field, _slice, _fetch, shape)')


def overlap_selectors(ctx):
    R = 'C04.4-overlap'
    for q, grouped, sizes in (('cooler.util.GenomeSegmentation.fetch', 'self._bins_grouped', 'self.chromsizes'),
                              ('cooler.util.bedslice', 'grouped', 'chromsizes')):
        fa = ctx.fa(q)
        envn = {'self': V('self'), 'grouped': V('grouped'), 'chromsizes': V('chromsizes'), 'region': V('region')}
        env = spec_env(ctx.repo, f'''
            reg = parse_region(region, {sizes})
            chrom = reg[0]
            start = reg[1]
            end = reg[2]
            result = {grouped}.get_group(chrom)
            lo = result["end"].values.searchsorted(start, side="right")
            hi = lo + result["start"].values[lo:].searchsorted(end, side="left")
            part = result.iloc[lo:hi]
            whole = not (start > 0 or end < {sizes}[chrom])
        ''', envn)
        r = returns(fa)
        v = r[-1].value if r else T.NONE
        short = q.split('.')[-2] + '.' + q.split('.')[-1] if 'Genome' in q else 'bedslice'
        # value = ite(partial, part, result)
        want = T.ite(T.not_(env['whole']), env['part'], env['result'])
        ctx.eq(R, short, v, want, ctx.where(fa, r[-1] if r else None),
               'bins overlapping [start, end): first = #bins with end <= start, count = #starts (from there) < end')


_run_core = run


def run(ctx):
    _run_core(ctx)
    from . import refs_misc
    refs_misc.run_for(ctx, 'C04')
    from . import reflib
    reflib.run_for(ctx, 'C04')
