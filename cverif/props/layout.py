"""E7 (a): agreement between the HDF5 layout written, the published schema
(docs/schema_v3.rst) and the recognisers."""
from __future__ import annotations

import ast
import os
import re

from .. import terms as T
from ..facts import C, G, V, arg, calls, events
from ..model import AnalysisError

SCHEMA_DTYPES = {'int32': 'int32', 'int64': 'int64', 'float64': 'float64'}


def parse_schema(root):
    """-> (tables: {group: {col: (dtype, section)}}, required_attrs: [..], optional_attrs)."""
    path = os.path.join(root, 'docs', 'schema_v3.rst')
    try:
        with open(path, encoding='utf-8') as fh:
            text = fh.read()
    except OSError as e:
        raise AnalysisError(f'published schema not found: {path}: {e}') from e
    tables = {}
    for m in re.finditer(r'^    (\w+): \{\n(.*?)^    \}', text, re.S | re.M):
        grp, body = m.group(1), m.group(2)
        cols = {}
        section = 'REQUIRED'
        for line in body.splitlines():
            line = line.strip()
            if line.startswith('#'):
                section = line.lstrip('# ').strip()
                continue
            mm = re.match(r'(\w+):\s+(.*?),?$', line)
            if mm:
                cols[mm.group(1)] = (mm.group(2).rstrip(','), section)
        tables.setdefault(grp, cols)
    # first "Required attributes" rubric (the data-collection level one)
    req, opt = [], []
    i = text.find('.. rubric:: Required attributes')
    j = text.find('.. rubric:: Reserved, but optional', i)
    k = text.find('\n\nAll scalar string attributes', j)
    if i < 0 or j < 0:
        raise AnalysisError('schema_v3.rst: attribute rubrics not found')
    req = re.findall(r'\.\. describe:: ([\w\-]+) :', text[i:j])
    opt = re.findall(r'\.\. describe:: ([\w\-]+) :', text[j:k if k > 0 else j + 2000])
    magic = re.search(r'describe:: format : string \(constant\)\s+"([^"]+)"', text)
    return tables, req, opt, (magic.group(1) if magic else None)


def _dtype_name(ctx, t):
    """Resolve a dtype term to a short name like 'int32' where possible."""
    if t is None:
        return None
    if t[0] == 'g':
        name = t[1]
        if name.startswith('np.'):
            return name[3:]
        if '.' in name:
            mod, nm = name.rsplit('.', 1)
            m = ctx.repo.modules.get(mod)
            if m is not None and nm in m.assigns:
                src = ast.unparse(m.assigns[nm])
                if src.startswith('np.dtype('):
                    return src[len('np.dtype('):-1].strip('\'"')
                return src[3:] if src.startswith('np.') else src
        return name
    if t[0] == 'attr' and t[2] == 'dtype':
        inner = t[1]
        # np.array(x, dtype=D).dtype
        if inner[0] == 'call':
            return _dtype_name(ctx, T.get_kw(inner, 'dtype'))
    if t[0] == 'call' and t[1][0] == 'attr' and t[1][2] == 'get' and len(t[2]) == 2:
        return _dtype_name(ctx, t[2][1])          # dtypes.get(name, DEFAULT)
    if t[0] == 'call' and t[1] == G('h5py.special_dtype'):
        return 'enum'
    if t[0] == 'ite':
        a, b = _dtype_name(ctx, t[2]), _dtype_name(ctx, t[3])
        return a if a == b else f'{a}|{b}'
    return T.show(t)


def writer_table(ctx):
    """{group: {dataset: dtype-name}} created by the creation path."""
    out = {}
    for grp, q in (('chroms', 'cooler.create._create.write_chroms'),
                   ('bins', 'cooler.create._create.write_bins'),
                   ('pixels', 'cooler.create._create.prepare_pixels'),
                   ('indexes', 'cooler.create._create.write_indexes')):
        fa = ctx.fa(q)
        cols = {}
        for e in calls(fa, method='create_dataset'):
            if e.f[1] != V('grp'):
                continue
            name = arg(e, 0)
            if name[0] == 'c':
                cols.setdefault(name[1], set()).add(_dtype_name(ctx, T.get_kw(e.term, 'dtype')))
        out[grp] = cols
    return out


def layout_agreement(ctx):
    R = 'C02.7-layout'
    tables, req, opt, magic = parse_schema(ctx.repo.root)
    ctx.units['schema_tables'] = sorted(tables)
    wt = writer_table(ctx)
    fc = ctx.fa('cooler.create._create.create')
    created = set()
    for e in calls(fc, method='create_group'):
        a = arg(e, 0)
        if a[0] == 'c':
            created.add(a[1])
    for grp in ('chroms', 'bins', 'pixels', 'indexes'):
        if grp not in tables:
            raise AnalysisError(f'schema_v3.rst does not describe table {grp}')
        ctx.check(grp in created, R, f'group[{grp}]', ctx.where(fc), found=sorted(created),
                  expected=f'create() makes the {grp} group of the schema')
        for col, (dt, section) in tables[grp].items():
            if section != 'REQUIRED' and not (grp == 'pixels' and col == 'count'):
                continue
            got = wt.get(grp, {}).get(col)
            ctx.check(got is not None, R, f'{grp}/{col}', found=sorted(wt.get(grp, {})),
                      expected=f'dataset {col} created in {grp}', reason='required by schema_v3')
            if got is None:
                continue
            base = dt.split('*')[-1].strip()
            if base in SCHEMA_DTYPES:
                ctx.check(got == {SCHEMA_DTYPES[base]}, R, f'{grp}/{col}.dtype', found=sorted(got),
                          expected=SCHEMA_DTYPES[base], reason='default dtype published in schema_v3')
            elif base.startswith('string'):
                ctx.check(got == {'S'}, R, f'{grp}/{col}.dtype', found=sorted(got), expected='S (fixed-length ASCII)')
            elif base.startswith('categorical'):
                ctx.check('enum' in ' '.join(sorted(got)) , R, f'{grp}/{col}.dtype', found=sorted(got),
                          expected='enum (integer-backed) with raw-int fallback')
    # recogniser: key tuple of _is_cooler == the four groups; magic == schema constant
    fr = ctx.fa('cooler.fileops._is_cooler')
    keys = None
    # the names the recogniser requires: a literal tuple / list of names wherever it is written (local, module constant,
    # iterated by all(...) / any(...))
    def terms_of(v):
        if T.is_term(v):
            yield from T.walk(v)
        elif isinstance(v, tuple):
            for y in v:
                yield from terms_of(y)
    for e in fr.events:
        for v in e.d.values():
            if not isinstance(v, tuple):
                continue
            for x in terms_of(v):
                if x[0] in ('tuple', 'list') and len(x[1]) >= 3 and all(y[0] == 'c' and isinstance(y[1], str) for y in x[1]):
                    keys = (keys or set()) | {y[1] for y in x[1]}
                # ... or already unrolled into one membership test per name:  'chroms' in grp.keys() and ...
                if x[0] == 'cmp' and x[1] in ('in', 'notin') and x[2][0] == 'c' and isinstance(x[2][1], str) \
                        and ((x[3][0] == 'call' and x[3][1][0] == 'attr' and x[3][1][2] == 'keys') or x[3][0] == 'v'):
                    keys = (keys or set()) | {x[2][1]}
    ctx.check(keys == {'chroms', 'bins', 'pixels', 'indexes'}, R, 'recogniser-keys', ctx.where(fr),
              found=sorted(keys or []), expected=['bins', 'chroms', 'indexes', 'pixels'],
              reason='the corruption warning of the recogniser must name the groups the writer makes')
    wmagic = ctx.repo.const_value('cooler.create.MAGIC')
    ctx.check(wmagic == magic, R, 'magic', found=wmagic, expected=magic,
              reason='format attribute written = constant published in the schema')
    # required attributes are written unconditionally by create()+write_info()
    fw = ctx.fa('cooler.create._create.write_info')
    uncond = set()
    anyw = set()
    for fa in (fc, fw):
        for e in events(fa, 'store_sub'):
            if e.key[0] == 'c' and isinstance(e.key[1], str):
                anyw.add(e.key[1])
                if not e.cguards:
                    uncond.add(e.key[1])
    # keys set in both arms of `if scool` count as unconditional
    for k in ('format', 'format-version'):
        arms = {p for e in events(fw, 'store_sub') if e.key == C(k) for c, p in e.guards if c == V('scool')}
        if arms == {True, False}:
            uncond.add(k)
    for k in req:
        ctx.check(k in uncond, R, f'attr[{k}]', ctx.where(fc), found='written' if k in anyw else 'not written',
                  expected='written on every path', reason='required attribute of schema_v3')
    for k in ('nbins', 'nnz', 'nchroms', 'sum'):
        ctx.check(k in uncond, R, f'attr[{k}]', ctx.where(fc), found='written' if k in anyw else 'not written',
                  expected='written on every path', reason='read by Cooler.info / selectors')
    return tables, wt
