"""Rules shared by several properties."""
from __future__ import annotations

from .. import terms as T
from ..facts import (C, G, V, arg, bind_call, calls, events, receiver, returns, spec, yields)
from ..symeval import mk_elem


def base_chunk(t):
    """Look through  X if not isinstance(X, DataFrame) else <dict view of X>."""
    while t[0] == 'ite':
        c, a, b = t[1], t[2], t[3]
        if c[0] == 'call' and c[1] == G('isinstance') and len(c[2]) == 2:
            x = c[2][0]
            if b == x and T.contains(a, x):
                t = x
                continue
            if a == x and T.contains(b, x):
                t = x
                continue
        break
    return t


def norm_chunk(t):
    return T.transform(t, lambda x: base_chunk(x) if x[0] == 'ite' else None)


def _is_emptiness_filter(cond, n):
    """cond only compares the chunk length n with 0."""
    if cond[0] == 'cmp' and (cond[2] == n or cond[3] == n) and (cond[2] == C(0) or cond[3] == C(0)):
        return True
    if cond == n or cond == T.not_(n):
        return True
    return False


def write_pixels_append(ctx, prop):
    """E6-(E) running-offset append in create._create.write_pixels."""
    fa = ctx.fa('cooler.create._create.write_pixels')
    R = 'WP.append'
    stores = [e for e in events(fa, 'store_sub') if e.key[0] == 'slice' and e.loops]
    if not stores:
        ctx.unrec(R, 'store', ctx.where(fa), reason='no sliced store into a dataset inside a loop '
                  '(accepted skeleton: for chunk in stream: for col: dset[acc:acc+n] = chunk[col]; acc += n)')
        return None
    info = None
    for k, e in enumerate(stores):
        Lout = fa.loops[e.loops[0]]
        lo, hi = e.key[1], e.key[2]
        inst = f'store#{k}'
        w = ctx.where(fa, e)
        if not (lo[0] == 'phi' and lo[1] == Lout.id):
            ctx.bad(R, inst + '.lower', w, found=lo, expected='the running offset carried by the chunk loop',
                    reason='each chunk must be stored where the previous one ended',
                    key=f'{R}|lower|{T.show(lo)}')
            continue
        acc = lo[2]
        init, step = Lout.carried.get(acc, (None, None))
        ctx.eq(R, inst + '.init', init, C(0), w, 'the running offset starts at 0')
        n = T.sub_(hi, lo)
        nn = norm_chunk(n)
        # n must be the length of a column of the current chunk
        chunk = None
        if nn[0] == 'call' and nn[1] == G('len') and len(nn[2]) == 1 and nn[2][0][0] == 'sub':
            chunk = nn[2][0][1]
        okn = chunk is not None and chunk[0] == 'elem' and chunk[2] == Lout.id and chunk[1][0] == 'v' \
            and chunk[1][1] in fa.params
        ctx.check(okn, R, inst + '.length', w, found=n, expected='len(<chunk>[<column>]) of the current chunk',
                  reason='the slice stored must be exactly as long as the chunk')
        ctx.eq(R, inst + '.advance', step, hi, w,
               'offset advances once per chunk by exactly the stored length (acc := acc + n)')
        # value stored: chunk[col] into grp[col] for the same col ranging over `columns`
        val = norm_chunk(e.value)
        base = e.base
        okv = (val[0] == 'sub' and chunk is not None and val[1] == chunk and base[0] == 'sub'
               and base[2] == val[2])
        ctx.check(okv, R, inst + '.same-column', w, found=f'{T.show(base)} <- {T.show(val)}',
                  expected='grp[col][acc:acc+n] = chunk[col] for the same col',
                  reason='every column must receive its own data')
        if okv:
            col = val[2]
            okc = col[0] == 'elem' and col[1][0] == 'v' and col[1][1] in fa.params and col[2] in e.loops
            ctx.check(okc, R, inst + '.all-columns', w, found=col, expected='col ranges over the whole `columns` argument',
                      reason='all described columns must be written with the same slice')
            grp = base[1]
            okg = T.contains(grp, V('grouppath')) or any(T.contains(grp, V(p)) for p in fa.params[:2])
            ctx.check(okg, R, inst + '.target-group', w, found=grp, expected='the group named by the grouppath argument')
        # no conditional skip other than an emptiness filter
        bad_g = [(c, p) for c, p in e.guards if not _is_emptiness_filter(norm_chunk(c), nn)
                 and not (c[0] == 'cmp' and c[1] in ('is', 'isnot') and T.contains(c, V('lock')))]
        ctx.check(not bad_g, R, inst + '.unconditional', w, found=[(T.show(c), p) for c, p in bad_g],
                  expected='store not guarded (except by an emptiness filter)',
                  reason='a skipped chunk loses pixels')
        # resize to the same upper bound precedes the store
        rs = [r for r in calls(fa, method='resize') if receiver(r) == base and r.loops == e.loops]
        if rs:
            ctx.eq(R, inst + '.resize', arg(rs[0], 0), T.tup([hi]), ctx.where(fa, rs[0]),
                   'dataset grown to exactly the new running offset')
            ctx.check(rs[0].idx < e.idx, R, inst + '.resize-first', ctx.where(fa, rs[0]), found='resize after store' if rs[0].idx > e.idx else 'ok',
                      expected='resize before store')
        info = (Lout, acc, hi, chunk)
    # skips inside the chunk loop
    if info:
        Lout, acc, hi, chunk = info
        sk = [e for e in events(fa, ('continue', 'break')) if e.loops and e.loops[0] == Lout.id
              and len(e.loops) == 1]
        n = T.sub_(hi, ('phi', Lout.id, acc))
        bad = [e for e in sk if not all(_is_emptiness_filter(norm_chunk(c), norm_chunk(n)) or
                                        _is_emptiness_filter(norm_chunk(c), C(0)) for c, p in e.guards[-1:])]
        ctx.check(not bad, R, 'no-skip', ctx.where(fa, bad[0] if bad else None),
                  found=[f'{e.kind}@{e.line}' for e in bad], expected='no continue/break in the chunk loop',
                  reason='a skipped chunk loses pixels')
        # returned nnz is the running offset after the loop
        rets = returns(fa)
        okr = False
        for r in rets:
            v = r.value
            first = v[1][0] if v[0] == 'tuple' and v[1] else v
            if first[0] == 'after' and first[1] == Lout.id and first[2] == acc:
                okr = True
                found = first
        ctx.check(okr and len(rets) >= 1, R, 'returned-nnz', ctx.where(fa, rets[-1] if rets else None),
                  found=[T.show(r.value) for r in rets], expected=f'({acc} after the loop, total)',
                  reason='the recorded nnz must be the running offset = number of records stored')
        # total: accumulated chunk["count"].sum()
        for r in rets:
            v = r.value
            if v[0] == 'tuple' and len(v[1]) == 2:
                tot = v[1][1]
                ok = False
                if tot[0] == 'after' and tot[1] == Lout.id:
                    init, step = tot[3], norm_chunk(tot[4])
                    want = T.add(('phi', Lout.id, tot[2]),
                                 T.call(T.attr(T.sub(chunk, C('count')), 'sum'))) if chunk else None
                    # the conditional accumulation  total += chunk["count"].sum() if "count" in chunk
                    if step[0] == 'ite':
                        c, a, b = step[1], step[2], step[3]
                        ok = (a == want and b == ('phi', Lout.id, tot[2])
                              and norm_chunk(c) == T.cmp('in', C('count'), chunk) and init == C(0))
                    else:
                        ok = step == want and init == C(0)
                ctx.check(ok, R, 'returned-total', ctx.where(fa, r), found=tot[4] if tot[0] == 'after' else tot,
                          expected='total += chunk["count"].sum() (when the chunk has a count column), from 0',
                          reason='the recorded sum attribute must be the sum of the stored counts')
    return info


def codec_agreement(ctx):
    """C01 #7: the reader decodes exactly the attribute keys the writer encoded."""
    R = 'C01.7-codec'
    fw = ctx.fa('cooler.create._create.write_info')
    enc = set()
    for e in events(fw, 'store_sub'):
        if e.value[0] == 'call' and e.value[1] in (G('json.dumps'),) and e.key[0] == 'c':
            enc.add(e.key[1])
    fr = ctx.fa('cooler.api.info')
    loads = calls(fr, 'json.loads')
    if not loads:
        ctx.unrec(R, 'reader', ctx.where(fr), reason='api.info no longer calls json.loads')
        return
    for e in loads:
        # which attribute keys can reach the decode?  look for a guard on the key variable
        keyvars = [mk_elem(l.iter, l.id, (0,)) for l in fr.loops.values()]
        restricted = [c for c, p in e.guards if any(T.contains(c, kv) for kv in keyvars)]
        if restricted:
            ctx.ok(R, 'decode-set', ctx.where(fr, e), found=[T.show(c) for c in restricted],
                   expected=f'decode restricted to the encoded keys {sorted(enc)}')
        else:
            ctx.bad(R, 'decode-set', ctx.where(fr, e),
                    found='json.loads applied to every string attribute',
                    expected=f'json.loads applied only to the JSON-encoded attributes {sorted(enc)}',
                    reason='a plain string attribute that happens to be a JSON literal (assembly "123", "true", '
                           '"null") comes back as a number/bool/None',
                    key='C01.7-codec|cooler.api.info|blanket-json-decode')
    ctx.check('metadata' in enc, R, 'encode-set', ctx.where(fw), found=sorted(enc), expected="contains 'metadata'",
              reason='the metadata document must be JSON-encoded (HDF5 attributes cannot hold dicts)')


def table_get_slices(ctx):
    """C14 #1 / C01 #8: core._tableops.get slices every decoded column with the
    same [lo:hi] and labels rows lo .. lo+len-1."""
    R = 'TBL.get'
    fa = ctx.fa('cooler.core._tableops.get')
    sts = [e for e in events(fa, 'store_sub') if e.loops]
    if not sts:
        ctx.unrec(R, 'stores', ctx.where(fa), reason='no per-field store found in get()')
        return
    want_slice = T.slice_(V('lo'), V('hi'))
    n = 0
    for e in sts:
        field = e.key
        L = fa.loops[e.loops[-1]]
        # every dataset read in the stored value must be dset[lo:hi] with dset = grp[field]
        reads = [x for x in T.walk(e.value) if x[0] == 'sub' and x[1] == T.sub(V('grp'), field)]
        n += 1
        br = ' & '.join(('' if p else 'not ') + T.show(c) for c, p in e.guards) or 'always'
        ok = bool(reads) and all(x[2] == want_slice for x in reads)
        ctx.check(ok, R, f'branch#{n}', ctx.where(fa, e), found=[T.show(x) for x in reads] or T.show(e.value),
                  expected='grp[field][lo:hi]', reason=f'decode branch ({br[:80]}) must read the requested row range')
        okf = field[0] == 'elem' and field[2] == L.id
        ctx.check(okf, R, f'branch#{n}.key', ctx.where(fa, e), found=field, expected='data[field] for the loop field')
    if n < 3:
        ctx.unrec(R, 'branches', ctx.where(fa), found=n, reason='expected the enum, bytes and plain decode branches')
    # index = arange(lo, lo + len(first column))
    idx = [e for e in events(fa, 'assign') if e.name == 'index' and e.value != T.NONE]
    pat = spec(ctx.repo, 'np.arange(lo, lo + len(Q_first))', {'lo': V('lo')}, 'cooler.core._tableops')
    ok = any(T.match(pat, e.value) is not None for e in idx)
    ctx.check(ok, R, 'index', ctx.where(fa, idx[0] if idx else None), found=[T.show(e.value) for e in idx],
              expected='np.arange(lo, lo + len(<first column>))', reason='rows are labelled with their row numbers')
    # the loop ranges over all requested fields
    for L in fa.loops.values():
        if L.kind == 'for':
            ctx.check(L.iter[0] in ('ite', 'v', 'call', 'list') and not (L.has_break or L.has_continue), R, 'all-fields',
                      ctx.where(fa), found=T.show(L.iter), expected='loop over all fields, no skip')
    # series: a single string field returns that field
    rets = returns(fa)
    ser = [r for r in rets if r.value[0] == 'call' and r.value[1] == G('pd.Series')]
    if ser:
        a0 = arg(calls(fa, 'pd.Series')[-1], 0)
        ok = a0[0] == 'sub' and a0[2] in (T.sub(T.lst([V('fields')]), C(0)), V('fields')) or \
            (a0[0] == 'sub' and T.show(a0[2]).startswith('fields') or 'fields' in T.show(a0[2]))
        ctx.check(ok, R, 'series-field', ctx.where(fa, ser[-1]), found=a0, expected='data[fields[0]]')
