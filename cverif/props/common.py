"""Rules shared by several properties."""
from __future__ import annotations

from .. import terms as T
from ..facts import (C, G, V, arg, bind_call, calls, events, receiver, returns, spec, spec_env,
                     yields)
from ..symeval import mk_elem


def base_chunk(t):
    """Look through  X if not isinstance(X, DataFrame) else <dict view of X>."""
    while t[0] == 'ite':
        c, a, b = t[1], t[2], t[3]
        if c[0] == 'call' and c[1] == G('isinstance') and len(c[2]) == 2:
            x = c[2][0]
            if b == x and T.contains(a, x):
                t = x
                continue
            if a == x and T.contains(b, x):
                t = x
                continue
        break
    return t


def norm_chunk(t):
    return T.transform(t, lambda x: base_chunk(x) if x[0] == 'ite' else None)


def _is_emptiness_filter(cond, n):
    """cond only compares the chunk length n with 0."""
    if cond[0] == 'cmp' and (cond[2] == n or cond[3] == n) and (cond[2] == C(0) or cond[3] == C(0)):
        return True
    if cond == n or cond == T.not_(n):
        return True
    return False


def write_pixels_append(ctx, prop):
    """E6-(E) running-offset append in create._create.write_pixels."""
    fa = ctx.fa('cooler.create._create.write_pixels')
    R = 'WP.append'
    stores = [e for e in events(fa, 'store_sub') if e.key[0] == 'slice' and e.loops]
    if not stores:
        ctx.unrec(R, 'store', ctx.where(fa), reason='no sliced store into a dataset inside a loop '
                  '(accepted skeleton: for chunk in stream: for col: dset[acc:acc+n] = chunk[col]; acc += n)')
        return None
    info = None
    for k, e in enumerate(stores):
        Lout = fa.loops[e.loops[0]]
        lo, hi = e.key[1], e.key[2]
        inst = f'store#{k}'
        w = ctx.where(fa, e)
        if not (lo[0] == 'phi' and lo[1] == Lout.id):
            ctx.bad(R, inst + '.lower', w, found=lo, expected='the running offset carried by the chunk loop',
                    reason='each chunk must be stored where the previous one ended',
                    key=f'{R}|lower|{T.show(lo)}')
            continue
        acc = lo[2]
        init, step = Lout.carried.get(acc, (None, None))
        ctx.eq(R, inst + '.init', init, C(0), w, 'the running offset starts at 0')
        n = T.sub_(hi, lo)
        nn = norm_chunk(n)
        # n must be the length of a column of the current chunk
        chunk = None
        if nn[0] == 'call' and nn[1] == G('len') and len(nn[2]) == 1 and nn[2][0][0] == 'sub':
            chunk = nn[2][0][1]
        okn = chunk is not None and chunk[0] == 'elem' and chunk[2] == Lout.id and chunk[1][0] == 'v' \
            and chunk[1][1] in fa.params
        ctx.check(okn, R, inst + '.length', w, found=n, expected='len(<chunk>[<column>]) of the current chunk',
                  reason='the slice stored must be exactly as long as the chunk')
        ctx.eq(R, inst + '.advance', step, hi, w,
               'offset advances once per chunk by exactly the stored length (acc := acc + n)')
        # value stored: chunk[col] into grp[col] for the same col ranging over `columns`
        val = norm_chunk(e.value)
        base = e.base
        okv = (val[0] == 'sub' and chunk is not None and val[1] == chunk and base[0] == 'sub'
               and base[2] == val[2])
        ctx.check(okv, R, inst + '.same-column', w, found=f'{T.show(base)} <- {T.show(val)}',
                  expected='grp[col][acc:acc+n] = chunk[col] for the same col',
                  reason='every column must receive its own data')
        if okv:
            col = val[2]
            okc = col[0] == 'elem' and col[1][0] == 'v' and col[1][1] in fa.params and col[2] in e.loops
            ctx.check(okc, R, inst + '.all-columns', w, found=col, expected='col ranges over the whole `columns` argument',
                      reason='all described columns must be written with the same slice')
            grp = base[1]
            okg = T.contains(grp, V('grouppath')) or any(T.contains(grp, V(p)) for p in fa.params[:2])
            ctx.check(okg, R, inst + '.target-group', w, found=grp, expected='the group named by the grouppath argument')
        # no conditional skip other than an emptiness filter
        bad_g = [(c, p) for c, p in e.cguards if not _is_emptiness_filter(norm_chunk(c), nn)
                 and not (c[0] == 'cmp' and c[1] in ('is', 'isnot') and T.contains(c, V('lock')))]
        ctx.check(not bad_g, R, inst + '.unconditional', w, found=[(T.show(c), p) for c, p in bad_g],
                  expected='store not guarded (except by an emptiness filter)',
                  reason='a skipped chunk loses pixels')
        # resize to the same upper bound precedes the store
        rs = [r for r in calls(fa, method='resize') if receiver(r) == base and r.loops == e.loops]
        if rs:
            ctx.eq(R, inst + '.resize', arg(rs[0], 0), T.tup([hi]), ctx.where(fa, rs[0]),
                   'dataset grown to exactly the new running offset')
            ctx.check(rs[0].idx < e.idx, R, inst + '.resize-first', ctx.where(fa, rs[0]), found='resize after store' if rs[0].idx > e.idx else 'ok',
                      expected='resize before store')
        info = (Lout, acc, hi, chunk)
    # skips inside the chunk loop
    if info:
        Lout, acc, hi, chunk = info
        sk = [e for e in events(fa, ('continue', 'break')) if e.loops and e.loops[0] == Lout.id
              and len(e.loops) == 1]
        n = T.sub_(hi, ('phi', Lout.id, acc))
        bad = [e for e in sk if e.kind == 'break' or not all(
            _is_emptiness_filter(norm_chunk(c), norm_chunk(n)) or _is_emptiness_filter(norm_chunk(c), C(0))
            for c, p in e.guards[-1:])]
        ctx.check(not bad, R, 'no-skip', ctx.where(fa, bad[0] if bad else None),
                  found=[f'{e.kind}@{e.line}' for e in bad], expected='no break, and no continue other than on an empty chunk, in the chunk loop',
                  reason='a skipped chunk - or everything after an early break - loses pixels')
        # returned nnz is the running offset after the loop
        rets = returns(fa)
        okr = False
        for r in rets:
            v = r.value
            first = v[1][0] if v[0] == 'tuple' and v[1] else v
            if first[0] == 'after' and first[1] == Lout.id and first[2] == acc:
                okr = True
                found = first
        ctx.check(okr and len(rets) >= 1, R, 'returned-nnz', ctx.where(fa, rets[-1] if rets else None),
                  found=[T.show(r.value) for r in rets], expected=f'({acc} after the loop, total)',
                  reason='the recorded nnz must be the running offset = number of records stored')
        # total: accumulated chunk["count"].sum()
        for r in rets:
            v = r.value
            if v[0] == 'tuple' and len(v[1]) == 2:
                tot = v[1][1]
                ok = False
                if tot[0] == 'after' and tot[1] == Lout.id:
                    init, step = tot[3], norm_chunk(tot[4])
                    want = T.add(('phi', Lout.id, tot[2]),
                                 T.call(T.attr(T.sub(chunk, C('count')), 'sum'))) if chunk else None
                    # the conditional accumulation  total += chunk["count"].sum() if "count" in chunk
                    if step[0] == 'ite':
                        c, a, b = step[1], step[2], step[3]
                        ok = (a == want and b == ('phi', Lout.id, tot[2])
                              and norm_chunk(c) == T.cmp('in', C('count'), chunk) and init == C(0))
                    else:
                        ok = step == want and init == C(0)
                ctx.check(ok, R, 'returned-total', ctx.where(fa, r), found=tot[4] if tot[0] == 'after' else tot,
                          expected='total += chunk["count"].sum() (when the chunk has a count column), from 0',
                          reason='the recorded sum attribute must be the sum of the stored counts')
    return info


def codec_agreement(ctx):
    """C01 #7: the reader decodes exactly the attribute keys the writer encoded."""
    R = 'C01.7-codec'
    fw = ctx.fa('cooler.create._create.write_info')
    enc = set()
    for e in events(fw, 'store_sub'):
        if e.value[0] == 'call' and e.value[1] in (G('json.dumps'),) and e.key[0] == 'c':
            enc.add(e.key[1])
    fr = ctx.fa('cooler.api.info')
    loads = calls(fr, 'json.loads')
    if not loads:
        ctx.unrec(R, 'reader', ctx.where(fr), reason='api.info no longer calls json.loads')
        return
    for e in loads:
        # which attribute keys can reach the decode?  look for a guard on the key variable
        keyvars = [mk_elem(l.iter, l.id, (0,)) for l in fr.loops.values()]
        restricted = [c for c, p in e.guards if any(T.contains(c, kv) for kv in keyvars)]
        if restricted:
            ctx.ok(R, 'decode-set', ctx.where(fr, e), found=[T.show(c) for c in restricted],
                   expected=f'decode restricted to the encoded keys {sorted(enc)}')
        else:
            ctx.bad(R, 'decode-set', ctx.where(fr, e),
                    found='json.loads applied to every string attribute',
                    expected=f'json.loads applied only to the JSON-encoded attributes {sorted(enc)}',
                    reason='a plain string attribute that happens to be a JSON literal (assembly "123", "true", '
                           '"null") comes back as a number/bool/None',
                    key='C01.7-codec|cooler.api.info|blanket-json-decode')
    ctx.check('metadata' in enc, R, 'encode-set', ctx.where(fw), found=sorted(enc), expected="contains 'metadata'",
              reason='the metadata document must be JSON-encoded (HDF5 attributes cannot hold dicts)')


def table_get_slices(ctx):
    """C14 #1 / C01 #8: core._tableops.get slices every decoded column with the
    same [lo:hi] and labels rows lo .. lo+len-1."""
    R = 'TBL.get'
    fa = ctx.fa('cooler.core._tableops.get')
    sts = [e for e in events(fa, 'store_sub') if e.loops]
    if not sts:
        ctx.unrec(R, 'stores', ctx.where(fa), reason='no per-field store found in get()')
        return
    want_slice = T.slice_(V('lo'), V('hi'))
    n = 0

    def arms(v):
        # the decode alternatives of one store written as a conditional value (e.g. through a helper that returns per case)
        return arms(v[2]) + arms(v[3]) if v[0] == 'ite' else [v]
    n_arms = 0
    for e in sts:
        field = e.key
        L = fa.loops[e.loops[-1]]
        # every dataset read in the stored value must be dset[lo:hi] with dset = grp[field]
        reads = [x for x in T.walk(e.value) if x[0] == 'sub' and x[1] == T.sub(V('grp'), field)]
        n += 1
        alts = [a for a in arms(e.value) if a != T.NONE]     # (the implicit fall-through of a helper whose cases all return)
        n_arms += len(alts)
        br = ' & '.join(('' if p else 'not ') + T.show(c) for c, p in e.guards) or 'always'
        ok = bool(reads) and all(x[2] == want_slice for x in reads) \
            and all(any(x[0] == 'sub' and x[1] == T.sub(V('grp'), field) for x in T.walk(a)) for a in alts)
        ctx.check(ok, R, f'branch#{n}', ctx.where(fa, e), found=[T.show(x) for x in reads] or T.show(e.value),
                  expected='grp[field][lo:hi]', reason=f'decode branch ({br[:80]}) must read the requested row range')
        okf = field[0] == 'elem' and field[2] == L.id
        ctx.check(okf, R, f'branch#{n}.key', ctx.where(fa, e), found=field, expected='data[field] for the loop field')
    if n_arms < 3:
        ctx.unrec(R, 'branches', ctx.where(fa), found=n_arms, reason='expected the enum, bytes and plain decode branches')
    # index = arange(lo, lo + len(first column))
    # (found through its consumer - the index= argument of the frame / series that is returned -
    # not through the name of a local variable)
    idx_terms = []
    for r0 in returns(fa):
        for x in T.walk(r0.value):
            if x[0] == 'call' and x[1] in (G('pd.DataFrame'), G('pd.Series')):
                it = T.get_kw(x, 'index')
                if it is not None:
                    idx_terms.append(it)
    pat = spec(ctx.repo, 'np.arange(lo, lo + len(Q_first))', {'lo': V('lo')}, 'cooler.core._tableops')
    ok = bool(idx_terms) and all(any(T.match(pat, y) is not None for y in T.walk(it)) for it in idx_terms)
    ctx.check(ok, R, 'index', ctx.where(fa), found=[T.show(t)[:120] for t in idx_terms],
              expected='np.arange(lo, lo + len(<first column>))', reason='rows are labelled with their row numbers')
    # the loop ranges over all requested fields
    for L in fa.loops.values():
        if L.kind == 'for':
            ctx.check(L.iter[0] in ('ite', 'v', 'call', 'list') and not (L.has_break or L.has_continue), R, 'all-fields',
                      ctx.where(fa), found=T.show(L.iter), expected='loop over all fields, no skip')
    # series: a single string field returns that field
    rets = returns(fa)
    ser = [r for r in rets if r.value[0] == 'call' and r.value[1] == G('pd.Series')]
    if ser:
        a0 = arg(calls(fa, 'pd.Series')[-1], 0)
        ok = a0[0] == 'sub' and a0[2] in (T.sub(T.lst([V('fields')]), C(0)), V('fields')) or \
            (a0[0] == 'sub' and T.show(a0[2]).startswith('fields') or 'fields' in T.show(a0[2]))
        ctx.check(ok, R, 'series-field', ctx.where(fa, ser[-1]), found=a0, expected='data[fields[0]]')


# ---------------------------------------------------------------------------
# class attribute resolver

def class_attr(ctx, cls_qual, name, method='__init__'):
    """Last value stored to self.<name> in cls.__init__ (term over its params)."""
    fa = ctx.fa(cls_qual + '.' + method)
    st = [e for e in events(fa, 'store_attr') if e.base == V('self') and e.attr == name]
    return (st[-1].value, fa, st[-1]) if st else (None, fa, None)


def norm_frame(t):
    """pd.DataFrame(X) -> X (so that 'chunk as frame' and 'chunk' compare equal)."""
    def f(x):
        if x[0] == 'call' and x[1] == G('pd.DataFrame') and len(x[2]) == 1 and not x[3]:
            return x[2][0]
        return None
    return T.transform(t, f)


# ---------------------------------------------------------------------------
# C02 #3: run-length offsets template

def index_template(ctx, qual, col, tot):
    R = 'IDX.rle-offsets'
    fa = ctx.fa(qual)
    short = qual.split('.')[-2] + '.' + qual.split('.')[-1] if qual.endswith('__init__') else qual.split('.')[-1]
    RL = G('cooler.util.rlencode')
    loops = [l for l in fa.loops.values() if l.kind == 'for' and l.iter is not None
             and any(x[0] == 'call' and x[1] == RL for x in T.walk(l.iter))]
    if not loops:
        # alternative accepted skeleton: searchsorted(col, arange(n + 1))
        alt = [e for e in events(fa, ('return', 'store_attr')) if any(
            x[0] == 'ss' and x[2][0] == 'call' and x[2][1] == G('np.arange') for x in T.walk(e.d.get('value', T.NONE)))]
        if alt:
            ctx.ok(R, short + '.skeleton', ctx.where(fa), found='searchsorted(col, arange(n+1))', expected='accepted alternative')
            ctx.assume(f'{short}: searchsorted-based index builder accepted without parameter check')
            return
        ctx.unrec(R, short + '.skeleton', ctx.where(fa),
                  reason='neither the run-length walk nor searchsorted(col, arange(n+1)) found')
        return
    L = loops[0]
    rl = [x for x in T.walk(L.iter) if x[0] == 'call' and x[1] == RL][0]
    w = ctx.where(fa)
    ok_it = L.iter == T.call(G('zip'), (('star', rl),))
    ctx.check(ok_it, R, short + '.runs', w, found=L.iter, expected='zip(*rlencode(<column>))',
              reason='the walk must see (start, length, value) of every run')
    start = mk_elem(L.iter, L.id, (0,))
    value = mk_elem(L.iter, L.id, (2,))
    ins = [e for e in events(fa, 'store_sub') if e.loops == (L.id,) and e.key[0] == 'slice']
    if len(ins) != 1:
        ctx.bad(R, short + '.fill', w, found=f'{len(ins)} sliced stores in the run loop', expected='exactly one',
                key=f'{R}|{short}|fill-count')
        return
    e = ins[0]
    lo, hi = e.key[1], e.key[2]
    curr = lo[2] if lo[0] == 'phi' and lo[1] == L.id else None
    ctx.check(curr is not None, R, short + '.fill.lower', ctx.where(fa, e), found=lo,
              expected='the carried cursor (first id not yet filled)')
    ctx.eq(R, short + '.fill.upper', hi, T.add(value, C(1)), ctx.where(fa, e),
           'ids up to and including the run value get the run start (ids of empty rows in between point at the next run)')
    ctx.eq(R, short + '.fill.value', e.value, start, ctx.where(fa, e), 'offset of id = start of its run')
    if curr:
        init, step = L.carried.get(curr, (None, None))
        ctx.eq(R, short + '.cursor.init', init, C(0), ctx.where(fa, e))
        ctx.eq(R, short + '.cursor.step', step, T.add(value, C(1)), ctx.where(fa, e),
               'cursor moves past the run value')
    ctx.check(not e.cguards and not L.has_break and not L.has_continue, R, short + '.no-skip', ctx.where(fa, e),
              found=[(T.show(c), p) for c, p in e.cguards], expected='every run handled')
    base = e.base
    # tail fill after the loop
    tails = [t for t in events(fa, 'store_sub') if not t.loops and t.idx > e.idx and t.key[0] == 'slice'
             and t.key[2] == T.NONE]
    if not tails:
        ctx.bad(R, short + '.tail', w, found='no tail fill after the run loop',
                expected='offset[cursor:] = total', reason='ids after the last run (and the closing entry) must hold the table length',
                key=f'{R}|{short}|tail-missing')
        return
    t = tails[-1]
    okt = t.key[1][0] == 'after' and t.key[1][1] == L.id and t.key[1][2] == curr
    ctx.check(okt, R, short + '.tail.lower', ctx.where(fa, t), found=t.key[1], expected='the cursor after the loop')
    same_base = (t.base == base) or (T.show(t.base) == T.show(base)) or \
        (t.base[0] == 'call' and base[0] == 'attr') or (base[0] == 'call' and t.base[0] == 'attr')
    ctx.check(same_base, R, short + '.tail.array', ctx.where(fa, t), found=t.base, expected=base)
    # array length n + 1 and totals
    zs = [z for z in calls(fa, 'np.zeros')]
    n_term = None
    if zs:
        a0 = arg(zs[0], 0)
        n_term = T.sub_(a0, C(1))
        ctx.check(a0[0] == 'lin' and a0[1] == 1 and len(a0[2]) == 1 and a0[2][0][2] == 1, R, short + '.length',
                  ctx.where(fa, zs[0]), found=a0, expected='<number of ids> + 1',
                  reason='one offset per id plus the closing offset')
    else:
        ctx.unrec(R, short + '.length', w, reason='offset array not created with np.zeros')
    colterm = arg_of_call(rl, 0)
    if col is not None:
        ctx.eq(R, short + '.column', colterm, T.sub(V('grp'), C(col)), ctx.where(fa),
               f'index is the run-length index of the {col} column')
        ctx.eq(R, short + '.tail.value', t.value, V(tot), ctx.where(fa, t), 'closing value = table length')
        par = {'nnz': 'n_bins', 'n_bins': 'n_chroms'}[tot]
        ctx.eq(R, short + '.ids', n_term, V(par), ctx.where(fa), f'one entry per {par[2:]} id')
        rets = returns(fa)
        ctx.check(bool(rets) and rets[-1].value == base, R, short + '.returned', ctx.where(fa, rets[-1] if rets else None),
                  found=rets[-1].value if rets else None, expected=base)
    else:
        # loaders: column = chrom codes of the checked bin table, total = its length
        bt = None
        for x in T.walk(colterm):
            if x[0] == 'call' and x[1] == G('cooler.util.check_bins'):
                bt = x
        ctx.check(bt is not None and t.value == T.call(G('len'), (bt,)), R, short + '.tail.value', ctx.where(fa, t),
                  found=t.value, expected='len(<the bin table whose chrom column is indexed>)')


def arg_of_call(c, pos):
    return c[2][pos] if c[0] == 'call' and len(c[2]) > pos else None


# ---------------------------------------------------------------------------
# C02 #4: chunked run-length encoder

def rlencode_template(ctx):
    R = 'RLE.block-carry'
    fa = ctx.fa('cooler.util.rlencode')
    loops = [l for l in fa.loops.values() if l.kind == 'for']
    if len(loops) != 1:
        ctx.unrec(R, 'skeleton', ctx.where(fa), found=len(loops), reason='expected one block loop')
        return
    L = loops[0]
    env = spec_env(ctx.repo, '''
        arr = asarray_or_dataset(array)
        n = len(arr)
        cs = n if chunksize is None else chunksize
        it = range(0, n, cs)
    ''', {'array': V('array'), 'chunksize': V('chunksize')})
    w = ctx.where(fa)
    ctx.eq(R, 'blocks', L.iter, env['it'], w, 'blocks start at 0, n step chunksize (whole array when None)')
    i = mk_elem(L.iter, L.id, ())
    # the carried "last value"
    carried = {k: v for k, v in L.carried.items() if v[0] != ('unk', 'undef', 0)}
    env2 = spec_env(ctx.repo, '''
        x = arr[i : i + cs]
        base = np.flatnonzero(x[1:] != x[:-1]) + 1
        last = x[-1]
        first = x[0]
    ''', dict(env, i=i))
    lastname = [k for k, (init, step) in carried.items() if step == env2['last']]
    if not lastname:
        ctx.bad(R, 'carry', w, found={k: T.show(v[1]) for k, v in carried.items()}, expected='last_val = x[-1] after each block',
                reason='a run continuing across a block boundary would be split into two runs',
                key=f'{R}|carry-missing')
        return
    ln = lastname[0]
    ctx.eq(R, 'carry.init', carried[ln][0], G('np.nan'), w, 'nothing precedes the first block')
    cond = T.cmp('!=', env2['first'], ('phi', L.id, ln))
    locs = T.ite(cond, ('cat', (C(0), env2['base'])), env2['base'])
    want_starts = T.add(i, locs)
    want_vals = T.sub(env2['x'], locs)
    apps = [e for e in calls(fa, method='append') if e.loops == (L.id,)]
    got = {T.show(receiver(e)): arg(e, 0) for e in apps}
    s_list = [receiver(e) for e in apps if arg(e, 0) == want_starts]
    v_list = [receiver(e) for e in apps if arg(e, 0) == want_vals]
    ctx.check(len(s_list) == 1, R, 'starts', w, found=[T.show(v) for v in got.values()][:1], expected=want_starts,
              reason='a run starts at local 0 iff the block\'s first value differs from the carried last value; '
                     'starts are block offset + local position')
    ctx.check(len(v_list) == 1, R, 'values', w, found=[T.show(v) for v in got.values()][1:2], expected=want_vals,
              reason='run values are read at the run starts of the block')
    rets = [r for r in returns(fa) if not any(T.contains(c, C(0)) and p for c, p in r.guards[-1:])
            or r.idx == returns(fa)[-1].idx]
    r = returns(fa)[-1]
    if s_list and v_list:
        S = T.call(G('np.concatenate'), (s_list[0],))
        Vv = T.call(G('np.concatenate'), (v_list[0],))
        want_ret = T.tup([S, T.call(G('np.diff'), (('cat', (S, env['n'])),)), Vv])
        ctx.eq(R, 'returned', r.value, want_ret, ctx.where(fa, r),
               '(starts, diff(starts + [n]), values)')
    ctx.check(not L.has_break and not L.has_continue, R, 'no-skip', w, found='break/continue' if L.has_break or L.has_continue else 'none',
              expected='every block visited')


# ---------------------------------------------------------------------------
# C02 #5 / C13 #4: validator predicates

def validator_predicates(ctx):
    R = 'VAL.predicates'
    fa = ctx.fa('cooler.create._ingest._validate_pixels')
    ch = V('chunk')
    b1, b2 = T.sub(ch, C('bin1_id')), T.sub(ch, C('bin2_id'))
    nb = V('n_bins')
    want = {
        'negative': ('boundscheck', T.nary('bor', (T.cmp('<', b1, C(0)), T.cmp('<', b2, C(0)))),
                     'ids below 0 rejected on both axes'),
        'excess': ('boundscheck', T.nary('bor', (T.cmp('>=', b1, nb), T.cmp('>=', b2, nb))),
                   'ids >= n_bins rejected on both axes (the id indexes an n_bins+1 offset array)'),
        'lower-triangle': ('triucheck', T.cmp('>', b1, b2), 'bin1 > bin2 rejected (strict: the diagonal is legal)'),
    }
    rs = [e for e in events(fa, 'raise')]
    for name, (flag, pred, why) in want.items():
        hit = None
        seen = []
        for e in rs:
            gs = [(norm_frame(c), p) for c, p in e.guards]
            if (V(flag), True) not in gs:
                continue
            for c, p in gs:
                if not p:
                    continue
                m = None
                if c[0] == 'call' and c[1] == G('np.any') and len(c[2]) == 1:
                    m = c[2][0]
                elif c[0] == 'call' and c[1][0] == 'attr' and c[1][2] == 'any':
                    m = c[1][1]
                if m is not None:
                    seen.append(m)
                    if m == pred:
                        hit = e
        ctx.check(hit is not None, R, name, ctx.where(fa, hit), found=[T.show(m) for m in seen], expected=pred,
                  reason=why)
    # duplicates keyed on both id columns
    hit = None
    seen = []
    for e in rs:
        gs = [(norm_frame(c), p) for c, p in e.guards]
        if (V('dupcheck'), True) not in gs:
            continue
        for c, p in gs:
            if p and c[0] == 'call' and c[1][0] == 'attr' and c[1][2] == 'any':
                m = c[1][1]
                seen.append(m)
                want_d = T.call(T.attr(ch, 'duplicated'), (T.lst([C('bin1_id'), C('bin2_id')]),))
                if m == want_d:
                    hit = e
    ctx.check(hit is not None, R, 'duplicate', ctx.where(fa, hit), found=[T.show(m) for m in seen],
              expected="chunk.duplicated(['bin1_id', 'bin2_id']).any()", reason='a pixel repeated within a chunk is rejected; the key is the id pair')
    for e in rs:
        from ..facts import exc_name
        ctx.check(exc_name(e) == 'BadInputError', R, f'exception@{[T.show(c) for c, p in e.guards][:1]}', ctx.where(fa, e),
                  found=exc_name(e), expected='BadInputError')
    # ensure_sorted sorts by the id pair; the validated chunk is what is returned
    rets = returns(fa)
    v = norm_frame(rets[-1].value) if rets else T.NONE
    want_r = T.ite(V('ensure_sorted'),
                   T.call(T.attr(ch, 'sort_values'), (T.lst([C('bin1_id'), C('bin2_id')]),)), ch)
    ctx.eq(R, 'returned', v, want_r, ctx.where(fa, rets[-1] if rets else None),
           'the chunk passed on is the validated chunk (sorted by the id pair when requested)')
    # validate_pixels binds the flags by name
    fv = ctx.fa('cooler.create._ingest.validate_pixels')
    rv = returns(fv)
    okp = False
    if rv and rv[-1].value[0] == 'call' and rv[-1].value[1] == G('functools.partial'):
        c = rv[-1].value
        kws = {k[1]: k[2] for k in c[3] if k[0] == 'kw'}
        okp = c[2] and c[2][0] == G('cooler.create._ingest._validate_pixels') and \
            all(kws.get(n) == V(n) for n in ('n_bins', 'boundscheck', 'triucheck', 'dupcheck', 'ensure_sorted'))
    ctx.check(okp, R, 'partial-binding', ctx.where(fv), found=rv[-1].value if rv else None,
              expected='partial(_validate_pixels, n_bins=n_bins, boundscheck=boundscheck, triucheck=triucheck, dupcheck=dupcheck, ensure_sorted=ensure_sorted)',
              reason='each flag must reach the parameter of the same name')


# ---------------------------------------------------------------------------
# C02 #6 / C06 #3 / C08 #3: grouped and sorted producer output

def _groupby_chain(t):
    """match  X.groupby(keys, sort=?).aggregate(agg).reset_index()  -> (X, keys, sort, agg) or None"""
    if not (t[0] == 'call' and t[1][0] == 'attr' and t[1][2] == 'reset_index'):
        return None
    a = t[1][1]
    if not (a[0] == 'call' and a[1][0] == 'attr' and a[1][2] in ('aggregate', 'agg')):
        return None
    g = a[1][1]
    if not (g[0] == 'call' and g[1][0] == 'attr' and g[1][2] == 'groupby'):
        return None
    keys = T.call_arg(g, 0, 'by')
    sort = T.get_kw(g, 'sort', T.TRUE)
    agg = T.call_arg(a, 0, 'func')
    return g[1][1], keys, sort, agg


def producers_sorted(ctx):
    R = 'PROD.grouped-sorted'
    idpair = T.lst([C('bin1_id'), C('bin2_id')])
    # merger
    fa = ctx.fa('cooler._reduce.CoolerMerger.__iter__')
    ys = yields(fa)
    if len(ys) != 1:
        ctx.unrec(R, 'merger.yield', ctx.where(fa), found=len(ys), reason='expected one yield')
    else:
        ch = _groupby_chain(ys[0].value)
        if ch is None:
            ctx.bad(R, 'merger.chain', ctx.where(fa, ys[0]), found=ys[0].value,
                    expected='concat(...).groupby([bin1_id, bin2_id], sort=True).aggregate(agg).reset_index()',
                    key=f'{R}|merger|chain')
        else:
            X, keys, sort, agg = ch
            ctx.eq(R, 'merger.keys', keys, idpair, ctx.where(fa, ys[0]), 'pixels are combined per (row, column) pair')
            ctx.eq(R, 'merger.sort', sort, T.TRUE, ctx.where(fa, ys[0]), 'each epoch must come out sorted by (row, column)')
            ctx.eq(R, 'merger.agg', agg, T.attr(V('self'), 'agg'), ctx.where(fa, ys[0]))
    # coarsener
    fb = ctx.fa('cooler._reduce.CoolerCoarsener._aggregate')
    rs = returns(fb)
    ic, fi, ev = class_attr(ctx, 'cooler._reduce.CoolerCoarsener', 'index_columns')
    if not rs:
        ctx.unrec(R, 'coarsener.return', ctx.where(fb), reason='no return')
    else:
        ch = _groupby_chain(rs[-1].value)
        if ch is None:
            ctx.bad(R, 'coarsener.chain', ctx.where(fb, rs[-1]), found=rs[-1].value,
                    expected='chunk.groupby([bin1_id, bin2_id], sort=True).aggregate(agg).reset_index()',
                    key=f'{R}|coarsener|chain')
        else:
            X, keys, sort, agg = ch
            if keys == T.attr(V('self'), 'index_columns'):
                keys = ic
            ctx.eq(R, 'coarsener.keys', keys, idpair, ctx.where(fb, rs[-1]), 'pixels are combined per new (row, column) pair')
            ctx.eq(R, 'coarsener.sort', sort, T.TRUE, ctx.where(fb, rs[-1]), 'each chunk must come out sorted')
            ctx.eq(R, 'coarsener.agg', agg, T.attr(V('self'), 'agg'), ctx.where(fb, rs[-1]))


# ---------------------------------------------------------------------------
# C20 #2 (shared by C02 #8, C04 #5, C05, C08 #5): get_binsize looks at every bin

def get_binsize_all_bins(ctx):
    R = 'BINSIZE.every-bin'
    fa = ctx.fa('cooler.util.get_binsize')
    rets = [r for r in returns(fa) if r.value != T.NONE]
    if not rets:
        ctx.unrec(R, 'returns', ctx.where(fa), reason='no non-None return')
        return

    def is_width(x):
        return x[0] == 'lin' and len(x[2]) == 2 and {li[2] for li in x[2]} == {1, -1} and \
            {T.show(li[1][2]) for li in x[2] if li[1][0] == 'sub'} == {"'end'", "'start'"}

    def last_bin_terms(t):
        out = []
        for x in T.walk(t):
            if x[0] == 'sub' and x[2] == C(-1) and x[1][0] == 'attr' and x[1][2] == 'iloc' and is_width(x[1][1]):
                out.append(x)
            if x[0] == 'call' and x[1][0] == 'attr' and x[1][2] in ('max', 'min', 'all', 'any') \
                    and any(is_width(y) for y in T.walk(x[1][1])) and not any(
                        y[0] == 'slice' and y[2] == C(-1) for y in T.walk(x[1][1])):
                out.append(x)
        return out
    for k, r in enumerate(rets):
        # truth conditions of the non-None result (guards with their polarity; for a conditional value the
        # condition of the arm that holds the width)
        def _has_next(t):
            return any(y[0] == 'call' and y[1] == G('next') for y in T.walk(t))
        conds = [(c if p else T.not_(c)) for c, p in r.guards]
        for x in T.walk(r.value):
            if x[0] == 'ite':
                conds.append(x[1] if _has_next(x[2]) or not _has_next(x[3]) else T.not_(x[1]))
        hit = [c for c in conds if last_bin_terms(c)]
        ctx.check(bool(hit), R, f'return#{k}', ctx.where(fa, r), found=[T.show(c)[:200] for c in conds],
                  expected='a non-None bin size is conditioned on a test of the last bin of each chromosome',
                  reason='a table whose last bin is longer than the others is not fixed-width: arithmetic fast paths '
                         '(extent, record binning, coarsening) would spill into the next chromosome',
                  key=f'{R}|cooler.util.get_binsize|last-bin-ignored')
        for c in hit:
            # a value carried out of the per-chromosome loop must be an accumulation
            # (it depends on its own previous value), not the last iteration's value
            for a in [x for x in T.walk(c) if x[0] == 'after' and last_bin_terms(x[4])]:
                acc = any(y[0] == 'phi' and y[1] == a[1] and y[2] == a[2] for y in T.walk(a[4]))
                ctx.check(acc, R, f'return#{k}.accumulated', ctx.where(fa, r), found=a[4],
                          expected='the last-bin widths of ALL chromosomes are folded together (max / all)',
                          reason='a plain assignment in the loop keeps only the last chromosome\'s last bin',
                          key=f'{R}|cooler.util.get_binsize|last-bin-of-final-chromosome-only')
            # orientation: last <= common width
            # (non-strict: a last bin as wide as the others is the normal case of a chromosome whose
            # length is a multiple of the width)
            oks = [x for x in T.walk(c) if x[0] == 'cmp' and x[1] == '<=' and last_bin_terms(x[2])]
            ctx.check(bool(oks), R, f'return#{k}.direction', ctx.where(fa, r), found=c,
                      expected='last bin width <= common width', reason='the last bin may be shorter, never longer')
        # the value returned is the common width of the non-last bins
        # ... taken out of the one-element collection in any of the usual ways: next(iter(S)), (b,) = S, S.pop(),
        # list(S)[0], min(S) / max(S)
        vals = [x for x in T.walk(r.value)
                if (x[0] == 'call' and (x[1] in (G('next'), G('min'), G('max')) or (x[1][0] == 'attr' and x[1][2] == 'pop')))
                or (x[0] == 'sub' and x[2] in (T.C(0), T.C(-1)))]
        ctx.check(bool(vals), R, f'return#{k}.value', ctx.where(fa, r), found=r.value, expected='the single common width')
        truth = [(c if p else T.not_(c)) for c, p in r.guards]
        one = [c for c in truth if c[0] == 'cmp' and c[1] == '==' and C(1) in (c[2], c[3])
               and any(x[0] == 'call' and x[1] == G('len') for x in (c[2], c[3]))]
        if not one:
            # the other spelling of "exactly one": the per-chromosome loop leaves with None as soon as a second width
            # shows up (1 < len(S) inside the loop), and after the loop the collection is tested for being non-empty
            def is_len(x):
                return x[0] == 'call' and x[1] == G('len')
            many = [e for e in returns(fa) if e.loops and e.value == T.NONE and any(
                (c[0] == 'cmp' and c[1] == '<' and c[2] == C(1) and is_len(c[3])) or
                (c[0] == 'cmp' and c[1] == '<=' and c[2] == C(2) and is_len(c[3])) or
                (c[0] == 'cmp' and c[1] == '!=' and C(1) in (c[2], c[3]) and (is_len(c[2]) or is_len(c[3])))
                for c in [(g if p else T.not_(g)) for g, p in e.guards])]
            nonempty = [c for c in truth if (c[0] in ('call', 'mut', 'v') and 'set' in T.show(c)) or
                        (c[0] == 'cmp' and c[1] == '!=' and C(0) in (c[2], c[3]) and (is_len(c[2]) or is_len(c[3])))]
            if many and nonempty and not r.loops:
                one = nonempty
        ctx.check(bool(one), R, f'return#{k}.single-width', ctx.where(fa, r), found=[T.show(c) for c, p in r.guards],
                  expected='returned only when exactly one distinct width was seen (len(sizes) == 1)')
    # the last bin of *every* chromosome takes part: the statement that folds it in runs on every
    # iteration of the per-chromosome loop (only a 'return None' may precede it)
    folds = [e for e in events(fa, ('assign', 'aug')) if e.loops and last_bin_terms(e.d.get('value', T.NONE))]
    for e in folds:
        skips = [(T.show(c), p, k) for (c, p), k in zip(e.guards, e.gkinds) if k in ('if', 'continue', 'break')]
        ctx.check(not skips, R, 'every-chromosome', ctx.where(fa, e), found=skips,
                  expected='last-bin width folded in for every chromosome',
                  reason='a chromosome that is skipped (e.g. a single-bin one) can hide a too-long last bin',
                  key=f'{R}|cooler.util.get_binsize|last-bin-skipped-for-some-chromosome')
    # all-but-last widths are collected per chromosome and more than one distinct width gives None
    ups = calls(fa, method='update')
    okc = any(any(y[0] == 'slice' and y[2] == C(-1) for y in T.walk(arg(e, 0))) and
              any(is_width(y) for y in T.walk(arg(e, 0))) for e in ups)
    ctx.check(okc, R, 'common-widths', ctx.where(fa), found=[T.show(arg(e, 0)) for e in ups],
              expected='sizes.update(<widths>.iloc[:-1].unique()) per chromosome')
    nones = [r for r in returns(fa) if r.value == T.NONE and any(
        c[0] == 'cmp' and c[1] == '<' and c[2] == C(1) and c[3][0] == 'call' and c[3][1] == G('len') and p for c, p in r.guards)]
    ctx.check(bool(nones), R, 'mixed-widths-none', ctx.where(fa), found=len(nones), expected='return None when more than one width')


def _groupby_chain_rename(t):
    """X.groupby(keys, sort=?).aggregate(agg).rename(columns=ren).reset_index()"""
    if not (t[0] == 'call' and t[1][0] == 'attr' and t[1][2] == 'reset_index'):
        return None
    rn = t[1][1]
    if not (rn[0] == 'call' and rn[1][0] == 'attr' and rn[1][2] == 'rename'):
        return None
    a = rn[1][1]
    if not (a[0] == 'call' and a[1][0] == 'attr' and a[1][2] in ('aggregate', 'agg')):
        return None
    g = a[1][1]
    if not (g[0] == 'call' and g[1][0] == 'attr' and g[1][2] == 'groupby'):
        return None
    return g[1][1], T.call_arg(g, 0, 'by'), T.get_kw(g, 'sort', T.TRUE), T.call_arg(a, 0, 'func'), T.get_kw(rn, 'columns')


# ---------------------------------------------------------------------------
# C16 #1 / C05 #9: pandas.read_csv(usecols=..., names=...) column/field agreement

READ_CSV_SITES = (
    'cooler.util.read_chromsizes', 'cooler.cli._util.parse_bins', 'cooler.cli.balance.balance',
    'cooler.cli.load.load', 'cooler.cli.cload.pairs',
)


def read_csv_names(ctx):
    """pandas assigns ``names`` to the selected columns in *file order* and
    ignores the order of ``usecols``: the name list must therefore be ordered by
    column number (ascending literals, or sorted by the field-number table)."""
    R = 'CSV.names-follow-column-numbers'
    n = 0
    for q in READ_CSV_SITES:
        fa = ctx.fa(q)
        for e in calls(fa, 'pd.read_csv'):
            use = T.get_kw(e.term, 'usecols')
            names = T.get_kw(e.term, 'names')
            if use is None or names is None:
                continue
            n += 1
            inst = q.split('.')[-1] + f'#{n}'
            w = ctx.where(fa, e)
            if use[0] == 'list' and all(T.is_int_const(x) for x in use[1]):
                vals = [x[1] for x in use[1]]
                ok = vals == sorted(vals) and names[0] == 'list' and len(names[1]) == len(vals)
                ctx.check(ok, R, inst, w, found=f'usecols={T.show(use)} names={T.show(names)}',
                          expected='ascending literal column numbers with one name each')
                continue
            # computed: usecols = [numbers[name] for name in NAMES] with NAMES == names and
            # NAMES sorted by numbers.get
            ok = False
            why = ''
            if use[0] == 'comp' and use[1] == 'list' and len(use[3]) == 1 and not use[3][0][3]:
                g = use[3][0]
                src = g[2]
                elt = use[2]
                tbl = elt[1] if elt[0] == 'sub' and elt[2] == g[1] else None
                if tbl is None:
                    why = 'usecols is not numbers[name] for name in names'
                elif src != names:
                    why = 'usecols and names iterate over different lists'
                else:
                    # names must be sorted(<list>, key=<tbl>.get)
                    key = T.get_kw(names, 'key') if names[0] == 'call' and names[1] == G('sorted') else None
                    if key == T.attr(tbl, 'get') or (key is not None and key[0] == 'lam' and T.contains(key, tbl)):
                        ok = True
                    else:
                        why = 'names are not ordered by their column numbers'
            else:
                why = 'unrecognised usecols expression'
            ctx.check(ok, R, inst, w, found=f'usecols={T.show(use)[:200]} names={T.show(names)[:200]} ({why})' if not ok else 'names sorted by field number',
                      expected='names = sorted(names, key=numbers.get); usecols = [numbers[n] for n in names]',
                      reason='with a non-monotone column layout (e.g. -c1 3 -p1 4 -c2 1 -p2 2) the columns would be handed to the wrong fields',
                      key=f'{R}|{q}|names-not-sorted-by-number')
    if n < 5:
        ctx.unrec(R, 'sites', found=n, reason='expected the five read_csv(usecols, names) sites confirmed by reading')


# ---------------------------------------------------------------------------
# RES: lock acquire/release pairing

def lock_pairing(ctx, quals):
    R = 'RES.lock-pairing'
    for q in quals:
        fa = ctx.fa(q)
        acq = calls(fa, method='acquire')
        rel = calls(fa, method='release')
        short = '.'.join(q.split('.')[-2:])
        if not acq:
            ctx.unrec(R, short, ctx.where(fa), reason='no lock.acquire() found at a confirmed lock site')
            continue
        for k, a in enumerate(acq):
            lockobj = receiver(a)
            tb = [t for t in a.trys if t[1] == 'body']
            partners = [r for r in rel if receiver(r) == lockobj and any(
                t[1] == 'finally' and tb and t[2] == tb[-1][2] for t in r.trys)]
            inst = f'{short}#{k + 1}'
            if not tb:
                ctx.bad(R, inst + '.in-try', ctx.where(fa, a), found='acquire outside try', expected='acquire inside try whose finally releases',
                        key=f'{R}|{q}|acquire-outside-try')
                continue
            if not partners:
                ctx.bad(R, inst + '.release-in-finally', ctx.where(fa, a), found='no release in the finally of the same try',
                        expected='lock.release() in finally', reason='an exception between acquire and release would leave the lock held',
                        key=f'{R}|{q}|release-not-in-finally')
                continue
            r = partners[0]
            ga = {(c, p) for (c, p), kd in zip(a.guards, a.gkinds) if kd == 'if' and c[0] != 'unk'}
            gr = {(c, p) for (c, p), kd in zip(r.guards, r.gkinds) if kd == 'if' and c[0] != 'unk'}
            # compare only the innermost predicates added inside the try
            ctx.check(ga - gr == set() and gr - ga == set(), R, inst + '.same-predicate', ctx.where(fa, r),
                      found=f'acquire when {sorted(T.show(c) for c, p in ga - gr)} / release when {sorted(T.show(c) for c, p in gr - ga)}' if ga != gr else 'same predicate',
                      expected='acquire and release under the same predicate',
                      reason='a lock released but never acquired (or the reverse) breaks every later worker')


# ---------------------------------------------------------------------------
# DEAD: an if/elif chain with two structurally equal tests

def dead_branches(ctx, quals):
    import ast
    R = 'DEAD.duplicate-test'
    n = 0
    for q in quals:
        fa = ctx.fa(q)
        for node in ast.walk(fa.fi.node):
            if not isinstance(node, ast.If):
                continue
            chain = [node]
            cur = node
            while len(cur.orelse) == 1 and isinstance(cur.orelse[0], ast.If):
                cur = cur.orelse[0]
                chain.append(cur)
            if len(chain) < 2:
                continue
            n += 1
            seen = {}
            dup = None
            for c in chain:
                k = ast.dump(c.test)
                if k in seen:
                    dup = (seen[k], c)
                seen.setdefault(k, c)
            where = f'{fa.fi.file.replace(ctx.repo.root + "/", "")}:{node.lineno} {q}'
            ctx.check(dup is None, R, f'{q.split(".")[-1]}@chain{n}', where,
                      found=f'test of line {dup[1].lineno} repeats the test of line {dup[0].lineno}: {ast.unparse(dup[1].test)}' if dup else f'{len(chain)} distinct tests',
                      expected='all tests of an if/elif chain are distinct', reason='the second arm is unreachable',
                      key=f'{R}|{q}|{ast.unparse(dup[1].test) if dup else ""}')


# ---------------------------------------------------------------------------
# C15 #1 / C13 #7: recognition is total; listing

REF_IS_COOLER = '''
def ref(uri):
    filepath, grouppath = parse_cooler_uri(uri)
    if not h5py.is_hdf5(filepath):
        return False
    with h5py.File(filepath) as f:
        if grouppath not in f:
            return False
        try:
            grp = f[grouppath]
        except KeyError:
            return False
        return _is_cooler(grp)
'''

REF_LIST_COOLERS = '''
def ref(filepath):
    if not h5py.is_hdf5(filepath):
        raise OSError("not hdf5")
    listing = []

    def _check_cooler(pth, grp):
        if _is_cooler(grp):
            listing.append("/" + pth if not pth.startswith("/") else pth)

    with h5py.File(filepath, "r") as f:
        _check_cooler("/", f)
        visititems(f, _check_cooler)
    return natsorted(listing)
'''


def recognition_total(ctx):
    """No subscript with a caller-supplied key on an HDF5 object without a
    membership test or a KeyError handler; non-HDF5 -> False."""
    from ..refcompare import compare
    R = 'RECOG.total'
    fa = ctx.fa('cooler.fileops.is_cooler')
    compare(ctx, 'RECOG.is_cooler', fa, REF_IS_COOLER, module='cooler.fileops',
            why='false - not an error - for a file that is not HDF5 and for a group path that does not exist')
    # generic form of the rule, on the recognisers
    for q in ('cooler.fileops.is_cooler', 'cooler.fileops.is_multires_file', 'cooler.fileops.is_scool_file'):
        f = ctx.fa(q)
        params = {V(p) for p in f.params}
        for e in f.events:
            if e.kind != 'call' or e.f != G('cooler.fileops._is_cooler') or not e.args:
                continue
            g = e.args[0]
            if g[0] != 'sub':
                continue
            key = g[2]
            base = g[1]
            tainted = any(T.contains(key, p) for p in params) and key[0] != 'c'
            guarded = any(c[0] == 'cmp' and c[1] in ('in', 'notin') and ((c[2] == key and (c[1] == 'in') == p)) for c, p in e.guards) \
                or any(c[0] == 'cmp' and c[1] == 'notin' and c[2] == key and not p for c, p in e.guards) \
                or e.handled('KeyError')
            derived = key[0] in ('elem', 'call', 'nth')      # a key read from the file itself
            ctx.check((not tainted) or guarded or derived, R, f'{q.split(".")[-1]}:{T.show(key)[:30]}', ctx.where(f, e),
                      found=f'subscript {T.show(g)[:80]} ' + ('guarded' if guarded else 'unguarded'),
                      expected='membership test or KeyError handler before a caller-supplied key is used',
                      reason='the recognition test must be false, not an error, for a non-existent path',
                      key=f'{R}|{q}|unguarded-subscript')


def listing(ctx):
    from ..refcompare import analyze_source, compare
    fa = ctx.fa('cooler.fileops.list_coolers')
    ref = analyze_source(ctx.repo, 'cooler.fileops', REF_LIST_COOLERS)
    compare(ctx, 'LIST.list_coolers', fa, None, ref_fa=ref, why='the root and every descendant are tested; paths are absolute; result sorted')
    compare(ctx, 'LIST.list_coolers._check', ctx.fa('cooler.fileops.list_coolers.<locals>._check_cooler'), None,
            ref_fa=ref.nested_analyses['_check_cooler'], why='exactly the groups recognised as coolers are listed, with a leading slash')
