"""C15  File-level operations preserve content and touch nothing else.

 1 recognition is total (false, not an error, for any other or missing path)
 2 _copy: reference model of the branch table (same file: hard link = same
   object, rename deletes the source after the link and only the source, soft
   link, copy; other file: hard link refused, external link, group copy, root
   destination = every child plus attributes; destination truncated only if it
   does not exist or overwrite; at most one of link / rename / soft_link);
   cp / mv / ln wrappers
 3 listing: root plus every descendant tested; absolute paths; cells listing
 4 create(): open-mode and deletion discipline (reference model, shared with C13)
 5 parse_cooler_uri (shared with C19)
"""
from __future__ import annotations

from .. import terms as T
from ..facts import (C, G, V, arg, bind_call, calls, events, raises, receiver, returns, spec, spec_env, yields)
from ..refcompare import analyze_source, compare
from . import common
from .C13 import REF_CREATE

META = {
    'explanation': (
        'Effect-level comparison (normalised symbolic dataflow, order-sensitive for in-place updates) of '
        'fileops._copy and its cp/mv/ln wrappers, is_cooler, list_coolers, list_scool_cells, parse_cooler_uri '
        'and create() with reference models derived from the property; rule that no caller-supplied key is '
        'subscripted on an HDF5 object without membership test or KeyError handler in the recognisers; '
        'ordering rule "rename deletes the source only after the link exists". Content equality of copies '
        '(h5py copy) and link semantics are not decided.'),
    'not_decided': ['content equality of copies (h5py Group.copy)', 'hard / soft / external link semantics of HDF5'],
}

REF_COPY = '''
def ref(src_uri, dst_uri, overwrite, link, rename, soft_link):
    src_path, src_group = parse_cooler_uri(src_uri)
    dst_path, dst_group = parse_cooler_uri(dst_uri)
    if sum([link, rename, soft_link]) > 1:
        raise ValueError("at most one")
    # the destination file is replaced only if it does not exist yet or on request
    if not os.path.isfile(dst_path) or overwrite:
        dst_mode = "w"
    else:
        dst_mode = "r+"
    if src_path == dst_path:
        src_mode = "r+"
    else:
        src_mode = "r"
    with h5py.File(src_path, src_mode) as src, h5py.File(dst_path, dst_mode) as dst:
        if src_path == dst_path:
            if link or rename:
                src[dst_group] = src[src_group]
                if rename:
                    del src[src_group]
            elif soft_link:
                src[dst_group] = h5py.SoftLink(src_group)
            else:
                src.copy(src_group, dst_group)
        else:
            if link:
                raise OSError("no hard link across files")
            elif soft_link:
                dst[dst_group] = h5py.ExternalLink(src_path, src_group)
            else:
                if dst_group == "/":
                    for child in src[src_group].keys():
                        src.copy(src_group + "/" + child, dst, child)
                    dst[dst_group].attrs.update(src[src_group].attrs)
                else:
                    src.copy(src_group, dst, dst_group if dst_group != "/" else None)
'''

REF_CP = '''
def ref(src_uri, dst_uri, overwrite=False):
    _copy(src_uri, dst_uri, overwrite, link=False, rename=False, soft_link=False)
'''
REF_MV = '''
def ref(src_uri, dst_uri, overwrite=False):
    _copy(src_uri, dst_uri, overwrite, link=False, rename=True, soft_link=False)
'''
REF_LN = '''
def ref(src_uri, dst_uri, soft=False, overwrite=False):
    _copy(src_uri, dst_uri, overwrite, link=not soft, rename=False, soft_link=soft)
'''

REF_LIST_CELLS = '''
def ref(filepath):
    def _check_cooler(pth, grp):
        if _is_cooler(grp):
            listing.append("/" + pth if not pth.startswith("/") else pth)

    if is_scool_file(filepath):
        listing = []
        with h5py.File(filepath, "r") as f:
            _check_cooler("/", f)
            visititems(f, _check_cooler)
        if "/" in listing:
            listing.remove("/")
        return natsorted(listing)
    else:
        raise OSError("not a scool file")
'''

REF_VISIT = '''
def ref(group, func, level=None):
    def _visititems(node, path, func, result=None, ancestors=()):
        children = node.get_children()
        if children:
            for key, child in zip(node.obj.keys(), children):
                if child.obj is None:
                    continue
                name = path.rstrip("/") + "/" + key
                result[name] = func(name, child.obj)
                if child.obj.id in ancestors:
                    continue        # a link back to an enclosing group is reported, not entered again (no endless walk)
                _visititems(child, name, func, result, (*ancestors, child.obj.id))
        return result

    root = TreeNode(group, level=level)
    return _visititems(root, group.name, func, {}, (group.id,))
'''

REF_URI = '''
def ref(s):
    parts = s.split("::")
    if len(parts) == 1:
        file_path, group_path = parts[0], "/"
    elif len(parts) == 2:
        file_path, group_path = parts
        if not group_path.startswith("/"):
            group_path = "/" + group_path
    else:
        raise ValueError("invalid uri")
    return file_path, group_path
'''


def run(ctx):
    common.recognition_total(ctx)
    fa = ctx.fa('cooler.fileops._copy')
    compare(ctx, 'C15.copy', fa, REF_COPY, why='branch table of copy / move / link derived from the property')
    rename_after_link(ctx, fa)
    for name, src in (('cp', REF_CP), ('mv', REF_MV), ('ln', REF_LN)):
        compare(ctx, f'C15.{name}', ctx.fa(f'cooler.fileops.{name}'), src, why='wrapper selects exactly one behaviour of _copy')
    common.listing(ctx)
    fl = ctx.fa('cooler.fileops.list_scool_cells')
    ref = analyze_source(ctx.repo, 'cooler.fileops', REF_LIST_CELLS)
    compare(ctx, 'C15.list_scool_cells', fl, None, ref_fa=ref, why='cells = coolers of the file except the root')
    compare(ctx, 'C15.list_scool_cells._check', ctx.fa('cooler.fileops.list_scool_cells.<locals>._check_cooler'), None,
            ref_fa=ref.nested_analyses['_check_cooler'], why='exactly the groups recognised as coolers are listed, with a leading slash')
    fv = ctx.fa('cooler.fileops.visititems')
    refv = analyze_source(ctx.repo, 'cooler.fileops', REF_VISIT)
    compare(ctx, 'C15.visititems', fv, None, ref_fa=refv, why='every descendant is visited')
    compare(ctx, 'C15.visititems._visit', ctx.fa('cooler.fileops.visititems.<locals>._visititems'), None,
            ref_fa=refv.nested_analyses['_visititems'], why='every child is reported and then descended into')
    compare(ctx, 'C15.create', ctx.fa('cooler.create._create.create'), REF_CREATE,
            why='append mode leaves other collections intact: only the target group (or the four tables of a root target) is deleted; '
                'only the first open uses the caller\'s mode, all later opens are r+')
    compare(ctx, 'C15.uri', ctx.fa('cooler.util.parse_cooler_uri'), REF_URI, module='cooler.util',
            why='a URI splits into the same (file, /group) pair however the leading slash is written')


def rename_after_link(ctx, fa):
    R = 'C15.copy.order'
    links = [e for e in events(fa, 'store_sub') if e.value[0] == 'sub' and e.base == e.value[1]]
    dels = [e for e in events(fa, 'del')]
    if not links or not dels:
        ctx.unrec(R, 'sites', ctx.where(fa), found=(len(links), len(dels)), reason='hard-link store / delete not found')
        return
    ctx.check(links[0].idx < dels[0].idx, R, 'link-then-delete', ctx.where(fa, dels[0]),
              found=f'link@{links[0].line} delete@{dels[0].line}', expected='the source name is removed only after the new link exists',
              reason='deleting first would drop the last reference to the data')
    d = dels[0]
    ctx.check(d.key == links[0].value[2] and d.key != links[0].key, R, 'deletes-the-source', ctx.where(fa, d),
              found=T.show(d.key), expected='the source group path, not the destination')


_run_core = run


def run(ctx):
    _run_core(ctx)
    from . import refs_misc
    refs_misc.run_for(ctx, 'C15')
    from . import reflib
    reflib.run_for(ctx, 'C15')
