"""C13  Invalid input or a failed write never yields a cooler nor harms its neighbours.

 1 the magic attribute is the last effect of create(): write_info comes after
   write_pixels (which exhausts the stream), the index builders and write_indexes
 2 who may write ``format`` (package-wide)
 3 validator taint: the stream that reaches the writer is the validated stream
   whenever a check flag can be true; flags default to true; the only downgrade
   is triucheck := False when not symmetric-upper
 4 predicates of the validator (shared with C02)
 5 only the target is deleted, only the caller's mode can truncate
   (reference model of create())
 6 the file is closed while the stream is advanced
 7 recognition by the format attribute; listing
"""
from __future__ import annotations

from .. import terms as T
from ..facts import (C, G, V, arg, bind_call, calls, events, raises, receiver, returns, spec, spec_env, yields, param_default)
from ..refcompare import compare
from . import common

META = {
    'explanation': (
        'Ordering rule on create() (write_info is the last effect and follows the pixel writer and the index '
        'writers), package-wide who-may-write rule for the format attribute, exact dataflow of the validated '
        'stream into the writer, validator predicates, effect-level comparison of create() with a reference '
        'model (open modes, deletions restricted to the target, tables written), with-context rule "the file is '
        'closed while the input stream is advanced", and reference models of the recognisers and the listing. '
        'HDF5 crash consistency and h5py\'s behaviour when an exception unwinds a with-block are not decided.'),
    'not_decided': ['HDF5 crash consistency', 'that h5py leaves a closed file intact when an exception unwinds a with-block'],
}

CR = 'cooler.create._create'

REF_CREATE = '''
def ref(cool_uri, bins, pixels, columns=None, dtypes=None, metadata=None, assembly=None, symmetric_upper=True,
        mode=None, h5opts=None, boundscheck=True, triucheck=True, dupcheck=True, ensure_sorted=False, lock=None,
        append=False, append_scool=False, scool_root_uri=None, **kwargs):
    file_path, group_path = parse_cooler_uri(cool_uri)
    file_path = op.realpath(file_path)
    if mode is None:
        mode = "a" if append else "w"
    h5opts = _set_h5opts(h5opts)
    if not isinstance(bins, pd.DataFrame):
        raise ValueError("bins must be a frame")
    if append_scool and scool_root_uri is None:
        raise ValueError("scool root needed")
    dtypes = _get_dtypes_arg(dtypes, kwargs)
    for col in ["chrom", "start", "end"]:
        if col not in bins.columns:
            raise ValueError("missing bin column")
    if columns is None:
        columns = ["bin1_id", "bin2_id", "count"]
    else:
        columns = list(columns)
        for col in ["bin1_id", "bin2_id"]:
            if col not in columns:
                columns.insert(0, col)
    if dtypes is None:
        dtypes = dict(PIXEL_DTYPES)
    else:
        dtypes_ = dict(dtypes)
        dtypes = dict(PIXEL_DTYPES)
        dtypes.update(dtypes_)
    meta = get_meta(columns, dtypes, default_dtype=float)
    try:
        from dask.dataframe import DataFrame as dask_df
    except (ImportError, AttributeError):
        dask_df = ()
    if isinstance(pixels, dask_df):
        stream = (x.compute() for x in pixels.to_delayed())
        have = infer_meta(pixels).columns
    elif isinstance(pixels, pd.DataFrame):
        stream = (pixels,)
        have = infer_meta(pixels).columns
    elif isinstance(pixels, dict):
        stream = (pixels,)
        have = infer_meta([(k, v.dtype) for (k, v) in pixels.items()]).columns
    else:
        stream = pixels
        have = None
    if have is not None:
        for col in columns:
            if col not in have:
                col_type = "Standard" if col in PIXEL_FIELDS else "User"
                raise ValueError("column not found")
    bins = bins.copy()
    bins["chrom"] = bins["chrom"].astype(object)
    chromsizes = get_chromsizes(bins)
    try:
        chromsizes = chromsizes.items()
    except AttributeError:
        pass
    chromnames, lengths = zip(*chromsizes)
    chroms = pd.DataFrame({"name": chromnames, "length": lengths}, columns=["name", "length"])
    binsize = get_binsize(bins)
    n_chroms = len(chroms)
    n_bins = len(bins)
    if not symmetric_upper and triucheck:
        triucheck = False
    # every chunk is validated before it is written, whenever any check is on
    if boundscheck or triucheck or dupcheck or ensure_sorted:
        stream = map(validate_pixels(n_bins, boundscheck, triucheck, dupcheck, ensure_sorted), stream)
    # only the caller's mode can truncate; only the target is deleted
    with h5py.File(file_path, mode) as f:
        if group_path == "/":
            for name in ["chroms", "bins", "pixels", "indexes"]:
                if name in f:
                    del f[name]
        else:
            try:
                f.create_group(group_path)
            except ValueError:
                del f[group_path]
                f.create_group(group_path)
    if append_scool:
        src_path, src_group = parse_cooler_uri(scool_root_uri)
        dst_path, dst_group = parse_cooler_uri(cool_uri)
        with h5py.File(src_path, "r+") as src, h5py.File(dst_path, "r+") as dst:
            dst[dst_group]["chroms"] = src["chroms"]
            dst[dst_group]["bins/chrom"] = src["bins/chrom"]
            dst[dst_group]["bins/start"] = src["bins/start"]
            dst[dst_group]["bins/end"] = src["bins/end"]
            extra = list(bins.keys())
            for col in ["chrom", "start", "end"]:
                extra.remove(col)
            if extra:
                put(dst[dst_group]["bins"], bins[extra])
        with h5py.File(file_path, "r+") as f:
            h5 = f[group_path]
            grp = h5.create_group("pixels")
            if symmetric_upper:
                max_size = n_bins * (n_bins - 1) // 2 + n_bins
            else:
                max_size = n_bins * n_bins
            prepare_pixels(grp, n_bins, max_size, meta.columns, dict(meta.dtypes), h5opts)
    else:
        with h5py.File(file_path, "r+") as f:
            h5 = f[group_path]
            grp = h5.create_group("chroms")
            write_chroms(grp, chroms, h5opts)
            grp = h5.create_group("bins")
            write_bins(grp, bins, chroms["name"], h5opts)
            grp = h5.create_group("pixels")
            if symmetric_upper:
                max_size = n_bins * (n_bins - 1) // 2 + n_bins
            else:
                max_size = n_bins * n_bins
            prepare_pixels(grp, n_bins, max_size, meta.columns, dict(meta.dtypes), h5opts)
    target = posixpath.join(group_path, "pixels")
    nnz, total = write_pixels(file_path, target, meta.columns, stream, h5opts, lock)
    with h5py.File(file_path, "r+") as f:
        h5 = f[group_path]
        grp = h5.create_group("indexes")
        chrom_offset = index_bins(h5["bins"], n_chroms, n_bins)
        bin1_offset = index_pixels(h5["pixels"], n_bins, nnz)
        write_indexes(grp, chrom_offset, bin1_offset, h5opts)
        info = {}
        info["bin-type"] = "fixed" if binsize is not None else "variable"
        info["bin-size"] = binsize if binsize is not None else "null"
        info["storage-mode"] = "symmetric-upper" if symmetric_upper else "square"
        info["nchroms"] = n_chroms
        info["nbins"] = n_bins
        info["sum"] = total
        info["nnz"] = nnz
        if assembly is not None:
            info["genome-assembly"] = assembly
        if metadata is not None:
            info["metadata"] = metadata
        write_info(h5, info)
'''

REF_IS_COOLER_INNER = '''
def ref(grp):
    fmt = grp.attrs.get("format", None)
    if fmt == MAGIC:
        keys = ("chroms", "bins", "pixels", "indexes")
        if not all(name in grp.keys() for name in keys):
            warnings.warn("corrupt")
        return True
    return False
'''

REF_WRITE_INFO = '''
def ref(grp, info, scool=False):
    assert "nbins" in info
    if not scool:
        assert "nnz" in info
    info.setdefault("genome-assembly", "unknown")
    info["metadata"] = json.dumps(info.get("metadata", {}))
    info["creation-date"] = datetime.now().isoformat()
    info["generated-by"] = "cooler-" + __version__
    if scool:
        info["format"] = MAGIC_SCOOL
        info["format-version"] = __format_version_scool__
    else:
        info["format"] = MAGIC
        info["format-version"] = __format_version__
    info["format-url"] = URL
    grp.attrs.update(info)
'''

# functions that may write (or copy) the format attribute - confirmed by reading
FORMAT_WRITERS = {
    f'{CR}.write_info': 'the only writer of the cooler / scool magic',
    'cooler._reduce.zoomify_cooler': 'mcool magic on the root; copy of a source collection\'s attributes after its data',
    'cooler.fileops._copy': 'copy of a source collection\'s attributes after its data (root destination)',
    'cooler._reduce.legacy_zoomify': 'zoom bookkeeping attributes on the root',
}


def run(ctx):
    fa = ctx.fa(f'{CR}.create')
    compare(ctx, 'C13.create', fa, REF_CREATE,
            why='reference model of create(): validated stream, open modes, deletions restricted to the target, tables written, attributes')
    last_effect(ctx, fa)
    validated_stream(ctx, fa)
    flag_defaults(ctx)
    common.validator_predicates(ctx)
    closed_while_streaming(ctx, fa)
    who_writes_format(ctx)
    compare(ctx, 'C13.write_info', ctx.fa(f'{CR}.write_info'), REF_WRITE_INFO, why='the magic and version attributes are written together with everything else in one update')
    compare(ctx, 'C13._is_cooler', ctx.fa('cooler.fileops._is_cooler'), REF_IS_COOLER_INNER, module='cooler.fileops',
            why='a group is a cooler iff its format attribute is the cooler magic')
    common.recognition_total(ctx)
    common.listing(ctx)


def last_effect(ctx, fa):
    R = 'C13.magic-last'
    def one(name):
        cs = calls(fa, f'{CR}.{name}')
        return cs[-1] if cs else None
    wp, ib, ip, wx, wi = (one(n) for n in ('write_pixels', 'index_bins', 'index_pixels', 'write_indexes', 'write_info'))
    if not all((wp, ib, ip, wx, wi)):
        ctx.unrec(R, 'sites', ctx.where(fa), reason='writer calls not found in create()')
        return
    ctx.check(wp.idx < ip.idx < wx.idx < wi.idx and ib.idx < wx.idx, R, 'order', ctx.where(fa, wi),
              found=f'write_pixels@{wp.line} index_bins@{ib.line} index_pixels@{ip.line} write_indexes@{wx.line} write_info@{wi.line}',
              expected='write_pixels < index builders < write_indexes < write_info',
              reason='if creation stops at any chunk the destination must not carry the format attribute')
    early = [e for e in calls(fa, f'{CR}.write_info') if e.idx < wp.idx]
    ctx.check(not early, R, 'no-early-write_info', ctx.where(fa, early[0] if early else wi), found=[f'write_info@{e.line}' for e in early],
              expected='no call of write_info before the pixel stream has been written',
              reason='write_info stamps the format attribute: an early call makes a destination that fails later recognisable as a cooler',
              key=f'{R}|create|write_info-before-write_pixels')
    later = [e for e in fa.events[wi.idx + 1:] if e.kind in ('call', 'store_sub', 'store_attr', 'del') and not e.d.get('in_comp')
             and not (e.kind == 'call' and 'logger' in T.show(e.f))]
    ctx.check(not later, R, 'nothing-after', ctx.where(fa, later[0] if later else wi), found=[f'{e.kind}@{e.line}' for e in later],
              expected='write_info is the last effect on the normal path')
    for e, n in ((wi, 'write_info'), (wx, 'write_indexes')):
        ctx.check(not e.cguards and not e.loops, R, f'{n}.unconditional', ctx.where(fa, e), found=[(T.show(c), p) for c, p in e.cguards],
                  expected='reached on every successful path, exactly once')
    # all calls of write_info in the package besides create / create_scool?
    n_other = 0
    for fi in ctx.repo.all_functions():
        if fi.qualname in (f'{CR}.create', f'{CR}.create_scool') or fi.parent is not None:
            continue
        f2 = ctx.fa(fi.qualname)
        if calls(f2, f'{CR}.write_info'):
            n_other += 1
            ctx.bad(R, f'other-caller:{fi.qualname}', ctx.where(f2), found='calls write_info', expected='only create() and create_scool() write the magic',
                    key=f'{R}|{fi.qualname}|calls-write_info')
    ctx.ok(R, 'callers', found=f'create, create_scool (+{n_other} others)', expected='create, create_scool')


def validated_stream(ctx, fa):
    R = 'C13.validator-taint'
    wp = calls(fa, f'{CR}.write_pixels')
    if len(wp) != 1:
        ctx.unrec(R, 'write_pixels', ctx.where(fa), found=len(wp), reason='expected one call')
        return
    b, _, _ = bind_call(ctx.repo, f'{CR}.write_pixels', wp[0])
    it = b.get('iterable')
    su, tc = V('symmetric_upper'), V('triucheck')
    tc2 = T.ite(T.nary('and', (T.not_(su), tc)), T.FALSE, tc)
    anyflag = T.nary('or', (V('boundscheck'), tc2, V('dupcheck'), V('ensure_sorted')))
    if it is None or it[0] != 'ite':
        ctx.bad(R, 'shape', ctx.where(fa, wp[0]), found=it, expected='map(validator, stream) if any flag else stream',
                key=f'{R}|stream-not-conditional-on-flags')
        return
    cond, val, raw = it[1], it[2], it[3]
    if not (val[0] == 'call' and val[1] == G('map')) and raw[0] == 'call' and raw[1] == G('map'):
        cond, val, raw = T.not_(it[1]), it[3], it[2]        # the other orientation of the same conditional
    ctx.eq(R, 'condition', cond, anyflag, ctx.where(fa, wp[0]),
           'the validator is chained whenever ANY of boundscheck / triucheck / dupcheck / ensure_sorted is on')
    n_bins = None
    ok = val[0] == 'call' and val[1] == G('map') and len(val[2]) == 2 and val[2][1] == raw
    ctx.check(ok, R, 'wraps-the-stream', ctx.where(fa, wp[0]), found=val, expected='map(validator, <the same stream that is written otherwise>)',
              reason='the validated stream - not a copy that is dropped - is what reaches the writer')
    if ok:
        v = val[2][0]
        okv = v[0] == 'call' and v[1] == G('cooler.create._ingest.validate_pixels') and len(v[2]) == 5
        ctx.check(okv, R, 'validator', ctx.where(fa, wp[0]), found=v, expected='validate_pixels(n_bins, boundscheck, triucheck, dupcheck, ensure_sorted)')
        if okv:
            wb = calls(fa, f'{CR}.write_bins')
            bins_t = bind_call(ctx.repo, f'{CR}.write_bins', wb[0])[0].get('bins') if wb else None
            ctx.eq(R, 'validator.n_bins', v[2][0], T.call(G('len'), (bins_t,)) if bins_t else None, ctx.where(fa, wp[0]),
                   'ids are checked against the length of the bin table that is written')
            for k, (name, want) in enumerate((('boundscheck', V('boundscheck')), ('triucheck', tc2), ('dupcheck', V('dupcheck')),
                                              ('ensure_sorted', V('ensure_sorted'))), start=1):
                ctx.eq(R, f'validator.{name}', v[2][k], want, ctx.where(fa, wp[0]),
                       'each flag reaches its own position; triucheck is switched off only for non-symmetric storage')
    # the raw stream is the pixels argument (tuple-wrapped for a frame / dict)
    ctx.check(T.contains(raw, V('pixels')), R, 'stream-source', ctx.where(fa, wp[0]), found=raw, expected='derived from the pixels argument')


def flag_defaults(ctx):
    R = 'C13.flag-defaults'
    for q in (f'{CR}.create', f'{CR}.create_cooler', f'{CR}.create_scool'):
        for name, want in (('boundscheck', True), ('triucheck', True), ('dupcheck', True)):
            got = param_default(ctx.repo, q, name)
            ctx.check(got is want, R, f'{q.split(".")[-1]}.{name}', found=got, expected=want, reason='the checks are on by default')


def closed_while_streaming(ctx, fa):
    R = 'C13.closed-while-streaming'
    wp = calls(fa, f'{CR}.write_pixels')
    if wp:
        opened = [w for w in wp[0].withs if w[0] == 'call' and w[1] == G('h5py.File')]
        ctx.check(not opened, R, 'create.write_pixels-outside-with', ctx.where(fa, wp[0]), found=[T.show(w) for w in opened],
                  expected='write_pixels is called with the output file closed',
                  reason='an exception raised by the input stream must not unwind through an open handle on the target file')
    fw = ctx.fa(f'{CR}.write_pixels')
    loops = [l for l in fw.loops.values() if l.kind == 'for' and T.contains(l.iter, V('iterable'))]
    if not loops:
        ctx.unrec(R, 'chunk-loop', ctx.where(fw), reason='loop over the input stream not found')
        return
    L = loops[0]
    le = [e for e in events(fw, 'loop') if e.loop == L.id]
    opened = [w for w in le[0].withs if w[0] == 'call' and w[1] == G('h5py.File')] if le else ['?']
    ctx.check(not opened, R, 'stream-advanced-outside-with', ctx.where(fw, le[0] if le else None), found=[T.show(w) if isinstance(w, tuple) else w for w in opened],
              expected='the for-header that advances the stream is outside every h5py.File context')
    ws = [e for e in events(fw, 'with') if e.cm[0] == 'call' and e.cm[1] == G('h5py.File') and L.id in e.loops]
    ctx.check(len(ws) == 1 and arg_mode(ws[0].cm) == C('r+'), R, 'per-chunk-open', ctx.where(fw, ws[0] if ws else None),
              found=[T.show(e.cm) for e in ws], expected='one h5py.File(filepath, "r+") per chunk, inside the loop',
              reason='each write step opens and closes the file itself')


def arg_mode(c):
    return T.call_arg(c, 1, 'mode')


def who_writes_format(ctx):
    R = 'C13.who-writes-format'
    n = 0
    from ..model import known_names
    from .reflib import _syntactic_graph
    graph = _syntactic_graph(ctx.repo)
    for fi in ctx.repo.all_functions():
        # a helper the checker does not know by name, called only by the confirmed writers, is part of
        # them (its body is evaluated in place where they call it)
        if fi.qualname.rsplit('.', 1)[1] not in known_names() and fi.parent is None:
            callers = {f for f, cs in graph.items() if fi.qualname in cs and f != fi.qualname}
            if callers and callers <= set(FORMAT_WRITERS):
                continue
        fa = ctx.fa(fi.qualname)
        hits = []
        for e in fa.events:
            if e.kind == 'store_sub' and e.key in (C('format'), C('format-version')):
                hits.append((e, 'sets ' + T.show(e.key)))
            if e.kind == 'call' and e.f[0] == 'attr' and e.f[2] in ('update', 'create', 'modify', '__setitem__') \
                    and e.f[1][0] == 'attr' and e.f[1][2] == 'attrs':
                a0 = e.args[0] if e.args else None
                if a0 is not None and a0[0] == 'dict' and any(kv[1] == C('format') for kv in a0[1] if kv[0] == 'kv'):
                    hits.append((e, 'attrs.update({format: ...})'))
                elif a0 is not None and a0[0] == 'attr' and a0[2] == 'attrs':
                    hits.append((e, 'copies the attributes of ' + T.show(a0[1])[:60]))
                elif a0 is not None and a0 == V('info') and fi.qualname.endswith('write_info'):
                    hits.append((e, 'attrs.update(info)'))
                elif a0 is not None and a0[0] not in ('dict',) and T.show(a0) not in ('stats', 'zoom_levels') \
                        and not (a0[0] == 'call' and a0[1] == G('$obj')):
                    pass
        for e, what in hits:
            n += 1
            ok = fi.qualname in FORMAT_WRITERS
            ctx.check(ok, R, f'{fi.qualname.replace("cooler.", "")}:{what[:40]}', ctx.where(fa, e), found=what,
                      expected='only ' + ', '.join(sorted(q.split('.')[-1] for q in FORMAT_WRITERS)) + ' may write or copy the format attribute',
                      reason=FORMAT_WRITERS.get(fi.qualname, 'a second writer of the magic could tag a half-written collection'),
                      key=f'{R}|{fi.qualname}|{what[:40]}')
    if n < 4:
        ctx.unrec(R, 'sites', found=n, reason='expected at least the four confirmed format writers/copiers')
    # attribute copies follow the data copy in their block
    for q in ('cooler._reduce.zoomify_cooler', 'cooler.fileops._copy'):
        fa = ctx.fa(q)
        cps = [e for e in calls(fa, method='update') if e.args and e.args[0][0] == 'attr' and e.args[0][2] == 'attrs']
        data = [e for e in calls(fa, method='copy')]
        for e in cps:
            before = [d for d in data if d.idx < e.idx and d.withs == e.withs]
            after = [d for d in data if d.idx > e.idx and d.withs == e.withs and set(e.guards) <= set(d.guards)]
            ctx.check(bool(before) and not after, R, f'{q.split(".")[-1]}.attrs-after-data', ctx.where(fa, e),
                      found=f'{len(before)} data copies before, {len(after)} after', expected='attributes (with the magic) are copied after the data',
                      reason='an interrupted copy must not already be recognisable as a cooler')


_run_core = run


def run(ctx):
    _run_core(ctx)
    from . import refs_misc
    refs_misc.run_for(ctx, 'C13')
    from . import reflib
    reflib.run_for(ctx, 'C13')
