"""Reference models of the smaller supporting functions, attached to the
properties whose behaviour they carry (see ``ATTACH``)."""
from __future__ import annotations

from ..refcompare import analyze_source, compare

REFS = {}


def ref(qual, module, why, props):
    def deco(src):
        REFS[qual] = dict(src=src, module=module, why=why, props=props)
        return src
    return deco


ref('cooler.create._create.write_chroms', 'cooler.create._create',
    'chromosome table: name (fixed-length ASCII) and length (int32) of every chromosome, extra columns kept',
    ['C01', 'C02', 'C17'])('''
def ref(grp, chroms, h5opts):
    n_chroms = len(chroms)
    names = np.array(chroms["name"], dtype=CHROM_DTYPE)
    grp.create_dataset("name", shape=(n_chroms,), dtype=names.dtype, data=names, **h5opts)
    grp.create_dataset("length", shape=(n_chroms,), dtype=CHROMSIZE_DTYPE, data=chroms["length"], **h5opts)
    columns = list(chroms.keys())
    for col in ["name", "length"]:
        columns.remove(col)
    if columns:
        put(grp, chroms[columns])
''')

ref('cooler.create._create.write_bins', 'cooler.create._create',
    'bin table: chromosome ids in the order of the chromosome table (enum, raw-int fallback with enum_path), start, end, extra columns',
    ['C01', 'C02', 'C17'])('''
def ref(grp, bins, chromnames, h5opts, chrom_as_enum=True):
    n_chroms = len(chromnames)
    n_bins = len(bins)
    idmap = dict(zip(chromnames, range(n_chroms)))
    chrom_ids = [idmap[chrom] for chrom in bins["chrom"]]
    if chrom_as_enum:
        chrom_dtype = h5py.special_dtype(enum=(CHROMID_DTYPE, idmap))
    else:
        chrom_dtype = CHROMID_DTYPE
    try:
        chrom_dset = grp.create_dataset("chrom", shape=(n_bins,), dtype=chrom_dtype, data=chrom_ids, **h5opts)
    except ValueError:
        if chrom_as_enum:
            chrom_as_enum = False
            chrom_dtype = CHROMID_DTYPE
            chrom_dset = grp.create_dataset("chrom", shape=(n_bins,), dtype=chrom_dtype, data=chrom_ids, **h5opts)
        else:
            raise
    if not chrom_as_enum:
        chrom_dset.attrs["enum_path"] = "/chroms/name"
    grp.create_dataset("start", shape=(n_bins,), dtype=COORD_DTYPE, data=bins["start"], **h5opts)
    grp.create_dataset("end", shape=(n_bins,), dtype=COORD_DTYPE, data=bins["end"], **h5opts)
    columns = list(bins.keys())
    for col in ["chrom", "start", "end"]:
        columns.remove(col)
    if columns:
        put(grp, bins[columns])
''')

ref('cooler.create._create.prepare_pixels', 'cooler.create._create',
    'one resizable column per described pixel column, all with the same initial length and capacity',
    ['C01', 'C02'])('''
def ref(grp, n_bins, max_size, columns, dtypes, h5opts):
    columns = list(columns)
    init_size = min(5 * n_bins, max_size)
    grp.create_dataset("bin1_id", dtype=dtypes.get("bin1_id", BIN_DTYPE), shape=(init_size,), maxshape=(max_size,), **h5opts)
    grp.create_dataset("bin2_id", dtype=dtypes.get("bin2_id", BIN_DTYPE), shape=(init_size,), maxshape=(max_size,), **h5opts)
    if "count" in columns:
        grp.create_dataset("count", dtype=dtypes.get("count", COUNT_DTYPE), shape=(init_size,), maxshape=(max_size,), **h5opts)
    for col in ["bin1_id", "bin2_id", "count"]:
        try:
            columns.remove(col)
        except ValueError:
            pass
    if columns:
        for col in columns:
            grp.create_dataset(col, dtype=dtypes.get(col, float), shape=(init_size,), maxshape=(max_size,), **h5opts)
''')

ref('cooler.core._tableops.put', 'cooler.core._tableops',
    'every column of the frame is stored at rows [lo, lo+len): dataset created or grown as needed, categoricals as enums',
    ['C01', 'C02', 'C17'])('''
def ref(grp, df, lo=0, store_categories=True, h5opts=None):
    if h5opts is None:
        h5opts = {"compression": "gzip", "compression_opts": 6}
    if isinstance(df, pd.Series):
        df = df.to_frame()
    for field, data in df.items():
        if np.isscalar(data):
            data = np.array([data])
            dtype = data.dtype
            fillvalue = None
        elif isinstance(data.dtype, pd.CategoricalDtype):
            if store_categories:
                cats = data.cat.categories
                enum = (data.cat.codes.dtype, dict(zip(cats, range(len(cats)))))
                data = data.cat.codes
                dtype = h5py.special_dtype(enum=enum)
                fillvalue = -1
            else:
                data = data.cat.codes
                dtype = data.dtype
                fillvalue = -1
        else:
            data = np.asarray(data)
            if data.dtype in (object, str, bytes):
                dtype = np.dtype("S")
                data = np.array(data, dtype=dtype)
                fillvalue = None
            else:
                dtype = data.dtype
                fillvalue = None
        hi = lo + len(data)
        try:
            dset = grp[field]
        except KeyError:
            dset = grp.create_dataset(field, shape=(hi,), dtype=dtype, maxshape=(None,), fillvalue=fillvalue, **h5opts)
        if hi > len(dset):
            dset.resize((hi,))
        dset[lo:hi] = data
''')

ref('cooler.core._tableops.delete', 'cooler.core._tableops',
    'only the named columns that exist are deleted', ['C15'])('''
def ref(grp, fields=None):
    if fields is None:
        fields = list(grp.keys())
    elif isinstance(fields, str):
        fields = [fields]
    for field in fields:
        if field in grp.keys():
            del grp[field]
''')

ref('cooler.create._create._get_dtypes_arg', 'cooler.create._create',
    'deprecated dtype= alias: used only when dtypes is not given, both together refused', ['C01'])('''
def ref(dtypes, kwargs):
    if "dtype" in kwargs:
        if dtypes is None:
            dtypes = kwargs.pop("dtype")
        else:
            raise ValueError("both given")
    return dtypes
''')

ref('cooler.core._rangequery.CSRReader.__init__', 'cooler.core._rangequery',
    'reader state: pixel group, its dtypes, the row-offset index', ['C03'])('''
def ref(self, pixel_grp, bin1_offsets):
    self.pixel_grp = pixel_grp
    self.dtypes = {col: pixel_grp[col].dtype for col in pixel_grp}
    self.bin1_offsets = bin1_offsets
''')

ref('cooler.core._rangequery.CSRReader.get_dict_meta', 'cooler.core._rangequery',
    'an empty result has the three columns (and the index when requested), all of length 0', ['C03'])('''
def ref(self, field, return_index=False):
    dct = {"bin1_id": np.empty((0,), dtype=self.dtypes["bin1_id"]), "bin2_id": np.empty((0,), dtype=self.dtypes["bin2_id"]),
           field: np.empty((0,), dtype=self.dtypes[field])}
    if return_index:
        dct["__index"] = np.empty((0,), dtype=np.int64)
    return dct
''')

ref('cooler.core._rangequery.BaseRangeQuery2D.get', 'cooler.core._rangequery',
    'all task outputs concatenated; an empty query gives the empty result of the right shape', ['C03'])('''
def ref(self):
    dct = concat(*self.__iter__())
    if not dct:
        return self.reader.get_dict_meta(self.field, self.return_index)
    return dct
''')

ref('cooler.core._selectors.RangeSelector2D.__init__', 'cooler.core._selectors', 'selector state', ['C03'])('''
def ref(self, field, slicer, fetcher, shape):
    self.field = field
    self._slice = slicer
    self._fetch = fetcher
    self._shape = shape
''')

ref('cooler.core._selectors.RangeSelector1D.__len__', 'cooler.core._selectors', 'length of the table', ['C14'])('''
def ref(self):
    return self._shape[0]
''')

ref('cooler.core._selectors.RangeSelector1D.shape', 'cooler.core._selectors', 'shape of the table', ['C14'])('''
def ref(self):
    return self._shape
''')

ref('cooler.core._selectors.RangeSelector1D.columns', 'cooler.core._selectors', 'columns of the (possibly restricted) table', ['C14'])('''
def ref(self):
    return self._slice(self.fields, 0, 0).columns
''')

ref('cooler.api.Cooler.open', 'cooler.api', 'the collection group of the file, opened with the mode asked for', ['C13', 'C15', 'C18'])('''
def ref(self, mode="r", **kwargs):
    grp = h5py.File(self.filename, mode, **kwargs)[self.root]
    return closing_hdf5(grp)
''')

ref('cooler.api.Cooler._load_dset', 'cooler.api', 'a dataset of this collection, read whole', ['C08', 'C10'])('''
def ref(self, path):
    with open_hdf5(self.store, **self.open_kws) as h5:
        grp = h5[self.root]
        return grp[path][:]
''')

ref('cooler.api.Cooler.storage_mode', 'cooler.api', 'stored storage-mode, symmetric-upper when absent (schema <= 2)', ['C01', 'C07', 'C08'])('''
def ref(self):
    return self._info.get("storage-mode", "symmetric-upper")
''')

ref('cooler.api.Cooler.chromsizes', 'cooler.api', 'cached chromosome lengths', ['C18'])('''
def ref(self):
    return self._chromsizes
''')

ref('cooler.api.Cooler.chromnames', 'cooler.api', 'names in table order', ['C18'])('''
def ref(self):
    return list(self._chromsizes.index)
''')

ref('cooler.api.Cooler.info', 'cooler.api', 'metadata read from the collection group (live: nnz and nbins as stored now, which the balancing spans are cut from)', ['C01', 'C10', 'C11'])('''
def ref(self):
    with open_hdf5(self.store, **self.open_kws) as h5:
        grp = h5[self.root]
        return info(grp)
''')

ref('cooler.api.Cooler.shape', 'cooler.api', 'square matrix of nbins', ['C03'])('''
def ref(self):
    return (self._info["nbins"],) * 2
''')

ref('cooler.api.info', 'cooler.api', 'every attribute of the group is reported', ['C01'])('''
def ref(h5):
    d = {}
    for k, v in h5.attrs.items():
        if isinstance(v, str):
            try:
                v = json.loads(v)
            except ValueError:
                pass
        d[k] = v
    return d
''')

ref('cooler.api.Cooler.__init__', 'cooler.api',
    'store given as path, URI or open handle resolves to (file, group); the cache is filled through _refresh', ['C03', 'C18'])('''
def ref(self, store, root=None, **kwargs):
    if isinstance(store, str):
        if root is None:
            self.filename, self.root = parse_cooler_uri(store)
        elif h5py.is_hdf5(store):
            with open_hdf5(store, **kwargs) as h5:
                self.filename = h5.file.filename
                self.root = root
        else:
            raise ValueError("not a cooler path")
        self.uri = self.filename + "::" + self.root
        self.store = self.filename
        self.open_kws = kwargs
    else:
        self.filename = store.file.filename
        self.root = store.name
        self.uri = self.filename + "::" + self.root
        self.store = store.file
        self.open_kws = {}
    self._refresh()
''')

ref('cooler.util.open_hdf5', 'cooler.util',
    'a path is opened with the requested mode and closed on exit; an open handle passes through and is never closed or truncated',
    ['C13', 'C15'])('''
def ref(fp, mode="r", *args, **kwargs):
    if isinstance(fp, str):
        own_fh = True
        fh = h5py.File(fp, mode, *args, **kwargs)
    else:
        own_fh = False
        if mode == "r" and fp.file.mode == "r+":
            pass
        elif mode in ("r+", "a") and fp.file.mode == "r":
            raise ValueError("not writeable")
        elif mode == "w":
            raise ValueError("cannot truncate")
        elif mode in ("w-", "x"):
            raise ValueError("exists")
        fh = fp
    try:
        yield fh
    finally:
        if own_fh:
            fh.close()
''')

ref('cooler.util.check_bins', 'cooler.util', 'chromosome column as an ordered categorical in the order of the chromosome table', ['C05', 'C08'])('''
def ref(bins, chromsizes):
    is_cat = isinstance(bins["chrom"].dtype, pd.CategoricalDtype)
    bins = bins.copy()
    if not is_cat:
        bins["chrom"] = pd.Categorical(bins.chrom, categories=list(chromsizes.index), ordered=True)
    else:
        assert (bins["chrom"].cat.categories == chromsizes.index).all()
    return bins
''')

ref('cooler.util.mad', 'cooler.util', 'median absolute deviation', ['C10'])('''
def ref(data, axis=None):
    return np.median(np.abs(data - np.median(data, axis)), axis)
''')

ref('cooler.util.balanced_partition', 'cooler.util',
    'work units tile every requested chromosome present in the file from 0 to its length, cut at bin starts', ['C05'])('''
def ref(gs, n_chunk_max, file_contigs, loadings=None):
    grouped = gs._bins_grouped
    chrom_nbins = grouped.size()
    if loadings is None:
        loadings = chrom_nbins
    chrmax = loadings.idxmax()
    loadings = loadings / loadings.loc[chrmax]
    const = chrom_nbins.loc[chrmax] / n_chunk_max
    granges = []
    for chrom, group in grouped:
        if chrom not in file_contigs:
            continue
        clen = gs.chromsizes[chrom]
        step = int(np.ceil(const / loadings.loc[chrom]))
        anchors = group.start.values[::step]
        if anchors[-1] != clen:
            anchors = np.r_[anchors, clen]
        granges.extend((chrom, start, end) for start, end in zip(anchors[:-1], anchors[1:]))
    return granges
''')

ref('cooler.create._ingest.TabixAggregator.__iter__', 'cooler.create._ingest',
    'every work unit is aggregated; empty units skipped; chunks converted column-wise', ['C05'])('''
def ref(self):
    granges = balanced_partition(self.gs, self.n_chunks, self.file_contigs)
    for df in self._map(self.aggregate, granges):
        if df is not None:
            yield {k: v.values for k, v in df.items()}
''')

ref('cooler.create._ingest.PairixAggregator.__iter__', 'cooler.create._ingest',
    'every work unit is aggregated; empty units skipped', ['C05'])('''
def ref(self):
    granges = balanced_partition(self.gs, self.n_chunks, self.file_contigs)
    for df in self._map(self.aggregate, granges):
        if df is not None:
            yield {k: v.values for k, v in df.items()}
''')

ref('cooler.create._ingest.HDF5Aggregator.__iter__', 'cooler.create._ingest', 'chromosomes in table order', ['C05'])('''
def ref(self):
    for chrom in self.gs.contigs:
        for df in self.aggregate(chrom):
            yield {k: v.values for k, v in df.items()}
''')

ref('cooler.create._ingest.HDF5Aggregator._index_chroms', 'cooler.create._ingest',
    'extent of each chromosome on the first axis from the run-length encoding; unsorted input refused', ['C05'])('''
def ref(self):
    starts, lengths, values = rlencode(self.h5[self.C1], self.chunksize)
    if len(set(values)) != len(values):
        raise ValueError("not sorted")
    return dict(zip(values, zip(starts, starts + lengths)))
''')

ref('cooler.create._ingest.ArrayLoader.__init__', 'cooler.create._ingest', 'the matrix dimension must equal the number of bins', ['C01'])('''
def ref(self, bins, array, chunksize):
    if len(bins) != array.shape[0]:
        raise ValueError("dimension mismatch")
    self.array = array
    self.chunksize = chunksize
''')

ref('cooler.parallel.MultiplexDataPipe.__iter__', 'cooler.parallel', 'iterating a pipeline runs it', ['C11'])('''
def ref(self):
    return iter(self.run())
''')

ref('cooler.util.buffered', 'cooler.util', 'incoming chunks are passed on in order, none dropped, none repeated', ['C16'])('''
def ref(chunks, size=10000000):
    buf = []
    n = 0
    for chunk in chunks:
        n += len(chunk)
        buf.append(chunk)
        if n > size:
            yield pd.concat(buf, axis=0)
            buf = []
            n = 0
    if len(buf):
        yield pd.concat(buf, axis=0)
''')

ref('cooler.fileops.TreeNode.__init__', 'cooler.fileops', 'a tree node keeps the object, its depth and the depth limit', ['C15', 'C17'])('''
def ref(self, obj, depth=0, level=None):
    self.obj = obj
    self.depth = depth
    self.level = level
''')

ref('cooler.fileops.TreeNode.get_children', 'cooler.fileops',
    'one child node per member, in member order (the traversal pairs children with member names positionally), one level deeper, '
    'none below the depth limit', ['C15', 'C17'])('''
def ref(self):
    if hasattr(self.obj, "values"):
        if self.level is None or self.depth < self.level:
            return [self.__class__(o, depth=self.depth + 1, level=self.level) for o in self.obj.values()]
    return []
''')

ref('cooler.cli.fileops.cp', 'cooler.cli.fileops', 'cooler cp copies SRC to DST, overwriting only when asked', ['C15'])('''
def ref(src_uri, dst_uri, overwrite):
    fileops.cp(src_uri, dst_uri, overwrite=overwrite)
''')

ref('cooler.cli.fileops.mv', 'cooler.cli.fileops', 'cooler mv renames SRC to DST, overwriting only when asked', ['C15'])('''
def ref(src_uri, dst_uri, overwrite):
    fileops.mv(src_uri, dst_uri, overwrite=overwrite)
''')

ref('cooler.cli.fileops.ln', 'cooler.cli.fileops', 'cooler ln links SRC at DST: hard unless --soft, overwriting only when asked', ['C15'])('''
def ref(src_uri, dst_uri, overwrite, soft):
    fileops.ln(src_uri, dst_uri, overwrite=overwrite, soft=soft)
''')

ref('cooler.cli.fileops.ls', 'cooler.cli.fileops', 'cooler ls prints one URI per collection of the file, exactly those listed', ['C15'])('''
def ref(cool_path, long):
    from ..api import Cooler
    for group_path in fileops.list_coolers(cool_path):
        uri = cool_path + "::" + group_path
        if long:
            binsize = Cooler(uri).binsize
            if binsize is None:
                s = f"{uri}\\t<variable>"
            else:
                s = f"{uri}\\t{binsize:,}"
            click.echo(s)
        else:
            click.echo(uri)
''')

ref('cooler.cli.merge.merge', 'cooler.cli.merge',
    'cooler merge: every input, the buffer size, the value columns with their dtypes / aggregations and the file mode reach merge_coolers',
    ['C07'])('''
def ref(out_path, in_paths, chunksize, field, append):
    if len(field):
        field_specifiers = [parse_field_param(arg, includes_colnum=False) for arg in field]
        columns, _, dtypes, agg = zip(*field_specifiers)
        dtypes = {col: dt for col, dt in zip(columns, dtypes) if dt is not None}
        agg = {col: f for col, f in zip(columns, agg) if f is not None}
    else:
        columns, dtypes, agg = ["count"], None, None
    merge_coolers(out_path, in_paths, mergebuf=chunksize, columns=columns, dtypes=dtypes, agg=agg, mode="a" if append else "w")
''')

ref('cooler.cli.coarsen.coarsen', 'cooler.cli.coarsen',
    'cooler coarsen: factor, chunk size, workers, value columns with dtypes / aggregations and file mode reach coarsen_cooler; '
    'the file lock is used exactly when input and output are the same file', ['C08'])('''
def ref(cool_uri, factor, nproc, chunksize, field, out, append):
    infile, _ = parse_cooler_uri(cool_uri)
    outfile, _ = parse_cooler_uri(out)
    same_file = op.realpath(infile) == op.realpath(outfile)
    if len(field):
        field_specifiers = [parse_field_param(arg, includes_colnum=False) for arg in field]
        columns, _, dtypes, agg = zip(*field_specifiers)
        dtypes = {col: dt for col, dt in zip(columns, dtypes) if dt is not None}
        agg = {col: f for col, f in zip(columns, agg) if f is not None}
    else:
        columns, dtypes, agg = ["count"], None, None
    coarsen_cooler(cool_uri, out, factor, chunksize=chunksize, nproc=nproc, columns=columns, dtypes=dtypes, agg=agg,
                   lock=lock if same_file else None, mode="a" if append else "w")
''')

ref('cooler.util.natsort_key', 'cooler.util', 'natural sort key: runs of decimal digits compare as integers (only what int() accepts: isdecimal, not isdigit), the rest as text, empty pieces dropped',
    ['C15', 'C17', 'C20'])('''
def ref(s, _NS_REGEX=re.compile(r"(\\d+)", re.U)):
    return tuple([int(x) if x.isdecimal() else x for x in _NS_REGEX.split(s) if x])
''')

ref('cooler.util.atoi', 'cooler.util', 'integer with thousands separators', ['C19'])('''
def ref(s):
    return int(s.replace(",", ""))
''')

ref('cooler.util.GenomeSegmentation.fetch', 'cooler.util',
    'bins of a region: first bin whose end is beyond the start, up to the last bin that starts before the end; the whole chromosome otherwise',
    ['C04', 'C05'])('''
def ref(self, region):
    chrom, start, end = parse_region(region, self.chromsizes)
    result = self._bins_grouped.get_group(chrom)
    if start > 0 or end < self.chromsizes[chrom]:
        lo = result["end"].values.searchsorted(start, side="right")
        hi = lo + result["start"].values[lo:].searchsorted(end, side="left")
        result = result.iloc[lo:hi]
    return result
''')



def run_for(ctx, prop):
    """Compare every supporting function attached to ``prop``."""
    n = 0
    for qual, r in REFS.items():
        if prop not in r['props']:
            continue
        n += 1
        short = qual.replace('cooler.', '')
        compare(ctx, f'SUP.{short}', ctx.fa(qual), r['src'], module=r['module'], why=r['why'])
    return n
