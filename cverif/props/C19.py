"""C19  Region and URI strings parse to exactly what they denote, or are refused.

 1 exactness (E8): the value returned by parse_humanized is an exact integer on
   every path (no binary floating point between the decimal numeral and int())
 2 refusals: reference models of parse_humanized, parse_region_string (and its
   tokenizer / checker / grammar helpers) and parse_region
 3 token grammar: the COORD / HYPHEN / OTHER regular expressions compared as
   regex syntax trees (re._parser), and the unit table
 4 parse_cooler_uri reference model
"""
from __future__ import annotations

import ast
import re

from .. import terms as T
from ..facts import (C, G, V, arg, bind_call, calls, events, raises, receiver, returns, spec, spec_env, yields)
from ..refcompare import analyze_source, compare, sibling_renames
from . import common
from .C04 import parse_region_rules
from .C15 import REF_URI

META = {
    'explanation': (
        'Exactness typing of parse_humanized over the lattice {str, exact, float-inexact}; effect-level '
        'comparison of parse_humanized, parse_region_string and its three helpers, parse_region and '
        'parse_cooler_uri with reference models derived from the property (what is accepted, what is refused, '
        'unit table); comparison of the token regular expressions as regex syntax trees. The format-then-parse '
        'identity is not decided: the package has no region formatter to anchor it.'),
    'not_decided': ['format-then-parse identity (no region formatter exists in the package)',
                    'trailing garbage after a complete range is silently ignored (not among the refusals the property lists)'],
}

U = 'cooler.util'

REF_HUMANIZED = '''
def ref(s):
    _NUMERIC_RE = re.compile("([0-9,.]+)")
    _, value, unit = _NUMERIC_RE.split(s.replace(",", ""))
    if not len(unit):
        return int(value)
    try:
        value = Decimal(value)
    except InvalidOperation as e:
        raise ValueError("bad numeral") from e
    unit = unit.upper().strip()
    if unit in ("K", "KB"):
        value *= 1000
    elif unit in ("M", "MB"):
        value *= 1000000
    elif unit in ("G", "GB"):
        value *= 1000000000
    else:
        raise ValueError("unknown unit")
    return int(value)
'''

REF_REGION_STRING = '''
def ref(s):
    def _tokenize(s):
        token_spec = [("HYPHEN", r"-"), ("COORD", r"[0-9,]+(\\.[0-9]*)?(?:[a-z]+)?"), ("OTHER", r".+")]
        pattern = r"|\\s*".join([rf"(?P<{pair[0]}>{pair[1]})" for pair in token_spec])
        tok_regex = re.compile(rf"\\s*{pattern}", re.IGNORECASE)
        for match in tok_regex.finditer(s):
            typ = match.lastgroup
            yield typ, match.group(typ)

    def _check_token(typ, token, expected):
        if typ is None:
            raise ValueError("missing token")
        else:
            if typ not in expected:
                raise ValueError("unexpected token")

    def _expect(tokens):
        typ, token = next(tokens, (None, None))
        _check_token(typ, token, ["COORD"])
        start = parse_humanized(token)
        typ, token = next(tokens, (None, None))
        _check_token(typ, token, ["HYPHEN"])
        typ, token = next(tokens, (None, None))
        if typ is None:
            return start, None
        _check_token(typ, token, ["COORD"])
        end = parse_humanized(token)
        if end < start:
            raise ValueError("reversed")
        typ, token = next(tokens, (None, None))
        if typ is not None and token.strip():
            raise ValueError("anything but blanks after the end coordinate")
        return start, end

    parts = s.split(":")
    chrom = parts[0].strip()
    if not len(chrom):
        raise ValueError("empty name")
    if len(parts) < 2:
        return (chrom, None, None)
    if len(parts) > 2:
        raise ValueError("a second colon")
    start, end = _expect(_tokenize(parts[1]))
    return (chrom, start, end)
'''

REF_PARSE_REGION = '''
def ref(reg, chromsizes=None):
    if isinstance(reg, str):
        chrom, start, end = parse_region_string(reg)
    else:
        chrom, start, end = reg
        start = int(start) if start is not None else start
        end = int(end) if end is not None else end
    try:
        clen = chromsizes[chrom] if chromsizes is not None else None
    except KeyError as e:
        raise ValueError("unknown sequence") from e
    start = 0 if start is None else start
    if end is None:
        if clen is None:
            raise ValueError("no end")
        end = clen
    if end < start:
        raise ValueError("reversed")
    if start < 0 or (clen is not None and end > clen):
        raise ValueError("out of bounds")
    return chrom, start, end
'''


def _exact(x):
    """Decimal / Fraction constructors are one 'exact rational' marker."""
    if x[0] == 'call' and x[1] in (G('decimal.Decimal'), G('fractions.Fraction')):
        return ('call', G('$exact'), x[2], x[3])
    if x[0] == 'g' and x[1] in ('decimal.InvalidOperation',):
        return G('$exact-error')
    return None


def run(ctx):
    fa = ctx.fa(f'{U}.parse_humanized')
    exactness(ctx, fa)
    compare(ctx, 'C19.humanized', fa, REF_HUMANIZED, module=U, normalize=_exact,
            why='numeral x unit with the unit table K/KB, M/MB, G/GB (case-insensitive); unknown unit and malformed numeral refused')
    fs = ctx.fa(f'{U}.parse_region_string')
    ref = analyze_source(ctx.repo, U, REF_REGION_STRING)
    compare(ctx, 'C19.region_string', fs, None, ref_fa=ref, why='empty name refused; bare name -> open range; otherwise start-end grammar')
    for name, why in (('_tokenize', 'tokens are HYPHEN | COORD | OTHER, whitespace skipped, case-insensitive'),
                      ('_check_token', 'a missing or unexpected token is refused'),
                      ('_expect', 'COORD HYPHEN [COORD]; end < start refused (equal is the legal empty range)')):
        compare(ctx, f'C19.region_string.{name}', ctx.fa(f'{U}.parse_region_string.<locals>.{name}'), None,
                ref_fa=ref.nested_analyses[name], why=why, extra_rename=sibling_renames(fs, ref))
    token_grammar(ctx)
    compare(ctx, 'C19.parse_region', ctx.fa(f'{U}.parse_region'), REF_PARSE_REGION, module=U,
            why='defaults (0 / chromosome length), unknown name, reversed and out-of-bounds ranges refused - on every path')
    parse_region_rules(ctx)
    compare(ctx, 'C19.uri', ctx.fa(f'{U}.parse_cooler_uri'), REF_URI, module=U,
            why='file::group splits into the same (file, /group) pair however the leading slash is written; more than one "::" refused')
    atoi(ctx)


def exactness(ctx, fa):
    """Small typed domain {str, exact, inexact}."""
    R = 'C19.exactness'

    def ty(t):
        k = t[0]
        if k == 'c':
            if type(t[1]) is int:
                return 'exact'
            if isinstance(t[1], float):
                return 'inexact'
            return 'str'
        if k == 'call':
            f = t[1]
            if f in (G('decimal.Decimal'), G('fractions.Fraction')):
                return 'exact' if all(ty(a) in ('str', 'exact') for a in t[2]) else 'inexact'
            if f == G('float') or f in (G('np.float64'), G('np.float32')):
                return 'inexact'
            if f == G('int'):
                inner = ty(t[2][0]) if t[2] else 'exact'
                return 'exact' if inner in ('str', 'exact') else 'inexact'
            if f in (G('round'), G('np.round'), G('np.floor'), G('np.ceil'), G('math.floor'), G('math.ceil')):
                return ty(t[2][0]) if t[2] else 'exact'
            return 'str'
        if k in ('lin',):
            parts = [ty(li[1]) for li in t[2]]
            return 'inexact' if 'inexact' in parts else 'exact'
        if k == 'mul':
            parts = [ty(x) for x in t[1]]
            return 'inexact' if 'inexact' in parts else 'exact'
        if k in ('div',):
            return 'inexact'
        if k in ('floordiv', 'ceildiv'):
            return 'inexact' if 'inexact' in (ty(t[1]), ty(t[2])) else 'exact'
        if k == 'ite':
            a, b = ty(t[2]), ty(t[3])
            return 'inexact' if 'inexact' in (a, b) else ('exact' if 'exact' in (a, b) else 'str')
        if k == 'bin':
            return 'inexact' if 'inexact' in (ty(t[2]), ty(t[3])) else 'exact'
        return 'str'
    rets = returns(fa)
    if not rets:
        ctx.unrec(R, 'returns', ctx.where(fa), reason='no return')
        return
    for k, r in enumerate(rets):
        t = ty(r.value)
        ctx.check(t != 'inexact', R, f'return#{k + 1}', ctx.where(fa, r), found=f'{t}: {T.show(r.value)[:300]}',
                  expected='exact integer: int() of a string or of an exact (Decimal / Fraction / integer) product',
                  reason='"1.001k" must parse to 1001: 1.001 * 1000 in binary floating point is 1000.9999999999999 and int() truncates',
                  key=f'{R}|parse_humanized|float-between-numeral-and-int')


def _regex_tree(pattern, flags=0):
    import re._parser as sre       # noqa  (CPython's own regex parser; parses, does not match)
    def norm(node):
        if isinstance(node, (list, tuple)) or type(node).__name__ == 'SubPattern':
            return tuple(norm(x) for x in node)
        if type(node).__name__ == '_NamedIntConstant':
            return str(node)
        return node
    tree = norm(sre.parse(pattern, flags))
    # expand \\d to the digit range so that [0-9] and \\d compare equal
    def expand(n):
        if isinstance(n, tuple):
            if len(n) == 2 and n[0] == 'CATEGORY' and n[1] == 'CATEGORY_DIGIT':
                return ('RANGE', (48, 57))
            return tuple(expand(x) for x in n)
        return n
    return expand(tree)


def token_grammar(ctx):
    R = 'C19.token-grammar'
    fa = ctx.fa(f'{U}.parse_region_string.<locals>._tokenize')
    spec_list = None
    for n in ast.walk(fa.fi.node):
        if isinstance(n, ast.Assign) and isinstance(n.value, ast.List) and n.value.elts and all(
                isinstance(e, ast.Tuple) and len(e.elts) == 2 and all(isinstance(x, ast.Constant) for x in e.elts) for e in n.value.elts):
            spec_list = [(e.elts[0].value, e.elts[1].value) for e in n.value.elts]
    if not spec_list:
        ctx.unrec(R, 'token_spec', ctx.where(fa), reason='literal token table not found')
        return
    want = [('HYPHEN', r'-'), ('COORD', r'[0-9,]+(\.[0-9]*)?(?:[a-z]+)?'), ('OTHER', r'.+')]
    ctx.check([n for n, _ in spec_list] == [n for n, _ in want], R, 'token-order', ctx.where(fa), found=[n for n, _ in spec_list],
              expected=[n for n, _ in want], reason='alternation order decides which token a text becomes (HYPHEN before COORD before OTHER)')
    got = dict(spec_list)
    for name, pat in want:
        try:
            a = _regex_tree(got.get(name, ''), re.IGNORECASE)
            b = _regex_tree(pat, re.IGNORECASE)
        except re.error as e:
            ctx.bad(R, name, ctx.where(fa), found=f'invalid regex: {e}', expected=pat, key=f'{R}|{name}|invalid')
            continue
        ctx.check(a == b, R, name, ctx.where(fa), found=got.get(name), expected=pat,
                  reason={'COORD': 'digits and commas, one optional fractional part, an optional alphabetic unit',
                          'HYPHEN': 'the range separator', 'OTHER': 'anything else (refused by the grammar)'}[name])
    flags = [e for e in calls(fa, 're.compile')]
    ok = bool(flags) and len(flags[0].args) >= 2 and flags[0].args[1] == G('re.IGNORECASE')
    ctx.check(ok, R, 'case-insensitive', ctx.where(fa), found=[T.show(a) for a in flags[0].args[1:]] if flags else None,
              expected='re.IGNORECASE', reason='units may be written in either case')


def atoi(ctx):
    R = 'C19.atoi'
    fa = ctx.fa(f'{U}.atoi')
    r = returns(fa)
    want = spec(ctx.repo, 'int(s.replace(",", ""))', {'s': V('s')})
    ctx.eq(R, 'commas-removed', r[-1].value if r else None, want, ctx.where(fa), 'thousands separators are removed before conversion')


def decimal_context_untouched(ctx):
    """The exactness of parse_humanized (Decimal numeral x power of ten, then int) holds under the thread's default decimal
    context (28 significant digits).  Nothing in the package may change that context: one `getcontext().prec = 3` in a display
    helper would make every later "1.2345M" parse to 1230000 (two sites that each look fine alone).  Whole-package sweep:
    stores into attributes of decimal.getcontext(), calls of decimal.setcontext, and `decimal.getcontext().<attr> op= ...`."""
    import ast
    import os
    R = 'C19.decimal-context'
    sites = []
    n_mod = 0

    def is_getcontext(node, m):
        if not isinstance(node, ast.Call):
            return False
        f = node.func
        if isinstance(f, ast.Attribute) and f.attr == 'getcontext' and isinstance(f.value, ast.Name):
            imp = m.imports.get(f.value.id)
            return bool(imp) and imp[1] == 'decimal'
        if isinstance(f, ast.Name):
            imp = m.imports.get(f.id)
            return bool(imp) and imp[1] in ('decimal.getcontext',)
        return False

    def is_setcontext(node, m):
        f = node.func
        if isinstance(f, ast.Attribute) and f.attr == 'setcontext' and isinstance(f.value, ast.Name):
            imp = m.imports.get(f.value.id)
            return bool(imp) and imp[1] == 'decimal'
        if isinstance(f, ast.Name):
            imp = m.imports.get(f.id)
            return bool(imp) and imp[1] == 'decimal.setcontext'
        return False
    for name, m in sorted(ctx.repo.modules.items()):
        n_mod += 1
        aliases = set()          # names bound to the context object:  c = getcontext()
        for node in ast.walk(m.tree):
            if isinstance(node, ast.Assign) and is_getcontext(node.value, m):
                aliases.update(t.id for t in node.targets if isinstance(t, ast.Name))
        for node in ast.walk(m.tree):
            targets = []
            if isinstance(node, ast.Assign):
                targets = node.targets
            elif isinstance(node, (ast.AugAssign, ast.AnnAssign)):
                targets = [node.target]
            for t in targets:
                if isinstance(t, ast.Attribute) and (is_getcontext(t.value, m) or (isinstance(t.value, ast.Name) and t.value.id in aliases)):
                    sites.append((m, node, f'decimal context attribute {t.attr} assigned'))
            if isinstance(node, ast.Call) and is_setcontext(node, m):
                sites.append((m, node, 'decimal.setcontext called'))
    if not sites:
        ctx.ok(R, 'package-wide', '', found=f'0 writes to the decimal context in {n_mod} modules', expected='none',
               reason='the exact Decimal arithmetic of parse_humanized relies on the default context precision')
    for m, node, what in sites:
        ctx.bad(R, 'context-write', f'{os.path.relpath(m.path, ctx.repo.root)}:{node.lineno} {m.name}', found=what,
                expected='no code of the package changes the thread-wide decimal context (use decimal.localcontext() for display rounding)',
                reason='after this statement has run, unit-suffixed coordinates with more significant digits than the new precision '
                       'are rounded by parse_humanized: "1.2345M" no longer parses to 1234500',
                key=f'{R}|{m.name}|{what}')


_run_core = run


def run(ctx):
    _run_core(ctx)
    decimal_context_untouched(ctx)
    from . import refs_misc
    refs_misc.run_for(ctx, 'C19')
    from . import reflib
    reflib.run_for(ctx, 'C19')
