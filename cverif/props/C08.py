"""C08  Coarsening by k is exact block aggregation within each chromosome.

Effect-level comparison with reference models of
  CoolerCoarsener.__init__    work-unit edges = old row offsets every k bins
                              *per chromosome* plus the closing offset, pruned
                              by selection only (no coarse row is split)
  _greedy_prune_partition     returns a selection edges[idx] incl. first & last
  coarsen_bins / _each        start of every k-th bin, end of the k-th following
                              bin, chromosome end for the remainder group
  _aggregate                  re-binning by start coordinate (floor division or
                              last-start-<=), group by new (bin1, bin2), sorted
  __iter__                    spans = adjacent edges, batches of batchsize,
                              results yielded in order, lock paired
  coarsen_cooler              symmetric flag, dtypes, columns, agg forwarded,
                              ordered map
"""
from __future__ import annotations

from .. import terms as T
from ..facts import (C, G, V, arg, bind_call, calls, events, receiver, returns, spec, spec_env, yields)
from ..refcompare import analyze_source, compare
from . import common

META = {
    'explanation': (
        'Effect-level comparison (normalised symbolic dataflow) of the coarsening classes/functions with '
        'reference models derived from the property: boundary provenance of work units (row offsets at '
        'every k-th bin of each chromosome, pruning by selection), the coarsened bin table, re-binning and '
        'grouped+sorted aggregation, batch partition and ordered consumption, lock acquire/release pairing, '
        'and the arguments that reach create(). Commutation with merge, composition k1*k2 and independence '
        'of worker count as runtime equalities are not decided.'),
    'not_decided': ['worker scheduling (ordered Pool.map is trusted)', 'commutation with merge and composition k1*k2 as runtime facts',
                    'pandas group-by / apply semantics'],
}

RED = 'cooler._reduce'

REF_INIT = '''
def ref(self, source_uri, factor, chunksize, columns, agg, batchsize, map=map):
    self._map = map
    self.source_uri = source_uri
    self.batchsize = batchsize
    assert isinstance(factor, int) and factor > 1
    self.factor = factor
    self.chunksize = int(chunksize)
    self.index_columns = ["bin1_id", "bin2_id"]
    self.value_columns = list(columns)
    self.columns = self.index_columns + self.value_columns
    self.agg = {col: "sum" for col in self.value_columns}
    if agg is not None:
        self.agg.update(agg)
    clr = Cooler(source_uri)
    chromsizes = clr.chromsizes
    self.old_binsize = clr.binsize
    self.old_chrom_offset = clr._load_dset("indexes/chrom_offset")
    self.old_bin1_offset = clr._load_dset("indexes/bin1_offset")
    if self.old_binsize is None:
        self.new_binsize = None
    else:
        self.new_binsize = self.old_binsize * factor
    old_bins = clr.bins()[["chrom", "start", "end"]][:]
    self.new_bins = self.coarsen_bins(old_bins, chromsizes, factor)
    self.gs = GenomeSegmentation(chromsizes, self.new_bins)
    # row offsets at every k-th bin of each chromosome, then the closing offset
    cuts = []
    for _name, i in self.gs.idmap.items():
        c0 = self.old_chrom_offset[i]
        c1 = self.old_chrom_offset[i + 1]
        cuts.extend(self.old_bin1_offset[c0:c1:factor])
    cuts.append(self.old_bin1_offset[-1])
    self.edges = _greedy_prune_partition(cuts, self.chunksize)
'''

REF_PRUNE = '''
def ref(edges, maxlen):
    edges = np.asarray(edges)
    assert len(edges) >= 2 and edges[0] == 0
    cumlen = np.r_[0, np.cumsum(np.diff(edges))]
    cuts = [maxlen * i for i in range(0, int(np.ceil(cumlen[-1] / maxlen)))]
    cuts.append(cumlen[-1])
    idx = np.unique(np.searchsorted(cumlen, cuts))
    return edges[idx]
'''

REF_COARSEN_BINS = '''
def ref(old_bins, chromsizes, factor):
    def _each(group):
        out = group[["chrom", "start"]].copy().iloc[::factor]
        end = group["end"].iloc[factor - 1 :: factor].values
        if len(end) < len(out):
            end = np.r_[end, chromsizes[group.name]]
        out["end"] = end
        return out
    return (old_bins.groupby("chrom", observed=True)[["chrom", "start", "end"]].apply(_each).reset_index(drop=True))
'''

REF_AGGREGATE = '''
def ref(self, span):
    lo, hi = span
    clr = Cooler(self.source_uri)
    table = clr.pixels(join=True, convert_enum=False)[self.columns]
    chunk = table[lo:hi]
    gs = self.gs
    c1 = chunk["chrom1"].values
    c2 = chunk["chrom2"].values
    s1 = chunk["start1"].values
    s2 = chunk["start2"].values
    if gs.binsize is None:
        chunk["bin1_id"] = np.searchsorted(gs.start_abspos, gs.chrom_abspos[c1] + s1, side="right") - 1
        chunk["bin2_id"] = np.searchsorted(gs.start_abspos, gs.chrom_abspos[c2] + s2, side="right") - 1
    else:
        chunk["bin1_id"] = gs.chrom_binoffset[c1] + s1 // gs.binsize
        chunk["bin2_id"] = gs.chrom_binoffset[c2] + s2 // gs.binsize
    return chunk.groupby(self.index_columns, sort=True).aggregate(self.agg).reset_index()
'''

REF_ITER = '''
def ref(self):
    batchsize = self.batchsize
    spans = list(zip(self.edges[:-1], self.edges[1:]))
    for i in range(0, len(spans), batchsize):
        try:
            if batchsize > 1:
                lock.acquire()
            results = self._map(self.aggregate, spans[i : i + batchsize])
        finally:
            if batchsize > 1:
                lock.release()
        for df in results:
            yield {k: v.values for k, v in df.items()}
'''

REF_COARSEN_COOLER = '''
def ref(base_uri, output_uri, factor, chunksize, nproc=1, columns=None, dtypes=None, agg=None, **kwargs):
    clr = Cooler(base_uri)
    factor = int(factor)
    if columns is None:
        columns = ["count"]
    dtypes = {} if dtypes is None else dict(dtypes)      # a private copy: the caller's dict is never written (F28)
    have = clr.pixels().dtypes
    for col in columns:
        if col not in have:
            raise ValueError("missing column")
        else:
            dtypes.setdefault(col, have[col])
    try:
        if nproc > 1:
            pool = mp.Pool(nproc)
            kwargs.setdefault("lock", lock)
        it = CoolerCoarsener(base_uri, factor, chunksize, columns=columns, agg=agg, batchsize=nproc,
                             map=pool.map if nproc > 1 else map)
        new_bins = it.new_bins
        kwargs.setdefault("append", True)
        create(output_uri, new_bins, it, columns=columns, dtypes=dtypes,
               symmetric_upper=clr.storage_mode == "symmetric-upper", **kwargs)
    finally:
        if nproc > 1:
            pool.close()
'''


def run(ctx):
    compare(ctx, 'C08.edges', ctx.fa(f'{RED}.CoolerCoarsener.__init__'), REF_INIT,
            why='work-unit boundaries are old row offsets at every k-th bin of each chromosome plus the closing offset: no coarse row is split')
    compare(ctx, 'C08.prune', ctx.fa(f'{RED}._greedy_prune_partition'), REF_PRUNE,
            why='pruning returns a selection of the given edges (first and last kept), never a new cut point')
    fb = ctx.fa(f'{RED}.CoolerCoarsener.coarsen_bins')
    ref = analyze_source(ctx.repo, RED, REF_COARSEN_BINS)
    compare(ctx, 'C08.bins', fb, None, ref_fa=ref,
            why='new bin table = groups of k consecutive old bins per chromosome')
    fe = ctx.fa(f'{RED}.CoolerCoarsener.coarsen_bins.<locals>._each')
    compare(ctx, 'C08.bins-each', fe, None, ref_fa=ref.nested_analyses['_each'],
            why='start of every k-th bin; end of the (k-1)-th following bin; the remainder group ends at the chromosome length')
    compare(ctx, 'C08.rebin', ctx.fa(f'{RED}.CoolerCoarsener._aggregate'), REF_AGGREGATE,
            why='each old pixel goes to the new bins containing the start of its old bins (same side\'s chromosome and start), '
                'grouped by the new id pair, sorted')
    compare(ctx, 'C08.iter', ctx.fa(f'{RED}.CoolerCoarsener.__iter__'), REF_ITER,
            why='spans are adjacent edge pairs; batches tile the span list; results are yielded in order; the lock is released on all exits')
    compare(ctx, 'C08.driver', ctx.fa(f'{RED}.coarsen_cooler'), REF_COARSEN_COOLER,
            why='symmetric flag, dtypes, agg and columns reach the coarsener / create(); pool.map keeps order')
    agg_wrapper(ctx)
    common.lock_pairing(ctx, [f'{RED}.CoolerCoarsener.__iter__', 'cooler.create._create.write_pixels',
                              'cooler.parallel.chunkgetter.__call__'])
    common.get_binsize_all_bins(ctx)


def agg_wrapper(ctx):
    R = 'C08.aggregate-wrapper'
    fa = ctx.fa(f'{RED}.CoolerCoarsener.aggregate')
    r = returns(fa)
    want = T.call(T.attr(V('self'), '_aggregate'), (V('span'),))
    ctx.eq(R, 'delegates', r[-1].value if r else None, want, ctx.where(fa), 'the mapped worker is _aggregate on the same span')


_run_core = run


def run(ctx):
    _run_core(ctx)
    from . import refs_misc
    refs_misc.run_for(ctx, 'C08')
    from . import reflib
    reflib.run_for(ctx, 'C08')
