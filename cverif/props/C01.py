"""C01  Create-then-read round trip returns exactly the matrix that was stored.

Decided clauses (structural necessary conditions, DESIGN.md section 4 / C01):
 1 append discipline of write_pixels (running offset, one advance per chunk,
   every column gets the same slice, nothing skipped)
 2 the column list prepared, written and described is one list
 3 a data frame / dict input is sorted by (bin1_id, bin2_id) and forced ordered
 4 dense loader: index-space typing (chunk-local rows are shifted by lo
   everywhere, diagonal kept, values read with local indices)
 5 full-matrix view fills the lower triangle iff storage mode is symmetric-upper
 6 assembly / metadata reach the attributes
 7 reader decodes exactly what the writer encoded (codec agreement)
 8 table reader slices every column with the same row range (shared with C14)
"""
from __future__ import annotations

from .. import terms as T
from ..facts import (C, G, V, arg, bind_call, ite_arms, calls, events, returns, spec, yields,
                     strip_conv, unobj)
from ..symeval import mk_elem
from . import common

META = {
    'explanation': (
        'Static (ast-based) decision of the structural clauses of C01: append discipline of the '
        'pixel writer (store slice = [acc, acc+n) for every column, acc advanced once per chunk by '
        'the stored length, returned nnz is the running offset); column-list provenance; sort key '
        'of data-frame input; index-space typing of the dense loader; engine choice tied to the '
        'storage mode on write and read side; assembly/metadata provenance; writer/reader codec '
        'agreement; same-row-range slicing of every column in the table reader. The behaviour '
        '(values read back equal values stored) is NOT decided: it depends on h5py/pandas.'),
    'not_decided': ['value dtypes and casts', 'HDF5 filter options', 'pandas sort_values / h5py semantics',
                    'dask input', 'that a user-supplied ordered stream is really ordered'],
}


def run(ctx):
    common.write_pixels_append(ctx, 'C01')
    columns_provenance(ctx)
    sort_before_ordered(ctx)
    array_loader(ctx)
    engine_choice(ctx)
    metadata_provenance(ctx)
    common.codec_agreement(ctx)
    common.table_get_slices(ctx)


# ---------------------------------------------------------------------------

def columns_provenance(ctx):
    fa = ctx.fa('cooler.create._create.create')
    R = 'C01.2-columns'
    metas = [e for e in events(fa, 'assign') if e.name == 'meta' or
             (e.value[0] == 'call' and e.value[1] == G('cooler.util.get_meta'))]
    gm = calls(fa, 'cooler.util.get_meta')
    if not gm:
        ctx.unrec(R, 'get_meta', ctx.where(fa), reason='no call to util.get_meta in create()')
        return
    meta = gm[0].term
    cols = T.attr(meta, 'columns')
    pp = calls(fa, 'cooler.create._create.prepare_pixels')
    wp = calls(fa, 'cooler.create._create.write_pixels')
    if not pp or not wp:
        ctx.unrec(R, 'prepare/write', ctx.where(fa), reason='prepare_pixels/write_pixels call missing')
        return
    for e in pp:
        b, _, _ = bind_call(ctx.repo, 'cooler.create._create.prepare_pixels', e)
        ctx.eq(R, f'prepare_pixels.columns@{"scool" if any(T.show(c) == "append_scool" and p for c, p in e.guards) else "plain"}',
               b.get('columns'), cols, ctx.where(fa, e),
               'the columns created must be the columns of the meta frame that also drives the writer')
    for e in wp:
        b, _, _ = bind_call(ctx.repo, 'cooler.create._create.write_pixels', e)
        ctx.eq(R, 'write_pixels.columns', b.get('columns'), cols, ctx.where(fa, e),
               'the columns written must be the columns prepared')
    # meta is built from the `columns` list which always contains both id columns
    colarg = arg(gm[0], 0, 'columns')
    # on the user-supplied path the two id columns are inserted when missing
    ins = [e for e in calls(fa, method='insert')]
    loops = [l for l in fa.loops.values() if l.iter == T.lst([C('bin1_id'), C('bin2_id')])
             or l.iter == T.tup([C('bin1_id'), C('bin2_id')])]
    ok_ins = False
    for e in ins:
        if e.loops and e.loops[-1] in {l.id for l in loops}:
            l = fa.loops[e.loops[-1]]
            col = mk_elem(l.iter, l.id, ())
            neg = e.under(T.cmp('not in', col, e.f[1]))
            if arg(e, 1) == col and neg:
                ok_ins = True
    # the same written out (a loop over a literal list is evaluated as the statements it abbreviates)
    done = {arg(e, 1)[1] for e in ins if arg(e, 1) is not None and arg(e, 1)[0] == 'c' and arg(e, 0) == C(0)
            and e.under(T.cmp('not in', arg(e, 1), T.unmut(e.f[1])))} if ins else set()
    if {'bin1_id', 'bin2_id'} <= done:
        ok_ins = True
    ctx.check(ok_ins, R, 'id-columns-inserted', ctx.where(fa),
              found='insert under "col not in columns" for each of [bin1_id, bin2_id]' if ok_ins else 'missing',
              expected='columns.insert(0, col) for col in [bin1_id, bin2_id] if col not in columns',
              reason='a user column list without the id columns must still store both ids')
    dflt = [e for e in events(fa, 'assign') if e.name == 'columns' and unobj(e.value)[0] == 'list']
    ok_d = any(set(x[1] for x in unobj(e.value)[1] if x[0] == 'c') >= {'bin1_id', 'bin2_id', 'count'} for e in dflt)
    ctx.check(ok_d, R, 'default-columns', ctx.where(fa), found=[T.show(e.value) for e in dflt],
              expected="['bin1_id', 'bin2_id', 'count']", reason='default column list')


def sort_before_ordered(ctx):
    fa = ctx.fa('cooler.create._create.create_cooler')
    R = 'C01.3-sort'
    cr = calls(fa, 'cooler.create._create.create')
    if not cr:
        ctx.unrec(R, 'create-call', ctx.where(fa), reason='create_cooler no longer calls create()')
        return
    pix = V('pixels')
    isdf = spec(ctx.repo, 'isinstance(pixels, (pd.DataFrame, dict))', {'pixels': pix},
                'cooler.create._create')
    for e in cr:
        b, _, _ = bind_call(ctx.repo, 'cooler.create._create.create', e)
        p = b.get('pixels')
        # the frame/dict arm of the pixels argument must be a sort by exactly [bin1_id, bin2_id]
        arm = None
        for cond, a in ite_arms(p):
            if _covers_frame_and_dict(cond):
                arm = a
        if arm is None:
            ctx.bad(R, 'frame-arm', ctx.where(fa, e), found=p,
                    expected='sort_values([bin1_id, bin2_id]) of the frame when pixels is a DataFrame or dict',
                    reason='a one-shot frame/dict input is not required to be sorted by the caller',
                    key='C01.3-sort|frame-arm-missing')
            continue
        ok = (arm[0] == 'call' and arm[1][0] == 'attr' and arm[1][2] == 'sort_values'
              and arg_of(arm, 0, 'by') == T.lst([C('bin1_id'), C('bin2_id')])
              and not _has_kw(arm, 'ascending'))
        ctx.check(ok, R, 'sort-key', ctx.where(fa, e), found=arm,
                  expected="<frame>.sort_values(['bin1_id', 'bin2_id'])",
                  reason='pixels must be strictly increasing in (row, column); sorting by a shorter/other key breaks C01/C02')
        src = arm[1][1] if arm[0] == 'call' and arm[1][0] == 'attr' else None
        ok2 = src is not None and T.contains(src, pix)
        ctx.check(ok2, R, 'sort-source', ctx.where(fa, e), found=src, expected='DataFrame(pixels)',
                  reason='the sorted frame must be built from the pixels argument')
        # the create() call must be reached on the frame path: ordered forced true
        g = [c for c, pol in e.guards]
    # `ordered` is forced on the frame path
    asg = [e for e in events(fa, 'assign') if e.name == 'ordered']
    ok3 = any(e.value == T.TRUE and any(_covers_frame_and_dict(t) for t in e.nguards) for e in asg)
    ctx.check(ok3, R, 'ordered-forced', ctx.where(fa), found=[T.show(e.value) for e in asg], expected='ordered = True on the frame/dict path',
              reason='otherwise a frame would be iterated column-name-wise by the unordered path')
    # dispatch: create() under `ordered`, create_from_unordered under not ordered
    un = calls(fa, 'cooler.create._create.create_from_unordered')
    okd = all(any(p for c, p in e.guards if _is_ordered(c)) for e in cr) and \
        all(any((not p) for c, p in e.guards if _is_ordered(c)) for e in un) and bool(un)
    ctx.check(okd, R, 'dispatch', ctx.where(fa), found='create under ordered / unordered otherwise' if okd else 'dispatch changed',
              expected='ordered -> create, else create_from_unordered')


def _is_ordered(c):
    return c[0] == 'ite' and c[2] == T.TRUE or c == V('ordered') or (c[0] == 'ite' and T.contains(c, V('ordered')))


def _covers_frame_and_dict(cond):
    """isinstance(pixels, DataFrame) or isinstance(pixels, dict) (in either spelling / order)."""
    parts = cond[1] if cond[0] == 'or' else (cond,)
    names = set()
    for c in parts:
        if c[0] != 'call' or c[1] != G('isinstance') or len(c[2]) != 2 or c[2][0] != V('pixels'):
            return False
        kinds = c[2][1]
        names |= {T.show(x) for x in (kinds[1] if kinds[0] == 'tuple' else (kinds,))}
    return {'pd.DataFrame', 'dict'} <= names


def arg_of(callterm, pos, name):
    return T.call_arg(callterm, pos, name)


def _has_kw(callterm, name):
    return T.get_kw(callterm, name) is not None


def array_loader(ctx):
    fa = ctx.fa('cooler.create._ingest.ArrayLoader.__iter__')
    R = 'C01.4-arrayloader'
    ys = yields(fa)
    loops = [l for l in fa.loops.values() if l.kind == 'for']
    if len(ys) != 1 or not loops:
        ctx.unrec(R, 'shape', ctx.where(fa), reason='expected one yield inside a span loop')
        return
    y = ys[0]
    L = fa.loops[y.loops[0]] if y.loops else None
    if L is None:
        ctx.unrec(R, 'shape', ctx.where(fa), reason='yield is not inside the span loop')
        return
    arr = T.attr(V('self'), 'array')
    env = {'A': arr, 'self': V('self')}
    # spans: partition(0, n_bins, chunksize) with n_bins = array.shape[0]
    exp_it = spec(ctx.repo, 'partition(0, A.shape[0], self.chunksize)', env, 'cooler.create._ingest')
    ctx.eq(R, 'spans', L.iter, exp_it, ctx.where(fa, y),
           'row spans must tile [0, n_bins) (partition from 0 to the array dimension)')
    lo = mk_elem(L.iter, L.id, (0,))
    hi = mk_elem(L.iter, L.id, (1,))
    env.update(lo=lo, hi=hi)
    env['X'] = spec(ctx.repo, 'A[lo:hi, :]', env)
    env['i'] = spec(ctx.repo, 'np.nonzero(X)[0]', env)
    env['j'] = spec(ctx.repo, 'np.nonzero(X)[1]', env)
    env['mask'] = spec(ctx.repo, '(lo + i) <= j', env)
    want = {
        'bin1_id': spec(ctx.repo, 'lo + i[mask]', env),
        'bin2_id': spec(ctx.repo, 'j[mask]', env),
        'count': spec(ctx.repo, 'X[i[mask], j[mask]]', env),
    }
    val = y.value
    if val[0] != 'dict':
        ctx.unrec(R, 'yield-dict', ctx.where(fa, y), found=val, reason='loader must yield a dict of columns')
        return
    got = {kv[1][1]: kv[2] for kv in val[1] if kv[0] == 'kv' and kv[1][0] == 'c'}
    why = {
        'bin1_id': 'published row id = span start + chunk-local row of entries with global_row <= col (diagonal kept)',
        'bin2_id': 'published column id = column of the same masked entries',
        'count': 'value read at the chunk-local (row, col) of the same masked entries',
    }
    for k in ('bin1_id', 'bin2_id', 'count'):
        ctx.eq(R, f'yield.{k}', got.get(k), want[k], ctx.where(fa, y), why[k])


def engine_choice(ctx):
    R = 'C01.5-engine'
    fa = ctx.fa('cooler.api.matrix')
    FL = G('cooler.core._rangequery.FillLowerRangeQuery2D')
    DR = G('cooler.core._rangequery.DirectRangeQuery2D')
    fill = V('fill_lower')
    n_fl = n_dr = 0
    for e in calls(fa, FL[1]):
        n_fl += 1
        ok = e.under(fill) and not e.under(V('as_pixels'))
        ctx.check(ok, R, f'fill-lower-engine#{n_fl}', ctx.where(fa, e),
                  found=[(T.show(c), p) for c, p in e.guards], expected='constructed only under fill_lower',
                  reason='symmetric completion must be generated exactly when fill_lower holds')
    for e in calls(fa, DR[1]):
        under_pix = e.under(V('as_pixels'))
        if under_pix:
            continue
        n_dr += 1
        ok = e.under(fill, False)
        ctx.check(ok, R, f'direct-engine#{n_dr}', ctx.where(fa, e),
                  found=[(T.show(c), p) for c, p in e.guards], expected='constructed only under not fill_lower',
                  reason='square storage must be read as stored')
    # the engine class chosen first and constructed once:  (Fill if fill_lower else Direct)(...)
    for e in fa.events:
        if e.kind != 'call' or e.d.get('in_lambda') or e.f[0] != 'ite' or {e.f[2], e.f[3]} != {FL, DR}:
            continue
        if e.under(V('as_pixels')):
            continue
        n_fl += 1
        n_dr += 1
        ok = (e.f[1] == fill and e.f[2] == FL) or (e.f[1] == T.not_(fill) and e.f[2] == DR)
        ctx.check(ok, R, f'engine-class-choice#{n_fl}', ctx.where(fa, e), found=e.f,
                  expected='FillLowerRangeQuery2D if fill_lower else DirectRangeQuery2D',
                  reason='symmetric completion must be generated exactly when fill_lower holds')
    if n_fl < 1 or n_dr < 1:
        ctx.unrec(R, 'engine-sites', ctx.where(fa), found=f'{n_fl} fill-lower, {n_dr} direct',
                  reason='expected the matrix output to be produced by a fill-lower engine and by a direct engine')
    # Cooler.matrix._slice forwards self._is_symm_upper as fill_lower
    fs = ctx.fa('cooler.api.Cooler.matrix.<locals>._slice')
    mc = calls(fs, 'cooler.api.matrix')
    if not mc:
        ctx.unrec(R, 'slice->matrix', ctx.where(fs), reason='Cooler.matrix._slice no longer calls api.matrix')
    else:
        b, _, _ = bind_call(ctx.repo, 'cooler.api.matrix', mc[0])
        ctx.eq(R, 'fill_lower-argument', b.get('fill_lower'), T.attr(V('self'), '_is_symm_upper'),
               ctx.where(fs, mc[0]), 'fill_lower must be the storage-mode flag of the cooler')
    # _refresh: _is_symm_upper == (info.get("storage-mode", "symmetric-upper") == "symmetric-upper")
    fr = ctx.fa('cooler.api.Cooler._refresh')
    st = [e for e in events(fr, 'store_attr') if e.attr == '_is_symm_upper']
    if not st:
        ctx.unrec(R, '_is_symm_upper', ctx.where(fr), reason='_refresh does not set _is_symm_upper')
    else:
        v = st[-1].value
        pat = spec(ctx.repo, 'Q_info.get("storage-mode", "symmetric-upper") == "symmetric-upper"', {})
        m = T.match(pat, v)
        ctx.check(m is not None, R, 'read-side-mode', ctx.where(fr, st[-1]), found=v,
                  expected='info.get("storage-mode", "symmetric-upper") == "symmetric-upper"',
                  reason='the symmetric flag must be derived from the stored storage-mode attribute')
    # writer side
    fc = ctx.fa('cooler.create._create.create')
    sm = [e for e in events(fc, 'store_sub') if e.key == C('storage-mode')]
    if not sm:
        ctx.unrec(R, 'storage-mode-write', ctx.where(fc), reason='create() does not set storage-mode')
    else:
        want = T.ite(V('symmetric_upper'), C('symmetric-upper'), C('square'))
        ctx.eq(R, 'write-side-mode', sm[-1].value, want, ctx.where(fc, sm[-1]),
               'storage-mode attribute must reflect the symmetric_upper argument')


def metadata_provenance(ctx):
    R = 'C01.6-metadata'
    fc = ctx.fa('cooler.create._create.create')
    for key, par in (('genome-assembly', 'assembly'), ('metadata', 'metadata')):
        st = [e for e in events(fc, 'store_sub') if e.key == C(key)]
        ok = any(e.value == V(par) and e.under(T.cmp('is not', V(par), T.NONE)) for e in st)
        ctx.check(ok, R, f'info[{key}]', ctx.where(fc, st[-1] if st else None),
                  found=[T.show(e.value) for e in st], expected=f'info["{key}"] = {par} when {par} is not None',
                  reason='the value given at creation must reach the attributes')
    # the info dict that receives them is the one passed to write_info
    wi = calls(fc, 'cooler.create._create.write_info')
    st = [e for e in events(fc, 'store_sub') if e.key == C('metadata')]
    if wi and st:
        b, _, _ = bind_call(ctx.repo, 'cooler.create._create.write_info', wi[-1])
        ctx.eq(R, 'info-passed', b.get('info'), st[-1].base, ctx.where(fc, wi[-1]),
               'the populated dict is the one written')
    # write_info json-encodes metadata from the info dict and stores the dict
    fw = ctx.fa('cooler.create._create.write_info')
    st = [e for e in events(fw, 'store_sub') if e.key == C('metadata')]
    want = spec(ctx.repo, 'json.dumps(info.get("metadata", {}))', {'info': V('info')}, 'cooler.create._create')
    ctx.check(bool(st) and st[-1].value == want and st[-1].base == V('info'), R, 'metadata-encoded',
              ctx.where(fw, st[-1] if st else None), found=st[-1].value if st else None, expected=want,
              reason='the metadata document is stored JSON-encoded')
    up = [e for e in calls(fw, method='update') if e.f[1] == T.attr(V('grp'), 'attrs')]
    ctx.check(bool(up) and arg(up[-1], 0) == V('info'), R, 'attrs-updated', ctx.where(fw, up[-1] if up else None),
              found=[T.show(e.term) for e in up], expected='grp.attrs.update(info)',
              reason='the info dict (with metadata and assembly) is what is written to the group attributes')


_run_core = run


def run(ctx):
    _run_core(ctx)
    from . import refs_misc
    refs_misc.run_for(ctx, 'C01')
    from . import reflib
    reflib.run_for(ctx, 'C01')
