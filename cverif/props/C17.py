"""C17  Every cell of a single-cell file reads back as the matrix given for it.

 1 key consistency: inside the per-cell loop the URI suffix, the bin table and
   the pixel table are selected by the same key; the loop covers all keys; the
   per-cell create appends (mode "a", append_scool, scool_root_uri = the file)
 2 sharing: in the append_scool arm chroms and bins/chrom|start|end are object
   assignments from the root (hard links); only the other bin columns are
   written per cell
 3 layout agreement: root chroms/bins + attributes with the scool magic and
   ncells; cells under /cells/<name>; the recogniser tests the same magic and
   keys and every cell; the cell listing
 4 matching keys enforced when per-cell bin tables are given
"""
from __future__ import annotations

from .. import terms as T
from ..facts import (C, G, V, arg, bind_call, calls, events, raises, receiver, returns, spec, spec_env, yields)
from ..refcompare import analyze_source, compare
from ..symeval import mk_elem
from . import common
from .C13 import REF_CREATE, REF_WRITE_INFO
from .C15 import REF_LIST_CELLS

META = {
    'explanation': (
        'Effect-level comparison of create_scool, of the append_scool arm of create(), of write_info, '
        'is_scool_file and list_scool_cells with reference models derived from the property; explicit key-'
        'consistency rule on the per-cell create call; hard-link rule on the shared bin columns; agreement of '
        'the scool magic between writer and recogniser. Content equality per cell (see C01) and names containing '
        '"/" (only the last component is used, by design) are not decided.'),
    'not_decided': ['content equality per cell (see C01)', 'cell names containing "/" (only the last component is used - by design)'],
}

CR = 'cooler.create._create'

REF_CREATE_SCOOL = '''
def ref(cool_uri, bins, cell_name_pixels_dict, columns=None, dtypes=None, metadata=None, assembly=None,
        ordered=False, symmetric_upper=True, mode="w", mergebuf=20_000_000, delete_temp=True, temp_dir=None,
        max_merge=200, boundscheck=True, dupcheck=True, triucheck=True, ensure_sorted=False, h5opts=None,
        lock=None, **kwargs):
    file_path, group_path = parse_cooler_uri(cool_uri)
    h5opts = _set_h5opts(h5opts)
    if isinstance(bins, pd.DataFrame):
        bins_dict = {cell_name: bins for cell_name in cell_name_pixels_dict}
        cell_names = sorted(cell_name_pixels_dict)
    else:
        bins_dict = bins
        if len(bins_dict) == 0:
            raise ValueError("no bins")
        else:
            bins = bins_dict[next(iter(bins_dict))][["chrom", "start", "end"]]
        bins_keys = sorted(bins_dict)
        cell_names = sorted(cell_name_pixels_dict)
        for key_bins, key_pixels in zip(bins_keys, cell_names):
            if key_bins != key_pixels:
                raise ValueError("keys do not match")
    dtypes = _get_dtypes_arg(dtypes, kwargs)
    for col in ["chrom", "start", "end"]:
        if col not in bins.columns:
            raise ValueError("missing bin column")
    if dtypes is None:
        dtypes = dict(PIXEL_DTYPES)
    else:
        dtypes_ = dict(dtypes)
        dtypes = dict(PIXEL_DTYPES)
        dtypes.update(dtypes_)
    bins = bins.copy()
    bins["chrom"] = bins["chrom"].astype(object)
    chromsizes = get_chromsizes(bins)
    try:
        chromsizes = chromsizes.items()
    except AttributeError:
        pass
    chromnames, lengths = zip(*chromsizes)
    chroms = pd.DataFrame({"name": chromnames, "length": lengths}, columns=["name", "length"])
    binsize = get_binsize(bins)
    n_chroms = len(chroms)
    n_bins = len(bins)
    with h5py.File(file_path, mode) as f:
        if group_path == "/":
            for name in ["chroms", "bins"]:
                if name in f:
                    del f[name]
        else:
            try:
                f.create_group(group_path)
            except ValueError:
                del f[group_path]
                f.create_group(group_path)
    with h5py.File(file_path, "r+") as f:
        h5 = f[group_path]
        grp = h5.create_group("chroms")
        write_chroms(grp, chroms, h5opts)
        grp = h5.create_group("bins")
        write_bins(grp, bins, chroms["name"], h5opts)
    with h5py.File(file_path, "r+") as f:
        h5 = f[group_path]
        info = {}
        info["bin-type"] = "fixed" if binsize is not None else "variable"
        info["bin-size"] = binsize if binsize is not None else "null"
        info["nchroms"] = n_chroms
        info["ncells"] = len(cell_name_pixels_dict)
        info["nbins"] = n_bins
        if assembly is not None:
            info["genome-assembly"] = assembly
        if metadata is not None:
            info["metadata"] = metadata
        write_info(h5, info, True)
    for key in cell_names:
        if "/" in key:
            cell_name = key.split("/")[-1]
        else:
            cell_name = key
        create(cool_uri + "::/cells/" + cell_name, bins_dict[key], cell_name_pixels_dict[key], columns=columns,
               dtypes=dtypes, metadata=metadata, assembly=assembly, ordered=ordered, symmetric_upper=symmetric_upper,
               mode="a", boundscheck=boundscheck, dupcheck=dupcheck, triucheck=triucheck, ensure_sorted=ensure_sorted,
               h5opts=h5opts, lock=lock, mergebuf=mergebuf, delete_temp=delete_temp, temp_dir=temp_dir,
               max_merge=max_merge, append_scool=True, scool_root_uri=cool_uri)
'''

REF_IS_SCOOL = '''
def ref(filepath):
    if not h5py.is_hdf5(filepath):
        raise OSError("not hdf5")
        return False
    with h5py.File(filepath) as f:
        fmt = f.attrs.get("format", None)
        if fmt == MAGIC_SCOOL:
            keys = ("chroms", "bins", "cells")
            if not all(name in f.keys() for name in keys):
                warnings.warn("corrupt")
                return False
            if "cells" in f.keys() and len(f["cells"].keys()) > 0:
                for cells in f["cells"].keys():
                    if not _is_cooler(f["cells"][cells]):
                        return False
                return True
    return False
'''


def run(ctx):
    fa = ctx.fa(f'{CR}.create_scool')
    compare(ctx, 'C17.create_scool', fa, REF_CREATE_SCOOL,
            why='root chroms/bins and scool attributes (ncells = number of cells), then one append-create per cell keyed consistently')
    key_consistency(ctx, fa)
    compare(ctx, 'C17.create', ctx.fa(f'{CR}.create'), REF_CREATE,
            why='append_scool arm: chroms and the three primary bin columns are hard links to the root; only extra bin columns are written per cell')
    sharing(ctx)
    compare(ctx, 'C17.write_info', ctx.fa(f'{CR}.write_info'), REF_WRITE_INFO, why='scool magic and version on the root when scool=True')
    compare(ctx, 'C17.is_scool_file', ctx.fa('cooler.fileops.is_scool_file'), REF_IS_SCOOL, module='cooler.fileops',
            why='recognised by the scool magic, the three root groups and every cell being a cooler')
    fl = ctx.fa('cooler.fileops.list_scool_cells')
    ref = analyze_source(ctx.repo, 'cooler.fileops', REF_LIST_CELLS)
    compare(ctx, 'C17.list_scool_cells', fl, None, ref_fa=ref, why='the listing names exactly the cells (coolers of the file except the root)')
    compare(ctx, 'C17.list_scool_cells._check', ctx.fa('cooler.fileops.list_scool_cells.<locals>._check_cooler'), None,
            ref_fa=ref.nested_analyses['_check_cooler'], why='exactly the groups recognised as coolers are listed, with a leading slash')
    magic(ctx)


def key_consistency(ctx, fa):
    R = 'C17.key-consistency'
    cs = [e for e in calls(fa, f'{CR}.create') if e.loops]
    if len(cs) != 1:
        ctx.unrec(R, 'per-cell-create', ctx.where(fa), found=len(cs), reason='expected one create() inside the per-cell loop')
        return
    e = cs[0]
    L = fa.loops[e.loops[-1]]
    key = mk_elem(L.iter, L.id, ())
    ctx.eq(R, 'loop-covers-all-cells', L.iter, T.call(G('sorted'), (V('cell_name_pixels_dict'),)), ctx.where(fa, e),
           'one collection per cell name given')
    b, _, (xp, xk) = bind_call(ctx.repo, f'{CR}.create', e)
    b.update(xk)
    pix = b.get('pixels')
    ctx.eq(R, 'pixels-by-key', pix, T.sub(V('cell_name_pixels_dict'), key), ctx.where(fa, e), 'the pixel table of this cell')
    bn = b.get('bins')
    ctx.check(bn is not None and bn[0] == 'sub' and bn[2] == key, R, 'bins-by-key', ctx.where(fa, e), found=bn, expected='bins_dict[key]',
              reason='the bin table (with per-cell extra columns) of this cell')
    uri = b.get('cool_uri')
    name = T.ite(T.cmp('in', C('/'), key), T.sub(T.call(T.attr(key, 'split'), (C('/'),)), C(-1)), key)
    ctx.eq(R, 'uri-by-key', uri, T.add(T.add(V('cool_uri'), C('::/cells/')), name), ctx.where(fa, e),
           'the cell is stored under /cells/<name of this key>')
    for p, want in (('mode', C('a')), ('append_scool', T.TRUE), ('scool_root_uri', V('cool_uri'))):
        ctx.eq(R, p, b.get(p), want, ctx.where(fa, e), 'cells are appended to the file and linked to its root tables')
    ctx.check(not L.has_break and not L.has_continue and not e.cguards, R, 'no-skip', ctx.where(fa, e), found=[(T.show(c), p) for c, p in e.cguards],
              expected='every cell is created')


def sharing(ctx):
    R = 'C17.sharing'
    fa = ctx.fa(f'{CR}.create')
    guard = V('append_scool')
    sts = [e for e in events(fa, 'store_sub') if e.under(guard) and e.key[0] == 'c' and isinstance(e.key[1], str)
           and e.key[1] in ('chroms', 'bins/chrom', 'bins/start', 'bins/end')]
    got = {e.key[1]: e for e in sts}
    for k in ('chroms', 'bins/chrom', 'bins/start', 'bins/end'):
        e = got.get(k)
        ok = e is not None and e.value[0] == 'sub' and e.value[2] == C(k) and e.value[1] != e.base[1] if e is not None and e.base[0] == 'sub' else False
        ok = e is not None and e.value[0] == 'sub' and e.value[2] == C(k)
        ctx.check(ok, R, k, ctx.where(fa, e), found=e.value if e else None, expected=f'<cell group>["{k}"] = <root file>["{k}"]  (object assignment = hard link)',
                  reason='the common bin table is stored once and shared by all cells')
    puts = [e for e in calls(fa, 'cooler.core._tableops.put') if e.under(guard)]
    ok = len(puts) == 1 and puts[0].args[1][0] == 'sub'
    ctx.check(ok, R, 'per-cell-columns', ctx.where(fa, puts[0] if puts else None), found=[T.show(e.term)[:120] for e in puts],
              expected='put(<cell>/bins, bins[<columns other than chrom/start/end>])', reason='per-cell extra bin columns are kept per cell')
    if ok:
        cols = puts[0].args[1][2]
        rm = [e for e in calls(fa, method='remove') if e.under(guard)]
        Ls = [fa.loops[e.loops[-1]].iter for e in rm if e.loops]
        removed = {arg(e, 0)[1] for e in rm if arg(e, 0) is not None and arg(e, 0)[0] == 'c'}      # written out / unrolled
        ok_rm = (bool(Ls) and Ls[0] in (T.lst([C('chrom'), C('start'), C('end')]),)) or removed == {'chrom', 'start', 'end'}
        ctx.check(ok_rm, R, 'per-cell-columns.excluded', ctx.where(fa, rm[0] if rm else None),
                  found=[T.show(x) for x in Ls] or sorted(removed),
                  expected="the three shared columns ['chrom', 'start', 'end'] are removed from the per-cell column list")


def magic(ctx):
    R = 'C17.magic'
    w = ctx.repo.const_value('cooler.create.MAGIC_SCOOL')
    ctx.check(w == 'HDF5::SCOOL', R, 'constant', found=w, expected='HDF5::SCOOL')
    m = ctx.repo.module('cooler.fileops')
    imp = m.imports.get('MAGIC_SCOOL')
    ctx.check(imp is not None and ctx.repo.resolve(imp[1]).endswith('MAGIC_SCOOL'), R, 'recogniser-uses-writer-constant', found=imp,
              expected='fileops imports MAGIC_SCOOL from cooler.create', reason='writer and recogniser agree on the magic by construction')


_run_core = run


def run(ctx):
    _run_core(ctx)
    from . import refs_misc
    refs_misc.run_for(ctx, 'C17')
    from . import reflib
    reflib.run_for(ctx, 'C17')
