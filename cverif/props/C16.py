"""C16  Text export agrees with the API; re-importing it reproduces the cooler.

 1 read_csv column/field agreement (names follow column numbers)
 2 option liveness: every declared option / argument of every command is read
 3 option gating: a flag whose effect lives in the dump annotator appears in
   the condition that installs the annotator
 4 dispatch deviance: an option consulted in sibling arms but not in the third
   (dump --columns for pixels, recorded finding F7)
 5 dead branches in option parsing (shared with C09)
 6-8 reference models of dump, the dump annotator, load, cload pairs,
   parse_field_param
"""
from __future__ import annotations

import ast

from .. import terms as T
from ..facts import (C, G, V, arg, bind_call, calls, events, raises, receiver, returns, spec, spec_env, yields)
from ..refcompare import analyze_source, compare
from . import common
from .C12 import REF_MAKE_ANNOTATOR

META = {
    'explanation': (
        'Column/field agreement of every pandas.read_csv(usecols, names) site; liveness of every declared CLI '
        'option (parameter read on some path) over all click commands; gating of the dump annotator on every '
        'flag it implements; dispatch deviance of dump --columns; dead branches of option parsing; '
        'effect-level comparison of dump, its annotator, load, cload pairs and parse_field_param with reference '
        'models derived from the documented option semantics. Byte-level agreement of dumps with library '
        'queries and csv formatting are not decided.'),
    'not_decided': ['equality of the dump with the library query as data', 'csv formatting'],
}

REF_DUMP = '''
def ref(cool_uri, table, columns, header, na_rep, float_format, range, range2, fill_lower, balanced, join,
        annotate, one_based_ids, one_based_starts, chunksize, out):
    clr = api.Cooler(cool_uri)
    if out is None or out == "-":
        f = sys.stdout
    elif out.endswith(".gz"):
        f = gzip.open(out, "wt")
    else:
        f = open(out, "w")
    if table == "chroms":
        selector = clr.chroms()
        if columns is not None:
            selector = selector[list(columns)]
        chunks = (selector[:],)
    elif table == "bins":
        selector = clr.bins()
        if columns is not None:
            selector = selector[list(columns)]
        chunks = (selector[:],)
    else:
        bins = clr.bins()[:]
        n_bins = len(bins)
        if chunksize is None:
            chunksize = len(bins)
        if balanced and "weight" not in bins.columns:
            sys.exit(1)
        h5 = clr.open("r")
        reader = CSRReader(h5["pixels"], h5["indexes/bin1_offset"][:])
        field = "count"
        if range:
            i0, i1 = region_to_extent(h5, clr._chromids, parse_region(range, clr.chromsizes), binsize=clr.binsize)
            if range2 is not None:
                j0, j1 = region_to_extent(h5, clr._chromids, parse_region(range2, clr.chromsizes), binsize=clr.binsize)
            else:
                j0, j1 = i0, i1
            bbox = (i0, i1, j0, j1)
        else:
            bbox = (0, n_bins, 0, n_bins)
        if fill_lower and clr.storage_mode == "symmetric-upper":
            engine = FillLowerRangeQuery2D(reader, field, bbox, chunksize)
        else:
            engine = DirectRangeQuery2D(reader, field, bbox, chunksize)
        chunks = (pd.DataFrame(dct, columns=["bin1_id", "bin2_id", field]) for dct in engine)
        # every flag implemented by the annotator installs it
        if balanced or join or annotate or one_based_ids or one_based_starts:
            annotator = make_annotator(bins, balanced, join, annotate, one_based_ids, one_based_starts)
            chunks = map(annotator, chunks)
    if float_format is not None:
        float_format = "%" + float_format
    first = True
    for chunk in chunks:
        if first:
            if header:
                chunk[0:0].to_csv(f, sep="\\t", lineterminator="\\n", index=False, header=True,
                                  float_format=float_format, na_rep=na_rep)
            first = False
        chunk.to_csv(f, sep="\\t", lineterminator="\\n", index=False, header=False,
                     float_format=float_format, na_rep=na_rep)
    else:
        f.flush()
'''

REF_FIELD_PARAM = '''
def ref(arg, includes_colnum=True, includes_agg=True):
    parts = arg.split(":")
    prefix = parts[0]
    if len(parts) == 1:
        props = None
    elif len(parts) == 2:
        props = parts[1]
    else:
        raise click.BadParameter(arg)
    if includes_colnum:
        parts = prefix.split("=")
        name = parts[0]
        if len(parts) == 1:
            colnum = None
        elif len(parts) == 2:
            try:
                colnum = int(parts[1]) - 1
            except ValueError as e:
                raise click.BadParameter("not a number") from e
            if colnum < 0:
                raise click.BadParameter("field numbers start at 1")
        else:
            raise click.BadParameter(arg)
    else:
        name = parts[0]
        colnum = None
    dtype = None
    agg = None
    if props is not None:
        for item in props.split(","):
            try:
                prop, value = item.split("=")
            except ValueError as e:
                raise click.BadParameter(arg) from e
            if prop == "dtype":
                dtype = np.dtype(value)
            elif prop == "agg" and includes_agg:
                agg = value
            else:
                raise click.BadParameter("invalid property")
    return name, colnum, dtype, agg
'''

REF_LOAD = '''
def ref(bins_path, pixels_path, cool_path, format, metadata, assembly, field, count_as_float, one_based,
        comment_char, input_copy_status, no_symmetric_upper, chunksize, mergebuf, max_merge, temp_dir,
        no_delete_temp, storage_options, append, **kwargs):
    logger = get_logger(__name__)
    chromsizes, bins = parse_bins(bins_path)
    if mergebuf is None:
        mergebuf = chunksize
    symmetric_upper = not no_symmetric_upper
    tril_action = None
    if symmetric_upper:
        if input_copy_status == "unique":
            tril_action = "reflect"
        elif input_copy_status == "duplex":
            tril_action = "drop"
    if metadata is not None:
        with open(metadata) as f:
            metadata = json.load(f)
    out_names = ["bin1_id", "bin2_id"]
    out_dtypes = {"bin1_id": BIN_DTYPE, "bin2_id": BIN_DTYPE, "count": COUNT_DTYPE}
    if format == "bg2":
        in_names = ["chrom1", "start1", "end1", "chrom2", "start2", "end2"]
        in_dtypes = {"chrom1": str, "start1": int, "end1": int, "chrom2": str, "start2": int, "end2": int,
                     "count": out_dtypes["count"]}
        in_numbers = {"chrom1": kwargs.get("chrom1", 0), "start1": kwargs.get("start1", 1), "end1": kwargs.get("end1", 2),
                      "chrom2": kwargs.get("chrom2", 3), "start2": kwargs.get("start2", 4), "end2": kwargs.get("end2", 5),
                      "count": 6}
        pipeline = sanitize_records(bins, schema="bg2", is_one_based=one_based, tril_action=tril_action, sort=True)
    elif format == "coo":
        in_names = ["bin1_id", "bin2_id"]
        in_dtypes = {"bin1_id": int, "bin2_id": int, "count": out_dtypes["count"]}
        in_numbers = {"bin1_id": 0, "bin2_id": 1, "count": 2}
        pipeline = sanitize_pixels(bins, is_one_based=one_based, tril_action=tril_action, sort=True)
    if len(field):
        for arg in field:
            name, colnum, dtype, _ = parse_field_param(arg, includes_agg=False)
            if colnum is None:
                if name in {"bin1_id", "bin2_id"} and dtype is not None:
                    out_dtypes[name] = dtype
                    continue
                elif name == "count" and dtype is not None:
                    in_names.append("count")
                    out_names.append("count")
                    in_dtypes[name] = dtype
                    out_dtypes[name] = dtype
                    continue
                else:
                    raise click.BadParameter("A field number is required.", param_hint=arg)
            if name not in in_names:
                in_names.append(name)
            if name not in out_names:
                out_names.append(name)
            in_numbers[name] = colnum
            if dtype is not None:
                in_dtypes[name] = dtype
                out_dtypes[name] = dtype
    else:
        in_names.append("count")
        out_names.append("count")
    if "count" in in_names and count_as_float:
        in_dtypes["count"] = np.float64
        out_dtypes["count"] = np.float64
    if storage_options is not None:
        h5opts = parse_kv_list_param(storage_options)
        for key in h5opts:
            if isinstance(h5opts[key], list):
                h5opts[key] = tuple(h5opts[key])
    else:
        h5opts = None
    if pixels_path == "-":
        f_in = sys.stdin
    else:
        f_in = pixels_path
    # pandas hands `names` to the selected columns in file order
    in_names = sorted(in_names, key=in_numbers.get)
    reader = pd.read_csv(f_in, sep="\\t", usecols=[in_numbers[name] for name in in_names], names=in_names,
                         dtype=in_dtypes, comment=comment_char, iterator=True, chunksize=chunksize)
    create_from_unordered(cool_path, bins, map(pipeline, reader), columns=out_names, dtypes=out_dtypes,
                          metadata=metadata, assembly=assembly, mergebuf=mergebuf, max_merge=max_merge,
                          temp_dir=temp_dir, delete_temp=not no_delete_temp, ensure_sorted=False,
                          triucheck=True if symmetric_upper else False, symmetric_upper=symmetric_upper,
                          h5opts=h5opts, mode="a" if append else "w")
'''

REF_PAIRS = '''
def ref(bins, pairs_path, cool_path, metadata, assembly, zero_based, comment_char, input_copy_status,
        no_symmetric_upper, field, chunksize, mergebuf, temp_dir, no_delete_temp, max_merge, storage_options,
        append, **kwargs):
    chromsizes, bins = parse_bins(bins)
    if mergebuf is None:
        mergebuf = chunksize
    symmetric_upper = not no_symmetric_upper
    tril_action = None
    if symmetric_upper:
        if input_copy_status == "unique":
            tril_action = "reflect"
        elif input_copy_status == "duplex":
            tril_action = "drop"
    if metadata is not None:
        with open(metadata) as f:
            metadata = json.load(f)
    in_names = ["chrom1", "pos1", "chrom2", "pos2"]
    in_dtypes = {"chrom1": str, "pos1": np.int64, "chrom2": str, "pos2": np.int64}
    in_numbers = {}
    for name in ["chrom1", "pos1", "chrom2", "pos2"]:
        if kwargs[name] == 0:
            raise click.BadParameter("Field numbers start at 1", param_hint=name)
        in_numbers[name] = kwargs[name] - 1
    out_names = []
    out_dtypes = {}
    aggs = {}
    if len(field):
        for arg in field:
            name, colnum, dtype, agg = parse_field_param(arg)
            if colnum is None:
                if (agg is None and dtype is not None and name in {"bin1_id", "bin2_id", "count"}):
                    out_dtypes[name] = dtype
                    continue
                else:
                    raise click.BadParameter("A field number is required.", param_hint=arg)
            if name not in in_names:
                in_names.append(name)
            if name not in out_names:
                out_names.append(name)
            in_numbers[name] = colnum
            if dtype is not None:
                in_dtypes[name] = dtype
                out_dtypes[name] = dtype
            if agg is not None:
                aggs[name] = agg
            else:
                aggs[name] = "sum"
    if "count" not in out_names:
        out_names.append("count")
    if storage_options is not None:
        h5opts = parse_kv_list_param(storage_options)
        for key in h5opts:
            if isinstance(h5opts[key], list):
                h5opts[key] = tuple(h5opts[key])
    else:
        h5opts = None
    kwargs = {}
    if pairs_path == "-":
        f_in = sys.stdin
    elif int(_pandas_version[0]) == 1 and int(_pandas_version[1]) < 2:
        f_in = get_handle(pairs_path, mode="r", compression="infer")[0]
    else:
        f_in = get_handle(pairs_path, mode="r", compression="infer").handle
    _, f_in = get_header(f_in, comment_char)
    in_names = sorted(in_names, key=in_numbers.get)
    reader = pd.read_csv(f_in, sep="\\t", usecols=[in_numbers[name] for name in in_names], names=in_names,
                         dtype=in_dtypes, iterator=True, chunksize=chunksize, **kwargs)
    sanitize = sanitize_records(bins, schema="pairs", decode_chroms=True, is_one_based=not zero_based,
                                tril_action=tril_action, sort=True, validate=True)
    aggregate = aggregate_records(agg=aggs, count=True, sort=False)
    pipeline = compose(aggregate, sanitize)
    create_cooler(cool_path, bins, map(pipeline, reader), columns=out_names, dtypes=out_dtypes, metadata=metadata,
                  assembly=assembly, mergebuf=mergebuf, max_merge=max_merge, temp_dir=temp_dir,
                  delete_temp=not no_delete_temp, boundscheck=False, triucheck=False, dupcheck=False,
                  ensure_sorted=False, symmetric_upper=symmetric_upper, h5opts=h5opts, ordered=False,
                  mode="a" if append else "w")
'''


def run(ctx):
    common.read_csv_names(ctx)
    option_liveness(ctx)
    fd = ctx.fa('cooler.cli.dump.dump')
    compare(ctx, 'C16.dump', fd, REF_DUMP, module='cooler.cli.dump',
            ignore=lambda p, gs: p[0] == 'call' and T.show(p[1]).startswith('sys.exit') is False and False,
            why='documented effect of every dump option: table choice, regions -> extents (range2 defaults to range), fill-lower only '
                'for symmetric-upper storage, annotator installed for every flag it implements, header once')
    gating(ctx, fd)
    columns_deviance(ctx, fd)
    refm = analyze_source(ctx.repo, 'cooler.cli.dump', REF_MAKE_ANNOTATOR)
    compare(ctx, 'C16.dump-annotator', ctx.fa('cooler.cli.dump.make_annotator.<locals>.annotator'), None,
            ref_fa=refm.nested_analyses['annotator'],
            why='balanced = weight1 * weight2 * count; join replaces ids by coordinates; one-based options add exactly 1 to ids / starts')
    compare(ctx, 'C16.parse_field_param', ctx.fa('cooler.cli._util.parse_field_param'), REF_FIELD_PARAM, module='cooler.cli._util',
            why='field number is one-based on the command line (int - 1, refused below 1); unknown properties refused')
    compare(ctx, 'C16.load', ctx.fa('cooler.cli.load.load'), REF_LOAD, module='cooler.cli.load',
            why='bg2 -> record sanitiser, coo -> pixel sanitiser; one_based / tril_action / symmetric_upper / triucheck reach the '
                'pipeline and the creator; names ordered by field number')
    compare(ctx, 'C16.cload-pairs', ctx.fa('cooler.cli.cload.pairs'), REF_PAIRS, module='cooler.cli.cload',
            why='is_one_based = not zero_based, field numbers - 1, count always produced, comment character honoured, names ordered by field number')
    from .C20 import REF_PARSE_BINS
    compare(ctx, 'C16.parse_bins', ctx.fa('cooler.cli._util.parse_bins'), REF_PARSE_BINS, module='cooler.cli._util',
            why='chromsizes:binsize -> fixed-width bins over all names; BED bins read with string chromosome names')
    common.dead_branches(ctx, ['cooler.cli.zoomify.zoomify', 'cooler.cli.dump.dump', 'cooler.cli.load.load', 'cooler.cli.cload.pairs',
                               'cooler.cli._util.parse_field_param', 'cooler.cli._util.parse_bins'])
    from .C09 import cli_expansion
    cli_expansion(ctx)


# ---------------------------------------------------------------------------

def _is_command(node, mod):
    for d in node.decorator_list:
        s = ast.unparse(d)
        if '.command(' in s or s.endswith('.command') or s == 'register_subcommand':
            return True
    return False


def option_liveness(ctx):
    R = 'C16.option-liveness'
    n_cmd = 0
    for mname, m in sorted(ctx.repo.modules.items()):
        if not mname.startswith('cooler.cli'):
            continue
        for name, node in m.defs.items():
            if not isinstance(node, ast.FunctionDef) or not _is_command(node, m):
                continue
            n_cmd += 1
            a = node.args
            params = [x.arg for x in list(a.posonlyargs) + list(a.args) + list(a.kwonlyargs)]
            loads = {n.id for n in ast.walk(node) if isinstance(n, ast.Name) and isinstance(n.ctx, ast.Load)}
            dead = [p for p in params if p not in loads]
            where = f'{m.path.replace(ctx.repo.root + "/", "")}:{node.lineno} {mname}.{name}'
            ctx.check(not dead, R, f'{mname.split(".")[-1]}.{name}', where, found=f'never read: {dead}' if dead else f'{len(params)} options all read',
                      expected='every declared option / argument is read on some path of its command',
                      reason='an option that is accepted but never read silently has no effect',
                      key=f'{R}|{mname}.{name}|{",".join(dead)}')
    if n_cmd < 20:
        ctx.unrec(R, 'commands', found=n_cmd, reason='expected the 20+ click commands confirmed by reading')
    ctx.units['cli_commands'] = n_cmd


def gating(ctx, fd):
    R = 'C16.option-gating'
    mk = calls(fd, 'cooler.cli.dump.make_annotator')
    if not mk:
        ctx.unrec(R, 'site', ctx.where(fd), reason='dump no longer builds the annotator')
        return
    e = mk[0]
    conds = [t for t in ((c if p else T.not_(c)) for (c, p), k in zip(e.guards, e.gkinds) if k == 'if') if t[0] in ('or', 'v')]
    cond = conds[-1] if conds else None
    # flags that the annotator body tests
    fa = ctx.fa('cooler.cli.dump.make_annotator.<locals>.annotator')
    tested = set()
    for b in events(fa, 'branch'):
        for x in T.walk(b.cond):
            if x[0] == 'v' and x[1] in ctx.fa('cooler.cli.dump.make_annotator').params:
                tested.add(x[1])
    outer = ctx.fa('cooler.cli.dump.make_annotator')
    b, _, _ = bind_call(ctx.repo, 'cooler.cli.dump.make_annotator', e)
    for flag in sorted(tested - {'bins'}):
        passed = b.get(flag)
        present = cond is not None and passed is not None and T.contains(cond, passed)
        ctx.check(present, R, flag, ctx.where(fd, e), found=cond, expected=f'{flag} is part of the condition that installs the annotator',
                  reason=f'otherwise --{flag.replace("_", "-")} has no effect on its own',
                  key=f'{R}|dump|{flag}-not-in-condition')


def columns_deviance(ctx, fd):
    R = 'C16.dispatch-deviance'
    cols = V('columns')
    arms = {}
    for e in fd.events:
        uses = any(isinstance(v, tuple) and T.contains(v, cols) for v in e.d.values())
        for c, p in e.guards:
            if c[0] == 'cmp' and c[1] == '==' and T.contains(c, V('table')):
                key = (T.show(c), p)
                arms.setdefault(key, False)
                if uses:
                    arms[key] = True
    pos = {k: v for k, v in arms.items() if k[1]}
    # the final else-arm = all tests negative
    neg_all = [e for e in fd.events if sum(1 for c, p in e.guards if not p and c[0] == 'cmp' and T.contains(c, V('table'))) >= 2]
    uses_in_else = any(any(isinstance(v, tuple) and T.contains(v, cols) for v in e.d.values()) for e in neg_all)
    consulted = [k[0] for k, v in pos.items() if v]
    if len(consulted) >= 2:
        ctx.check(uses_in_else, R, 'dump.columns', ctx.where(fd), found=f'--columns consulted for {consulted} but not for the pixel table',
                  expected='an option honoured for two tables is honoured for the third',
                  reason='cooler dump -c count (pixels) prints all columns',
                  key='C16.dispatch-deviance|dump|columns-ignored-for-pixels')
    else:
        ctx.unrec(R, 'dump.columns', ctx.where(fd), found=consulted, reason='table dispatch not recognised')


_run_core = run


def run(ctx):
    _run_core(ctx)
    from . import refs_misc
    refs_misc.run_for(ctx, 'C16')
    from . import reflib
    reflib.run_for(ctx, 'C16')
