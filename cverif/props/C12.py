"""C12  Balanced reads equal raw values times the two bin weights.

Effect-level comparison with reference models of
  api.matrix             missing weight column -> ValueError before any read;
                         dense: arr * outer(W[i0:i1]^s, W[j0:j1]^s); sparse:
                         W[i0:i1]^s[row] * W[j0:j1]^s[col] * data; pixels:
                         weight1 * weight2 * value from annotate; s = -1 on BOTH
                         factors iff divisive
  Cooler.matrix / _slice divisive default for KR / VC / VC_SQRT only when the
                         caller left it None
  api.annotate           (shared with C14) the weight join keeps the pixel index
  cli.dump annotator     weight1 * weight2 * count
"""
from __future__ import annotations

from .. import terms as T
from ..facts import (C, G, V, arg, bind_call, calls, events, raises, receiver, returns, spec, spec_env, yields)
from ..refcompare import analyze_source, compare
from . import common

META = {
    'explanation': (
        'Effect-level comparison (normalised symbolic dataflow) of api.matrix, Cooler.matrix and its slicer, '
        'api.annotate and the dump annotator with reference models derived from the property: row weights '
        'from the row range, column weights from the column range, reciprocal on both iff divisive, the '
        'same-range shortcut proved redundant by rewriting under the equality, missing column refused before '
        'any data is read, divisive default only for the 4DN names and only when left unspecified. NaN '
        'propagation and float rounding of numpy are not decided.'),
    'not_decided': ['NaN propagation in numpy', 'float rounding'],
}

REF_MATRIX = '''
def ref(h5, i0, i1, j0, j1, field=None, balance=True, sparse=False, as_pixels=False, join=True,
        ignore_index=True, divisive_weights=False, chunksize=10000000, fill_lower=True):
    if field is None:
        field = "count"
    if isinstance(balance, str):
        name = balance
    elif balance:
        name = "weight"
    # a missing weight column is an error - before anything is read
    if balance and name not in h5["bins"]:
        raise ValueError("no such weight column")
    reader = CSRReader(h5["pixels"], h5["indexes/bin1_offset"][:])
    if as_pixels:
        engine = DirectRangeQuery2D(reader, field, (i0, i1, j0, j1), chunksize, return_index=not ignore_index)
        df = engine.to_frame()
        if balance:
            weights = Cooler(h5).bins()[[name]]
            df2 = annotate(df, weights, replace=False)
            if divisive_weights:
                df2[name + "1"] = 1 / df2[name + "1"]
                df2[name + "2"] = 1 / df2[name + "2"]
            df["balanced"] = df2[name + "1"] * df2[name + "2"] * df2[field]
        if join:
            bins = Cooler(h5).bins()[["chrom", "start", "end"]]
            df = annotate(df, bins, replace=True)
        return df
    elif sparse:
        if fill_lower:
            engine = FillLowerRangeQuery2D(reader, field, (i0, i1, j0, j1), chunksize)
        else:
            engine = DirectRangeQuery2D(reader, field, (i0, i1, j0, j1), chunksize)
        mat = engine.to_sparse_matrix()
        if balance:
            w = h5["bins"][name]
            wr = w[i0:i1]
            wc = w[j0:j1]
            if divisive_weights:
                wr = 1 / wr
                wc = 1 / wc
            mat.data = wr[mat.row] * wc[mat.col] * mat.data
        return mat
    else:
        if fill_lower:
            engine = FillLowerRangeQuery2D(reader, field, (i0, i1, j0, j1), chunksize)
        else:
            engine = DirectRangeQuery2D(reader, field, (i0, i1, j0, j1), chunksize)
        arr = engine.to_array()
        if balance:
            w = h5["bins"][name]
            wr = w[i0:i1]
            wc = w[j0:j1]
            if divisive_weights:
                wr = 1 / wr
                wc = 1 / wc
            arr = arr * np.outer(wr, wc)
        return arr
'''

REF_COOLER_MATRIX = '''
def ref(self, field=None, balance=True, sparse=False, as_pixels=False, join=False, ignore_index=True,
        divisive_weights=None, chunksize=10000000):
    if balance in _4DN_DIVISIVE_WEIGHTS and divisive_weights is None:
        divisive_weights = True

    def _slice(field, i0, i1, j0, j1):
        with open_hdf5(self.store, **self.open_kws) as h5:
            grp = h5[self.root]
            return matrix(grp, i0, i1, j0, j1, field, balance, sparse, as_pixels, join, ignore_index,
                          divisive_weights, chunksize, self._is_symm_upper)

    def _fetch(region, region2=None):
        with open_hdf5(self.store, **self.open_kws) as h5:
            grp = h5[self.root]
            if region2 is None:
                region2 = region
            region1 = parse_region(region, self._chromsizes)
            region2 = parse_region(region2, self._chromsizes)
            i0, i1 = region_to_extent(grp, self._chromids, region1, self.binsize)
            j0, j1 = region_to_extent(grp, self._chromids, region2, self.binsize)
            return i0, i1, j0, j1

    return RangeSelector2D(field, _slice, _fetch, (self._info["nbins"],) * 2)
'''

REF_ANNOTATE = '''
def ref(pixels, bins, replace=False):
    columns = pixels.columns
    if isinstance(bins, RangeSelector1D):
        def _loc_slice(sel, beg, end):
            # slicing a selector is end-exclusive
            return sel[beg : end + 1 if end is not None else None]
    else:
        def _loc_slice(df, beg, end):
            # .loc slicing of a frame is end-inclusive
            return df.loc[beg:end]
    anns = []
    if "bin1_id" in columns:
        b1 = pixels["bin1_id"].to_numpy().astype(np.int64, copy=False, casting="safe")
        if len(b1) == 0:
            bmin = bmax = 0
        elif len(bins) > len(pixels):
            bmin, bmax = b1.min(), b1.max()
        else:
            bmin, bmax = 0, None
        ann1 = _loc_slice(bins, bmin, bmax)
        anns.append(ann1.iloc[b1 - ann1.index[0]].rename(columns=lambda x: x + "1").reset_index(drop=True))
    if "bin2_id" in columns:
        b2 = pixels["bin2_id"].to_numpy().astype(np.int64, copy=False, casting="safe")
        if len(b2) == 0:
            bmin = bmax = 0
        elif len(bins) > len(pixels):
            bmin, bmax = b2.min(), b2.max()
        else:
            bmin, bmax = 0, None
        ann2 = _loc_slice(bins, bmin, bmax)
        anns.append(ann2.iloc[b2 - ann2.index[0]].rename(columns=lambda x: x + "2").reset_index(drop=True))
    if replace:
        drop = [col for col in ("bin1_id", "bin2_id") if col in columns]
        pixels = pixels.drop(drop, axis=1)
    out = pd.concat([*anns, pixels.reset_index(drop=True)], axis=1)
    out.index = pixels.index
    return out
'''

REF_MAKE_ANNOTATOR = '''
def ref(bins, balanced, join, annotate, one_based_ids, one_based_starts):
    def annotator(chunk):
        if annotate is not None:
            extra_fields = list(annotate)
            try:
                extra_cols = bins[extra_fields]
            except KeyError as e:
                print("x")
                sys.exit(1)
            extra = api.annotate(chunk[["bin1_id", "bin2_id"]], extra_cols, replace=True)
        if balanced:
            df = api.annotate(chunk, bins[["weight"]])
            chunk["balanced"] = df["weight1"] * df["weight2"] * chunk["count"]
        if join:
            chunk = api.annotate(chunk, bins[["chrom", "start", "end"]], replace=True)
        if annotate is not None:
            chunk = pd.concat([chunk, extra], axis=1)
        if one_based_ids:
            for col in ["bin1_id", "bin2_id"]:
                if col in chunk.columns:
                    chunk[col] += 1
        if one_based_starts:
            for col in ["start1", "start2"]:
                if col in chunk.columns:
                    chunk[col] += 1
        return chunk
    return annotator
'''


def annotate_rules(ctx, rule):
    fa = ctx.fa('cooler.api.annotate')
    ref = analyze_source(ctx.repo, 'cooler.api', REF_ANNOTATE)
    compare(ctx, rule, fa, None, ref_fa=ref,
            why='each pixel gets the row of its own bin: positional take relative to the first index of the (possibly partial) '
                'table; window = [min, max] of the ids only when the table is longer than the pixel list; the output keeps the pixels\' index')
    from ..refcompare import nested_pairs
    for an, aq, rn, rq in nested_pairs(ctx, fa, ref):
        compare(ctx, f'{rule}.slicer#{1 if "#" not in rn else rn.split("#")[1]}', ctx.fa(aq), None, ref_fa=ref.nested_analyses[rn],
                why='selector slicing is end-exclusive (+1), frame .loc slicing end-inclusive')


def run(ctx):
    compare(ctx, 'C12.matrix', ctx.fa('cooler.api.matrix'), REF_MATRIX,
            why='row weights from the row range, column weights from the column range, reciprocal on both iff divisive; '
                'missing column refused before any read')
    missing_before_read(ctx)
    fa = ctx.fa('cooler.api.Cooler.matrix')
    ref = analyze_source(ctx.repo, 'cooler.api', REF_COOLER_MATRIX)
    compare(ctx, 'C12.selector', fa, None, ref_fa=ref, why='matrix selector built from the slicer and fetcher')
    compare(ctx, 'C12.selector._slice', ctx.fa('cooler.api.Cooler.matrix.<locals>._slice'), None,
            ref_fa=ref.nested_analyses['_slice'],
            why='divisive default only for KR / VC / VC_SQRT and only when the caller left it None; every option forwarded in order')
    compare(ctx, 'C12.selector._fetch', ctx.fa('cooler.api.Cooler.matrix.<locals>._fetch'), None,
            ref_fa=ref.nested_analyses['_fetch'], why='see C04')
    names = ctx.repo.module('cooler.api').assigns.get('_4DN_DIVISIVE_WEIGHTS')
    import ast
    try:
        got = set(ast.literal_eval(names))
    except (ValueError, TypeError):
        got = None
    ctx.check(got == {'KR', 'VC', 'VC_SQRT'}, 'C12.names', '4DN-divisive-names', found=sorted(got) if got else None,
              expected=['KR', 'VC', 'VC_SQRT'], reason='the conventional names that are stored in divisive form')
    annotate_rules(ctx, 'C12.annotate')
    fm = ctx.fa('cooler.cli.dump.make_annotator')
    refm = analyze_source(ctx.repo, 'cooler.cli.dump', REF_MAKE_ANNOTATOR)
    compare(ctx, 'C12.dump-annotator', ctx.fa('cooler.cli.dump.make_annotator.<locals>.annotator'), None,
            ref_fa=refm.nested_analyses['annotator'],
            why='dump --balanced: balanced = weight1 * weight2 * count from the weight column of the bin table')


def missing_before_read(ctx):
    """E3 dominance: the refusal precedes every read of the pixel table."""
    R = 'C12.refusal-first'
    fa = ctx.fa('cooler.api.matrix')
    rs = [e for e in raises(fa)]
    reads = calls(fa, ('cooler.core._rangequery.CSRReader',))
    ok = bool(rs) and bool(reads) and rs[0].idx < reads[0].idx and not reads[0].loops
    ctx.check(ok, R, 'order', ctx.where(fa, rs[0] if rs else None), found='raise at line %s, first read at line %s' % (
        rs[0].line if rs else None, reads[0].line if reads else None), expected='ValueError raised before the reader is built',
        reason='asking for a missing weight column must be an error, not an unbalanced (or partially read) result')


_run_core = run


def run(ctx):
    _run_core(ctx)
    from . import refs_misc
    refs_misc.run_for(ctx, 'C12')
    from . import reflib
    reflib.run_for(ctx, 'C12')
