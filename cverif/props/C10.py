"""C10  Balancing weights flatten the marginals of the filtered matrix.

Only the clauses about *what is summed and what is masked* are decided:
 1 marginal definition (F16: the diagonal is counted twice)
 2 filter predicates: diagonals, min_nnz, min_count, MAD-max on per-chromosome
   normalised marginals, blacklist, NaN initial weights, cis/trans masks,
   binarisation - and the ORDER in which the in-place normalisation and the
   filters read the marginals
 3 the three sweeps (genome-wide, cis-only, trans-only) follow one reference
   model up to the documented differences
 4 dispatch, stats, stored column
Flatness within a tolerance-derived bound, convergence and finiteness of the
weights are numerical and are NOT decided.
"""
from __future__ import annotations

from .. import terms as T
from ..facts import (C, G, V, arg, bind_call, calls, events, receiver, returns, spec, spec_env, yields)
from ..refcompare import analyze_source, compare, effects, _show_effect
from . import common

META = {
    'explanation': (
        'Effect-level comparison (normalised symbolic dataflow, order-sensitive for in-place updates) of the '
        'pixel filters, _marginalize, the three balancing sweeps and balance_cooler with reference models '
        'derived from the documented procedure: what is summed, which bins are masked by which comparator, '
        'in which order the marginals are normalised and read, the update/convergence/NaN-marking/rescale '
        'steps of each sweep, dispatch and stats. The headline of C10 - flat marginals within a bound that '
        'follows from the tolerance, convergence, finite positive weights - is numerical and not decided.'),
    'not_decided': ['flatness of the marginals within a tolerance-derived bound', 'positivity / finiteness of the weights',
                    'convergence', 'the trans-only scale convention'],
}

BAL = 'cooler._balance'

REF_FILTERS = {
    '_init': '''
def ref(chunk):
    return np.copy(chunk["pixels"]["count"])
''',
    '_binarize': '''
def ref(chunk, data):
    data[data != 0] = 1
    return data
''',
    '_zero_diags': '''
def ref(n_diags, chunk, data):
    pixels = chunk["pixels"]
    data[np.abs(pixels["bin1_id"] - pixels["bin2_id"]) < n_diags] = 0
    return data
''',
    '_zero_trans': '''
def ref(chunk, data):
    chrom = chunk["bins"]["chrom"]
    pixels = chunk["pixels"]
    data[chrom[pixels["bin1_id"]] != chrom[pixels["bin2_id"]]] = 0
    return data
''',
    '_zero_cis': '''
def ref(chunk, data):
    chrom = chunk["bins"]["chrom"]
    pixels = chunk["pixels"]
    data[chrom[pixels["bin1_id"]] == chrom[pixels["bin2_id"]]] = 0
    return data
''',
    '_timesouterproduct': '''
def ref(vec, chunk, data):
    pixels = chunk["pixels"]
    return vec[pixels["bin1_id"]] * vec[pixels["bin2_id"]] * data
''',
}

# row sum of the symmetric completion of an upper-triangle pixel list: an off-diagonal
# pixel counts for both of its bins, a diagonal pixel once
REF_MARGINALIZE = '''
def ref(chunk, data):
    n = len(chunk["bins"]["chrom"])
    pixels = chunk["pixels"]
    off = pixels["bin1_id"] != pixels["bin2_id"]
    return (np.bincount(pixels["bin1_id"], weights=data, minlength=n)
            + np.bincount(pixels["bin2_id"][off], weights=data[off], minlength=n))
'''
# the form on the pinned tree (recorded finding F16)
KNOWN_MARGINALIZE = '''
def ref(chunk, data):
    n = len(chunk["bins"]["chrom"])
    pixels = chunk["pixels"]
    return (np.bincount(pixels["bin1_id"], weights=data, minlength=n)
            + np.bincount(pixels["bin2_id"], weights=data, minlength=n))
'''

SWEEP_BODY = '''
        nz = marg[marg != 0]
        if not len(nz):
            scale = np.nan
            {bias}[:] = np.nan
            var = 0.0
            break
        marg = marg / nz.mean()
        marg[marg == 0] = 1
        {bias_upd} /= marg
        var = nz.var()
        if var < tol:
            break
'''

REF_GENOMEWIDE = '''
def ref(bias, clr, spans, filters, chunksize, map, tol, max_iters, rescale_marginals, use_lock):
    scale = 1.0
    n_bins = len(bias)
    for _ in range(max_iters):
        marg = (split(clr, spans=spans, map=map, use_lock=use_lock).prepare(_init).pipe(filters)
                .pipe(_timesouterproduct, bias).pipe(_marginalize).reduce(add, np.zeros(n_bins)))
        nz = marg[marg != 0]
        if not len(nz):
            scale = np.nan
            bias[:] = np.nan
            var = 0.0
            break
        marg = marg / nz.mean()
        marg[marg == 0] = 1
        bias /= marg
        var = nz.var()
        if var < tol:
            break
    else:
        warnings.warn("no convergence", ConvergenceWarning, stacklevel=1)
    scale = nz.mean()
    bias[bias == 0] = np.nan
    if rescale_marginals:
        bias /= np.sqrt(scale)
    return bias, scale, var
'''

REF_TRANSONLY = '''
def ref(bias, clr, spans, filters, chunksize, map, tol, max_iters, rescale_marginals, use_lock):
    scale = 1.0
    n_bins = len(bias)
    offs = clr._load_dset("indexes/chrom_offset")
    cweights = 1.0 / np.concatenate([[(1 - (hi - lo) / n_bins)] * (hi - lo) for lo, hi in zip(offs[:-1], offs[1:])])
    for _ in range(max_iters):
        marg = (split(clr, spans=spans, map=map, use_lock=use_lock).prepare(_init).pipe(filters).pipe(_zero_cis)
                .pipe(_timesouterproduct, bias * cweights).pipe(_marginalize).reduce(add, np.zeros(n_bins)))
        nz = marg[marg != 0]
        if not len(nz):
            scale = np.nan
            bias[:] = np.nan
            var = 0.0
            break
        marg = marg / nz.mean()
        marg[marg == 0] = 1
        bias /= marg
        var = nz.var()
        if var < tol:
            break
    else:
        warnings.warn("no convergence", ConvergenceWarning, stacklevel=1)
    scale = nz.mean()
    bias[bias == 0] = np.nan
    if rescale_marginals:
        bias /= np.sqrt(scale)
    return bias, scale, var
'''

REF_CISONLY = '''
def ref(bias, clr, spans, filters, chunksize, map, tol, max_iters, rescale_marginals, use_lock):
    chroms = clr.chroms()["name"][:]
    ids = np.arange(len(clr.chroms()))
    offs = clr._load_dset("indexes/chrom_offset")
    rows = clr._load_dset("indexes/bin1_offset")
    scales = np.ones(len(ids))
    variances = np.full_like(scales, np.nan)
    n_bins = len(bias)
    for cid, lo, hi in zip(ids, offs[:-1], offs[1:]):
        plo, phi = rows[lo], rows[hi]
        spans = list(partition(plo, phi, chunksize))
        scale = 1.0
        var = np.nan
        for _ in range(max_iters):
            marg = (split(clr, spans=spans, map=map, use_lock=use_lock).prepare(_init).pipe(filters)
                    .pipe(_timesouterproduct, bias).pipe(_marginalize).reduce(add, np.zeros(n_bins)))
            marg = marg[lo:hi]
            nz = marg[marg != 0]
            if not len(nz):
                scale = np.nan
                bias[lo:hi] = np.nan
                var = 0.0
                break
            marg = marg / nz.mean()
            marg[marg == 0] = 1
            bias[lo:hi] /= marg
            var = nz.var()
            if var < tol:
                break
        else:
            warnings.warn("no convergence", ConvergenceWarning, stacklevel=1)
        scale = nz.mean()
        b = bias[lo:hi]
        b[b == 0] = np.nan
        scales[cid] = scale
        variances[cid] = var
        if rescale_marginals:
            bias[lo:hi] /= np.sqrt(scale)
    return bias, scales, variances
'''

REF_BALANCE = '''
def ref(clr, *, cis_only=False, trans_only=False, ignore_diags=2, mad_max=5, min_nnz=10, min_count=0,
        blacklist=None, rescale_marginals=True, x0=None, tol=1e-5, max_iters=200, chunksize=10_000_000,
        map=map, use_lock=False, store=False, store_name="weight"):
    nnz = int(clr.info["nnz"])
    if chunksize is None:
        chunksize = nnz
        spans = [(0, nnz)]
    else:
        edges = np.arange(0, nnz + chunksize, chunksize)
        spans = list(zip(edges[:-1], edges[1:]))
    base = []
    if cis_only:
        base.append(_zero_trans)
    if ignore_diags:
        base.append(partial(_zero_diags, ignore_diags))
    n_bins = int(clr.info["nbins"])
    if x0 is not None:
        bias = x0
        bias[np.isnan(bias)] = 0
    else:
        bias = np.ones(n_bins, dtype=float)
    # too few non-zeros
    if min_nnz > 0:
        fl = [_binarize, *base]
        cnt = (split(clr, spans=spans, map=map, use_lock=use_lock).prepare(_init).pipe(fl)
               .pipe(_marginalize).reduce(add, np.zeros(n_bins)))
        bias[cnt < min_nnz] = 0
    fl = base
    marg = (split(clr, spans=spans, map=map, use_lock=use_lock).prepare(_init).pipe(fl)
            .pipe(_marginalize).reduce(add, np.zeros(n_bins)))
    # too low total count: tested on the RAW marginals, i.e. before they are normalised in place
    if min_count:
        bias[marg < min_count] = 0
    # MAD-max on per-chromosome normalised marginals
    if mad_max > 0:
        offs = clr._load_dset("indexes/chrom_offset")
        for lo, hi in zip(offs[:-1], offs[1:]):
            c = marg[lo:hi]
            marg[lo:hi] /= np.median(c[c > 0])
        lg = np.log(marg[marg > 0])
        cutoff = np.exp(np.median(lg) - mad_max * mad(lg))
        bias[marg < cutoff] = 0
    if blacklist is not None:
        bias[blacklist] = 0
    if cis_only:
        bias, scale, var = _balance_cisonly(bias, clr, spans, base, chunksize, map, tol, max_iters, rescale_marginals, use_lock)
    elif trans_only:
        bias, scale, var = _balance_transonly(bias, clr, spans, base, chunksize, map, tol, max_iters, rescale_marginals, use_lock)
    else:
        bias, scale, var = _balance_genomewide(bias, clr, spans, base, chunksize, map, tol, max_iters, rescale_marginals, use_lock)
    stats = {"tol": tol, "min_nnz": min_nnz, "min_count": min_count, "mad_max": mad_max, "cis_only": cis_only,
             "ignore_diags": ignore_diags, "scale": scale, "converged": var < tol, "var": var, "divisive_weights": False}
    if store:
        with clr.open("r+") as grp:
            if store_name in grp["bins"]:
                del grp["bins"][store_name]
            h5opts = {"compression": "gzip", "compression_opts": 6}
            grp["bins"].create_dataset(store_name, data=bias, **h5opts)
            grp["bins"][store_name].attrs.update(stats)
    return bias, stats
'''


def run(ctx):
    for name, src in REF_FILTERS.items():
        compare(ctx, f'C10.filter.{name}', ctx.fa(f'{BAL}.{name}'), src,
                why='documented meaning of the pixel-level filter')
    # marginal definition, with the recorded finding F16
    kfa = analyze_source(ctx.repo, BAL, KNOWN_MARGINALIZE)
    kret = [_show_effect(p, gs) for p, gs, e in effects(kfa) if p[0] == 'return']
    known = [(lambda f, e, kret=kret: f in kret,
              'C10.marginal|_marginalize|diagonal-counted-twice',
              'both bincounts take every pixel, so a diagonal pixel is added twice to its bin: with ignore_diags=0 the '
              '"balanced" row sums of the true matrix are not flat (0.84-0.97 on a dense 12-bin matrix)')]
    compare(ctx, 'C10.marginal', ctx.fa(f'{BAL}._marginalize'), REF_MARGINALIZE, known=known,
            why='row sum of the symmetric completion: off-diagonal pixels count for both bins, diagonal pixels once')
    compare(ctx, 'C10.sweep.genomewide', ctx.fa(f'{BAL}._balance_genomewide'), REF_GENOMEWIDE,
            why='documented iterative correction sweep: marginals of the filtered, bias-weighted matrix; bias /= marg/mean; '
                'stop on var < tol; empty case NaN; zero weights NaN; rescale by sqrt(scale)')
    compare(ctx, 'C10.sweep.transonly', ctx.fa(f'{BAL}._balance_transonly'), REF_TRANSONLY,
            why='same sweep on inter-chromosomal data only (cis pixels zeroed, chromosome-size correction weights)')
    compare(ctx, 'C10.sweep.cisonly', ctx.fa(f'{BAL}._balance_cisonly'), REF_CISONLY,
            why='same sweep per chromosome on the pixel rows of that chromosome; per-chromosome scale and variance')
    compare(ctx, 'C10.balance_cooler', ctx.fa(f'{BAL}.balance_cooler'), REF_BALANCE,
            why='bin-level filters (min_nnz on binarised data, min_count on raw marginals, MAD-max on per-chromosome '
                'normalised marginals, blacklist, NaN initial weights), dispatch and stats')
    alias(ctx)


def alias(ctx):
    R = 'C10.alias'
    q = ctx.repo.resolve(f'{BAL}.iterative_correction')
    ctx.check(q == f'{BAL}.balance_cooler', R, 'iterative_correction', found=q, expected=f'{BAL}.balance_cooler')


_run_core = run


def run(ctx):
    _run_core(ctx)
    from . import refs_misc
    refs_misc.run_for(ctx, 'C10')
    from . import reflib
    reflib.run_for(ctx, 'C10')
