"""Library of reference models shared between properties.

Every entry is a short function written for the checker, derived from what the
property requires of that function.  ``ATTACH`` lists, per property, the
functions (in files the property is anchored in) that are compared with their
reference *in addition to* what the property module does itself, so that a
change anywhere in the mechanism of a property is seen by that property's own
check.  Functions that carry a recorded finding are compared only in their
home property module (where the finding is matched by its exact difference).
"""
from __future__ import annotations

from ..refcompare import analyze_source, compare, sibling_renames

LIB = {}


def _reg(qual, module, why, src, nested=(), ignore=None, drop_guards=()):
    LIB[qual] = dict(module=module, why=why, src=src, nested=tuple(nested), ignore=ignore, drop_guards=tuple(drop_guards))


def _is_emptiness_test(c):
    """len(<something>) compared with 0 (or the bare length used as a truth value)."""
    def is_len(t):
        return t[0] == 'call' and t[1] == ('g', 'len')
    if c[0] == 'cmp' and c[1] in ('==', '!=', '<', '<='):
        return (is_len(c[2]) and c[3] == ('c', 0)) or (is_len(c[3]) and c[2] == ('c', 0))
    if c[0] == 'not':
        return is_len(c[1])
    return is_len(c)


# -- creation ------------------------------------------------------------------------------

_reg('cooler.create._create.write_pixels', 'cooler.create._create',
     'running-offset append: every column of every chunk stored at [nnz, nnz+n), nnz advanced once per chunk, total accumulated, '
     'columns trimmed to nnz at the end; file opened per chunk only, lock paired', '''
def ref(filepath, grouppath, columns, iterable, h5opts, lock):
    nnz = 0
    total = 0
    for i, chunk in enumerate(iterable):
        if isinstance(chunk, pd.DataFrame):
            chunk = {k: v.values for k, v in chunk.items()}
        try:
            if lock is not None:
                lock.acquire()
            with h5py.File(filepath, "r+") as fw:
                grp = fw[grouppath]
                n = len(chunk[columns[0]])
                for col in columns:
                    dset = grp[col]
                    dset.resize((nnz + n,))
                    dset[nnz : nnz + n] = chunk[col]
                nnz += n
                if "count" in chunk:
                    total += chunk["count"].sum()
                fw.flush()
        finally:
            if lock is not None:
                lock.release()
    try:
        if lock is not None:
            lock.acquire()
        with h5py.File(filepath, "r+") as fw:
            grp = fw[grouppath]
            for col in columns:
                if len(grp[col]) != nnz:
                    grp[col].resize((nnz,))
    finally:
        if lock is not None:
            lock.release()
    return nnz, total
''', ignore=lambda p, gs: p[0] == 'continue', drop_guards=(_is_emptiness_test,))

_reg('cooler.create._create.create_cooler', 'cooler.create._create',
     'a frame / dict is sorted by (bin1_id, bin2_id) and written in one step; otherwise ordered or unordered creation with every option forwarded', '''
def ref(cool_uri, bins, pixels, columns=None, dtypes=None, metadata=None, assembly=None, ordered=False,
        symmetric_upper=True, mode="w", mergebuf=20_000_000, delete_temp=True, temp_dir=None, max_merge=200,
        boundscheck=True, dupcheck=True, triucheck=True, ensure_sorted=False, h5opts=None, lock=None):
    if isinstance(pixels, (pd.DataFrame, dict)):
        pixels = pd.DataFrame(pixels).sort_values(["bin1_id", "bin2_id"])
        ordered = True
    if ordered:
        create(cool_uri, bins, pixels, columns=columns, dtypes=dtypes, metadata=metadata, assembly=assembly,
               symmetric_upper=symmetric_upper, mode=mode, boundscheck=boundscheck, dupcheck=dupcheck,
               triucheck=triucheck, ensure_sorted=ensure_sorted, h5opts=h5opts, lock=lock)
    else:
        create_from_unordered(cool_uri, bins, pixels, columns=columns, dtypes=dtypes, metadata=metadata,
                              assembly=assembly, symmetric_upper=symmetric_upper, mode=mode, boundscheck=boundscheck,
                              dupcheck=dupcheck, triucheck=triucheck, ensure_sorted=ensure_sorted, h5opts=h5opts,
                              lock=lock, mergebuf=mergebuf, delete_temp=delete_temp, temp_dir=temp_dir,
                              max_merge=max_merge)
''')

_reg('cooler.create._create.index_pixels', 'cooler.create._create',
     'row-offset index = run-length offsets of bin1_id: n_bins + 1 entries, ids up to a run value get the run start, the tail holds nnz', '''
def ref(grp, n_bins, nnz):
    bin1 = grp["bin1_id"]
    offset = np.zeros(n_bins + 1, dtype=BIN1OFFSET_DTYPE)
    cur = 0
    for start, _length, value in zip(*rlencode(bin1, 1000000)):
        offset[cur : value + 1] = start
        cur = value + 1
    offset[cur:] = nnz
    return offset
''')

_reg('cooler.create._create.index_bins', 'cooler.create._create',
     'chromosome-offset index = run-length offsets of bins/chrom: n_chroms + 1 entries, the tail holds n_bins', '''
def ref(grp, n_chroms, n_bins):
    ids = grp["chrom"]
    offset = np.zeros(n_chroms + 1, dtype=CHROMOFFSET_DTYPE)
    cur = 0
    for start, _length, value in zip(*rlencode(ids)):
        offset[cur : value + 1] = start
        cur = value + 1
    offset[cur:] = n_bins
    return offset
''')

_reg('cooler.create._create.write_indexes', 'cooler.create._create', 'both indexes stored under the schema names, int64', '''
def ref(grp, chrom_offset, bin1_offset, h5opts):
    grp.create_dataset("chrom_offset", shape=(len(chrom_offset),), dtype=CHROMOFFSET_DTYPE, data=chrom_offset, **h5opts)
    grp.create_dataset("bin1_offset", shape=(len(bin1_offset),), dtype=BIN1OFFSET_DTYPE, data=bin1_offset, **h5opts)
''')

_reg('cooler.util.rlencode', 'cooler.util',
     'chunked run-length encoding: a run starts at a block boundary iff the first value differs from the carried last value', '''
def ref(array, chunksize=None):
    where = np.flatnonzero
    array = asarray_or_dataset(array)
    n = len(array)
    if n == 0:
        return (np.array([], dtype=int), np.array([], dtype=int), np.array([], dtype=array.dtype))
    if chunksize is None:
        chunksize = n
    starts, values = [], []
    last = np.nan
    for i in range(0, n, chunksize):
        x = array[i : i + chunksize]
        locs = where(x[1:] != x[:-1]) + 1
        if x[0] != last:
            locs = np.r_[0, locs]
        starts.append(i + locs)
        values.append(x[locs])
        last = x[-1]
    starts = np.concatenate(starts)
    lengths = np.diff(np.r_[starts, n])
    values = np.concatenate(values)
    return starts, lengths, values
''')

_reg('cooler.create._ingest._validate_pixels', 'cooler.create._ingest',
     'ids < 0 or >= n_bins on either axis, bin1 > bin2 (strict) and pixels repeated within the chunk are rejected with BadInputError; optional sort by the id pair', '''
def ref(chunk, n_bins, boundscheck, triucheck, dupcheck, ensure_sorted):
    if boundscheck:
        if np.any((chunk["bin1_id"] < 0) | (chunk["bin2_id"] < 0)):
            raise BadInputError("negative id")
        if np.any((chunk["bin1_id"] >= n_bins) | (chunk["bin2_id"] >= n_bins)):
            raise BadInputError("id too large")
    if triucheck:
        if np.any(chunk["bin1_id"] > chunk["bin2_id"]):
            raise BadInputError("lower triangle")
    if not isinstance(chunk, pd.DataFrame):
        chunk = pd.DataFrame(chunk)
    if dupcheck:
        dup = chunk.duplicated(["bin1_id", "bin2_id"])
        if dup.any():
            raise BadInputError("duplicates")
    if ensure_sorted:
        chunk = chunk.sort_values(["bin1_id", "bin2_id"])
    return chunk
''')

_reg('cooler.create._ingest.validate_pixels', 'cooler.create._ingest', 'each flag bound to the parameter of the same name', '''
def ref(n_bins, boundscheck, triucheck, dupcheck, ensure_sorted):
    return partial(_validate_pixels, n_bins=n_bins, boundscheck=boundscheck, triucheck=triucheck,
                   dupcheck=dupcheck, ensure_sorted=ensure_sorted)
''')

_reg('cooler.create._ingest.ArrayLoader.__iter__', 'cooler.create._ingest',
     'dense loader: row spans tile [0, n); entries with global row <= column kept; row ids shifted by the span start', '''
def ref(self):
    n = self.array.shape[0]
    for lo, hi in partition(0, n, self.chunksize):
        X = self.array[lo:hi, :]
        i, j = np.nonzero(X)
        keep = (lo + i) <= j
        yield {"bin1_id": lo + i[keep], "bin2_id": j[keep], "count": X[i[keep], j[keep]]}
''')

_reg('cooler.create._ingest.aggregate_records', 'cooler.create._ingest',
     'records grouped per pixel; the count is the group size of a grouper column (NaN-safe), renamed to count', '''
def ref(sort=True, count=True, agg=None, rename=None):
    if agg is None:
        agg = {}
    if rename is None:
        rename = {}
    if count and "count" not in agg:
        agg["bin1_id"] = "size"
        rename["bin1_id"] = "count"

    def _aggregate_records(chunk):
        return (chunk.groupby(["bin1_id", "bin2_id"], sort=sort).aggregate(agg).rename(columns=rename).reset_index())

    return _aggregate_records
''', nested=[('_aggregate_records', '_aggregate_records')])

_reg('cooler.create._ingest.sanitize_records', 'cooler.create._ingest',
     'preset options overridden by keyword arguments; positions binned against the given bin table', '''
def ref(bins, schema=None, **kwargs):
    if schema is not None:
        try:
            options = SANITIZE_PRESETS[schema]
        except KeyError:
            raise ValueError("unknown schema") from None
    else:
        options = {}
    options = options.copy()
    options.update(**kwargs)
    chromsizes = get_chromsizes(bins)
    options["gs"] = GenomeSegmentation(chromsizes, bins)
    return partial(_sanitize_records, **options)
''')

_reg('cooler.create._ingest.sanitize_pixels', 'cooler.create._ingest', 'pixel sanitiser bound to the given bin table and options', '''
def ref(bins, **kwargs):
    chromsizes = get_chromsizes(bins)
    kwargs["gs"] = GenomeSegmentation(chromsizes, bins)
    return partial(_sanitize_pixels, **kwargs)
''')

_reg('cooler.create._ingest.TabixAggregator.aggregate', 'cooler.create._ingest',
     'per row bin: records whose first anchor lies in the bin are fetched; the second anchor (minus one when one-based) is binned on '
     'its own chromosome; counts per (bin1, bin2); accumulator cleared per row; unlisted second chromosomes skipped', '''
def ref(self, grange):
    chrom1, start, end = grange
    import pysam
    gs = self.gs
    decr = int(self.is_one_based)
    these_bins = gs.fetch((chrom1, start, end))
    rows = []
    with pysam.TabixFile(self.filepath, "r", encoding="ascii") as f:
        parser = pysam.asTuple()
        acc = Counter()
        for bin1_id, bin1 in these_bins.iterrows():
            for line in f.fetch(chrom1, bin1.start, bin1.end, parser=parser):
                chrom2 = line[self.C2]
                pos2 = int(line[self.P2]) - decr
                try:
                    cid2 = gs.idmap[chrom2]
                except KeyError:
                    continue
                if gs.binsize is None:
                    lo = gs.chrom_binoffset[cid2]
                    hi = gs.chrom_binoffset[cid2 + 1]
                    bin2_id = lo + np.searchsorted(gs.start_abspos[lo:hi], gs.chrom_abspos[cid2] + pos2, side="right") - 1
                else:
                    bin2_id = gs.chrom_binoffset[cid2] + (pos2 // gs.binsize)
                acc[bin2_id] += 1
            if not acc:
                continue
            rows.append(pd.DataFrame({"bin1_id": bin1_id, "bin2_id": list(acc.keys()), "count": list(acc.values())},
                                     columns=["bin1_id", "bin2_id", "count"]).sort_values("bin2_id"))
            acc.clear()
    return pd.concat(rows, axis=0) if len(rows) else None
''')

# -- read path -----------------------------------------------------------------------------------

_reg('cooler.core._tableops.get', 'cooler.core._tableops',
     'every requested column read as dset[lo:hi] (enum, bytes and plain alike); rows labelled lo..lo+n-1; a single name gives a Series', '''
def ref(grp, lo=0, hi=None, fields=None, convert_enum=True, as_dict=False):
    series = False
    if fields is None:
        fields = list(grp.keys())
    elif isinstance(fields, str):
        fields = [fields]
        series = True
    data = {}
    for field in fields:
        dset = grp[field]
        if convert_enum:
            dt = h5py.check_dtype(enum=dset.dtype)
        else:
            dt = None
        if dt is not None:
            data[field] = pd.Categorical.from_codes(dset[lo:hi], sorted(dt, key=dt.__getitem__), ordered=True)
        elif dset.dtype.type == np.bytes_:
            data[field] = dset[lo:hi].astype("U")
        else:
            data[field] = dset[lo:hi]
    if as_dict:
        return data
    if data and lo is not None:
        index = np.arange(lo, lo + len(next(iter(data.values()))))
    else:
        index = None
    if series:
        return pd.Series(data[fields[0]], index=index, name=field)
    else:
        return pd.DataFrame(data, columns=fields, index=index)
''')

_reg('cooler.core._rangequery._region_to_extent', 'cooler.core._rangequery',
     'first bin = floor(start / b) or last start <= start within the chromosome; end bin = ceil(end / b) or number of starts < end', '''
def ref(h5, chrom_ids, region, binsize):
    chrom, start, end = region
    cid = chrom_ids[chrom]
    if binsize is not None:
        base = h5["indexes"]["chrom_offset"][cid]
        yield base + start // binsize
        yield base + (-(-end // binsize))
    else:
        lo = h5["indexes"]["chrom_offset"][cid]
        hi = h5["indexes"]["chrom_offset"][cid + 1]
        starts = h5["bins"]["start"][lo:hi]
        yield lo + np.searchsorted(starts, start, "right") - 1
        yield lo + np.searchsorted(starts, end, "left")
''')

_reg('cooler.core._rangequery.region_to_offset', 'cooler.core._rangequery', 'first value of the extent', '''
def ref(h5, chrom_ids, region, binsize=None):
    return next(_region_to_extent(h5, chrom_ids, region, binsize))
''')
_reg('cooler.core._rangequery.region_to_extent', 'cooler.core._rangequery', 'both values of the extent', '''
def ref(h5, chrom_ids, region, binsize=None):
    return tuple(_region_to_extent(h5, chrom_ids, region, binsize))
''')

_reg('cooler.core._rangequery.CSRReader.__call__', 'cooler.core._rangequery',
     'rows of the span read as one block; per row the columns inside [j0, j1) kept (same mask for values and index); under reflect '
     'the off-diagonal records with column < i1 are mirrored; an empty result has the right columns', '''
def ref(self, field, bbox, row_span=None, reflect=False, return_index=False):
    i0, i1, j0, j1 = bbox
    if row_span is None:
        s0, s1 = i0, i1
    else:
        s0, s1 = row_span
    result = {"bin1_id": [], "bin2_id": [], field: []}
    if return_index:
        result["__index"] = []
    off = self.bin1_offsets
    lo_all, hi_all = off[s0], off[s1]
    slc = slice(lo_all, hi_all)
    cols_all = self.pixel_grp["bin2_id"][slc]
    vals_all = self.pixel_grp[field][slc]
    if return_index:
        idx_all = np.arange(slc.start, slc.stop)
    for i in range(s0, s1):
        lo = off[i] - lo_all
        hi = off[i + 1] - lo_all
        c = cols_all[lo:hi]
        keep = (c >= j0) & (c < j1)
        cols = c[keep]
        data = vals_all[lo:hi][keep]
        rows = np.full(len(cols), i, dtype=self.pixel_grp["bin1_id"].dtype)
        result["bin1_id"].append(rows)
        result["bin2_id"].append(cols)
        result[field].append(data)
        if return_index:
            result["__index"].append(idx_all[lo:hi][keep])
    if len(result["bin1_id"]):
        for key in result.keys():
            result[key] = np.concatenate(result[key], axis=0)
        if reflect:
            dup = (result["bin1_id"] != result["bin2_id"]) & (result["bin2_id"] < i1)
            x = np.r_[result["bin1_id"], result["bin2_id"][dup]]
            y = np.r_[result["bin2_id"], result["bin1_id"][dup]]
            result["bin1_id"] = x
            result["bin2_id"] = y
            result[field] = np.r_[result[field], result[field][dup]]
            if return_index:
                result["__index"] = np.r_[result["__index"], result["__index"][dup]]
    else:
        result = self.get_dict_meta(field, return_index)
    return result
''')

_reg('cooler.core._rangequery.CSRReader.get_spans', 'cooler.core._rangequery',
     'an empty window has no spans; otherwise adjacent pairs of the pruned offsets of rows i0..i1 inclusive, shifted back by i0', '''
def ref(self, bbox, chunksize):
    i0, i1, j0, j1 = bbox
    if (i1 - i0 < 1) or (j1 - j0 < 1):
        edges = np.array([], dtype=int)
    else:
        edges = i0 + arg_prune_partition(self.bin1_offsets[i0 : i1 + 1], chunksize)
    return list(zip(edges[:-1], edges[1:]))
''')

_reg('cooler.core._rangequery.arg_prune_partition', 'cooler.core._rangequery',
     'cut points from the first to the last offset inclusive; indices of the offsets at the cuts, de-duplicated', '''
def ref(seq, step):
    lo, hi = seq[0], seq[-1]
    num = 2 + (hi - lo) // step
    cuts = np.linspace(lo, hi, num, dtype=int)
    return np.unique(np.searchsorted(seq, cuts))
''')

_reg('cooler.core._rangequery.concat', 'cooler.core._rangequery', 'column-wise concatenation over all task outputs, in order', '''
def ref(*dcts):
    if not dcts:
        return {}
    return {key: np.concatenate([dct[key] for dct in dcts]) for key in dcts[0]}
''')

_reg('cooler.core._rangequery.transpose', 'cooler.core._rangequery', 'row and column ids exchanged', '''
def ref(dct):
    x, y = dct["bin1_id"], dct["bin2_id"]
    dct["bin1_id"], dct["bin2_id"] = y, x
    return dct
''')

_reg('cooler.core._selectors.RangeSelector2D.__getitem__', 'cooler.core._selectors',
     'row key resolved against the row count, column key against the column count', '''
def ref(self, key):
    s1, s2 = self._unpack_index(key)
    i0, i1 = self._process_slice(s1, self._shape[0])
    j0, j1 = self._process_slice(s2, self._shape[1])
    return self._slice(self.field, i0, i1, j0, j1)
''')

_reg('cooler.core._selectors.RangeSelector2D.fetch', 'cooler.core._selectors', 'fetch = slice on the fetched extents', '''
def ref(self, *args, **kwargs):
    if self._fetch is not None:
        i0, i1, j0, j1 = self._fetch(*args, **kwargs)
        return self._slice(self.field, i0, i1, j0, j1)
    else:
        raise NotImplementedError
''')

_reg('cooler.core._selectors._IndexingMixin._unpack_index', 'cooler.core._selectors', 'one key = rows and all columns; more than two refused', '''
def ref(self, key):
    if isinstance(key, tuple):
        if len(key) == 2:
            row, col = key
        elif len(key) == 1:
            row, col = key[0], slice(None)
        else:
            raise IndexError("invalid number of indices")
    else:
        row, col = key, slice(None)
    return row, col
''')

for _name, _callee in (('offset', 'region_to_offset'), ('extent', 'region_to_extent')):
    _reg(f'cooler.api.Cooler.{_name}', 'cooler.api',
         'the region is validated against this cooler\'s chromosome lengths, then mapped with its own ids and bin size', f'''
def ref(self, region):
    with open_hdf5(self.store, **self.open_kws) as h5:
        grp = h5[self.root]
        return {_callee}(grp, self._chromids, parse_region(region, self._chromsizes), self.binsize)
''')

_reg('cooler.api.Cooler.binsize', 'cooler.api', 'the recorded bin size selects the arithmetic path', '''
def ref(self):
    return self._info["bin-size"]
''')

_reg('cooler.api.Cooler.bins', 'cooler.api', 'bin table selector: slicer, region fetcher, length = nbins', '''
def ref(self, **kwargs):
    def _slice(fields, lo, hi):
        with open_hdf5(self.store, **self.open_kws) as h5:
            grp = h5[self.root]
            return bins(grp, lo, hi, fields, **kwargs)

    def _fetch(region):
        with open_hdf5(self.store, **self.open_kws) as h5:
            grp = h5[self.root]
            return region_to_extent(grp, self._chromids, parse_region(region, self._chromsizes), self.binsize)

    return RangeSelector1D(None, _slice, _fetch, self._info["nbins"])
''', nested=[('_slice', '_slice'), ('_fetch', '_fetch')])

_reg('cooler.api.Cooler.pixels', 'cooler.api', 'pixel table selector: slicer, region fetcher through the row-offset index, length = nnz', '''
def ref(self, join=False, **kwargs):
    def _slice(fields, lo, hi):
        with open_hdf5(self.store, **self.open_kws) as h5:
            grp = h5[self.root]
            return pixels(grp, lo, hi, fields, join, **kwargs)

    def _fetch(region):
        with open_hdf5(self.store, **self.open_kws) as h5:
            grp = h5[self.root]
            i0, i1 = region_to_extent(grp, self._chromids, parse_region(region, self._chromsizes), self.binsize)
            lo = grp["indexes"]["bin1_offset"][i0]
            hi = grp["indexes"]["bin1_offset"][i1]
            return lo, hi

    return RangeSelector1D(None, _slice, _fetch, self._info["nnz"])
''', nested=[('_slice', '_slice'), ('_fetch', '_fetch')])

_reg('cooler.api.Cooler.chroms', 'cooler.api', 'chromosome table selector, length = nchroms', '''
def ref(self, **kwargs):
    def _slice(fields, lo, hi):
        with open_hdf5(self.store, **self.open_kws) as h5:
            grp = h5[self.root]
            return chroms(grp, lo, hi, fields, **kwargs)

    return RangeSelector1D(None, _slice, None, self._info["nchroms"])
''', nested=[('_slice', '_slice')])

# -- balancing CLI ------------------------------------------------------------------------------------

_reg('cooler.cli.balance.balance', 'cooler.cli.balance',
     'options forwarded to balance_cooler under their own names; unordered pool map only when nproc > 1; blacklist regions -> bin ids; '
     'weights stored under the requested name with the stats', '''
def ref(cool_uri, nproc, chunksize, mad_max, min_nnz, min_count, blacklist, ignore_diags, tol, cis_only, trans_only,
        max_iters, name, force, check, stdout, convergence_policy, ignore_dist):
    logger = get_logger(__name__)
    cool_path, group_path = parse_cooler_uri(cool_uri)
    if check:
        with h5py.File(cool_path, "r") as h5:
            grp = h5[group_path]
            if name not in grp["bins"]:
                sys.exit(1)
            else:
                sys.exit(0)
    if cis_only and trans_only:
        raise click.UsageError("at most one")
    with h5py.File(cool_path, "r+") as h5:
        grp = h5[group_path]
        if name in grp["bins"] and not stdout:
            if not force:
                sys.exit(1)
            else:
                del grp["bins"][name]
    clr = Cooler(cool_uri)
    if blacklist is not None:
        import csv
        with open(blacklist) as f:
            bad_regions = pd.read_csv(blacklist, sep="\\t", header=0 if csv.Sniffer().has_header(f.read(1024)) else None,
                                      usecols=[0, 1, 2], names=["chrom", "start", "end"], dtype={"chrom": str})
        bins_grouped = clr.bins()[:].groupby("chrom", observed=True)
        chromsizes = clr.chromsizes
        bad_bins = []
        for _, reg in bad_regions.iterrows():
            result = bedslice(bins_grouped, chromsizes, (reg.chrom, reg.start, reg.end))
            bad_bins.append(result.index.values)
        bad_bins = np.concatenate(bad_bins)
    else:
        bad_bins = None
    if ignore_dist is not None:
        ignore_diags = max(ignore_diags, int(np.ceil(ignore_dist / clr.binsize)))
    try:
        if nproc > 1:
            pool = Pool(nproc)
            map_ = pool.imap_unordered
        else:
            map_ = map
        bias, stats = balance_cooler(clr, chunksize=chunksize, cis_only=cis_only, trans_only=trans_only, tol=tol,
                                     min_nnz=min_nnz, min_count=min_count, blacklist=bad_bins, mad_max=mad_max,
                                     max_iters=max_iters, ignore_diags=ignore_diags, rescale_marginals=True,
                                     use_lock=False, map=map_)
    finally:
        if nproc > 1:
            pool.close()
    if not np.all(stats["converged"]):
        if convergence_policy == "store_final":
            pass
        elif convergence_policy == "store_nan":
            bias[:] = np.nan
        elif convergence_policy == "discard":
            sys.exit(0)
        elif convergence_policy == "error":
            sys.exit(1)
    if stdout:
        pd.Series(bias).to_string(sys.stdout, header=False, index=False, na_rep="", float_format="%g")
    else:
        with h5py.File(cool_path, "r+") as h5:
            grp = h5[group_path]
            h5opts = {"compression": "gzip", "compression_opts": 6}
            grp["bins"].create_dataset(name, data=bias, **h5opts)
            grp["bins"][name].attrs.update(stats)
''')


# -- attachment -------------------------------------------------------------------------------------
# property -> functions compared in addition to the property module's own rules

def _mods():
    """References that live in property modules (imported lazily to avoid cycles)."""
    from . import C05, C06, C07, C08, C09, C10, C11, C12, C13, C14, C15, C17, C18, C19, C20
    M = {}

    def add(qual, module, src, why, nested=(), normalize=None, alts=()):
        M[qual] = dict(module=module, src=src, why=why, nested=tuple(nested), normalize=normalize, alts=tuple(alts))
    add('cooler.create._create.create', 'cooler.create._create', C13.REF_CREATE, 'reference model of create() (see C13)')
    add('cooler.create._create.write_info', 'cooler.create._create', C13.REF_WRITE_INFO, 'attributes written in one update, magic included')
    add('cooler.create._create.create_from_unordered', 'cooler.create._create', C06.REF_UNORDERED, 'two-pass external sort (see C06)')
    add('cooler.create._create.create_scool', 'cooler.create._create', C17.REF_CREATE_SCOOL, 'single-cell creation (see C17)')
    add('cooler._reduce.merge_breakpoints', 'cooler._reduce', C06.REF_BREAKPOINTS, 'merge epochs (see C06)')
    add('cooler._reduce.CoolerMerger.__iter__', 'cooler._reduce', C06.REF_MERGER_ITER, 'epoch discipline (see C06)')
    add('cooler._reduce.CoolerMerger.__init__', 'cooler._reduce', C07.REF_MERGER_INIT, 'compatibility refusals (see C07)')
    add('cooler._reduce.merge_coolers', 'cooler._reduce', C07.REF_MERGE_COOLERS, 'merge driver (see C07)')
    add('cooler._reduce.CoolerCoarsener.__init__', 'cooler._reduce', C08.REF_INIT, 'work-unit edges (see C08)')
    add('cooler._reduce.CoolerCoarsener._aggregate', 'cooler._reduce', C08.REF_AGGREGATE, 're-binning (see C08)')
    add('cooler._reduce.CoolerCoarsener.__iter__', 'cooler._reduce', C08.REF_ITER, 'batches (see C08)')
    add('cooler._reduce.CoolerCoarsener.coarsen_bins', 'cooler._reduce', C08.REF_COARSEN_BINS, 'coarsened bin table (see C08)',
        nested=[('_each', '_each')])
    add('cooler._reduce._greedy_prune_partition', 'cooler._reduce', C08.REF_PRUNE, 'pruning by selection (see C08)')
    add('cooler._reduce.coarsen_cooler', 'cooler._reduce', C08.REF_COARSEN_COOLER, 'coarsen driver (see C08)')
    add('cooler._reduce.zoomify_cooler', 'cooler._reduce', C09.REF_ZOOMIFY, 'zoomify (see C09)')
    add('cooler._reduce.get_multiplier_sequence', 'cooler._reduce', C09.REF_MULT, 'multipliers (see C09)', alts=[C09.REF_MULT_FOR])
    add('cooler.fileops.is_multires_file', 'cooler.fileops', C09.REF_IS_MULTIRES, 'mcool recogniser (see C09)')
    add('cooler.fileops._is_cooler', 'cooler.fileops', C13.REF_IS_COOLER_INNER, 'cooler recogniser (see C13)')
    add('cooler.fileops.is_scool_file', 'cooler.fileops', C17.REF_IS_SCOOL, 'scool recogniser (see C17)')
    add('cooler.fileops._copy', 'cooler.fileops', C15.REF_COPY, 'copy / move / link (see C15)')
    add('cooler.api.matrix', 'cooler.api', C12.REF_MATRIX, 'matrix query (see C12)')
    add('cooler.api.annotate', 'cooler.api', C12.REF_ANNOTATE, 'bin annotation (see C12/C14)', nested=[('_loc_slice', '_loc_slice'), ('_loc_slice#2', '_loc_slice#2')])
    add('cooler.api.Cooler.matrix', 'cooler.api', C12.REF_COOLER_MATRIX, 'matrix selector (see C12)', nested=[('_slice', '_slice'), ('_fetch', '_fetch')])
    add('cooler.api.bins', 'cooler.api', C14.REF_BINS, 'bin table (see C14)')
    add('cooler.api.pixels', 'cooler.api', C14.REF_PIXELS, 'pixel table (see C14)')
    add('cooler.api.chroms', 'cooler.api', C14.REF_CHROMS, 'chromosome table (see C14)')
    add('cooler.api.Cooler._refresh', 'cooler.api', C18.REF_REFRESH, 'cache refresh (see C18)')
    add('cooler.core._selectors.RangeSelector1D.__getitem__', 'cooler.core._selectors', C14.REF_GETITEM, 'row / column keys (see C14)')
    add('cooler.core._selectors.RangeSelector1D.fetch', 'cooler.core._selectors', C14.REF_SEL_FETCH, 'fetch (see C14)')
    add('cooler.util.parse_region', 'cooler.util', C19.REF_PARSE_REGION, 'region defaults and refusals (see C19)')
    add('cooler.util.parse_cooler_uri', 'cooler.util', C15.REF_URI, 'URI split (see C15)')
    add('cooler.util.get_chromsizes', 'cooler.util', C20.REF_CHROMSIZES, 'chromosome lengths from last bins (see C20)')
    add('cooler.util.binnify', 'cooler.util', C20.REF_BINNIFY, 'fixed-width binning (see C20)', nested=[('_each', '_each')],
        alts=[C20.REF_BINNIFY_LOOP])
    add('cooler.util.GenomeSegmentation.__init__', 'cooler.util', C05.REF_GS_INIT, 'offset tables (see C05)')
    add('cooler.util.partition', 'cooler.util', C11.REF_PARTITION, 'interval partition (see C11)')
    add('cooler.parallel.split', 'cooler.parallel', C11.REF_SPLIT, 'split (see C11)')
    add('cooler.parallel.chunkgetter.__call__', 'cooler.parallel', C11.REF_GETTER, 'chunk getter (see C11)')
    add('cooler.parallel.apply_pipeline', 'cooler.parallel', C11.REF_APPLY, 'pipeline application (see C11)')
    add('cooler.parallel.MultiplexDataPipe.pipe', 'cooler.parallel', C11.REF_PIPE_PIPE, 'pipe (see C11)')
    add('cooler.parallel.MultiplexDataPipe.reduce', 'cooler.parallel', C11.REF_PIPE_REDUCE, 'fold (see C11)')
    add('cooler.parallel.MultiplexDataPipe.run', 'cooler.parallel', C11.REF_PIPE_RUN, 'run (see C11)')
    add('cooler.parallel.MultiplexDataPipe.prepare', 'cooler.parallel', C11.REF_PIPE_PREPARE, 'prepare (see C11)')
    add('cooler.parallel.MultiplexDataPipe.__copy__', 'cooler.parallel', C11.REF_PIPE_COPY, 'copy (see C11)')
    add('cooler.util.parse_humanized', 'cooler.util', C19.REF_HUMANIZED, 'numeral x unit, exactly (see C19)', normalize=C19._exact)
    add('cooler.util.parse_region_string', 'cooler.util', C19.REF_REGION_STRING, 'region grammar (see C19)',
        nested=[('_tokenize', '_tokenize'), ('_check_token', '_check_token'), ('_expect', '_expect')])
    add('cooler.util.read_chromsizes', 'cooler.util', C20.REF_READ_CHROMSIZES, 'chromsizes reader (see C20)')
    add('cooler.cli._util.parse_bins', 'cooler.cli._util', C20.REF_PARSE_BINS, 'BINS argument (see C20)')
    add('cooler.cli.makebins.makebins', 'cooler.cli.makebins', C20.REF_MAKEBINS, 'makebins (see C20)')
    add('cooler.create._create._rename_chroms', 'cooler.create._create', C18.REF_RENAME_INNER, 'renaming (see C18)')
    add('cooler.create._create.rename_chroms', 'cooler.create._create', C18.REF_RENAME, 'renaming (see C18)')
    add('cooler.create._ingest._sanitize_pixels', 'cooler.create._ingest', C05.REF_SANITIZE_PIXELS, 'pixel sanitiser (see C05)')
    add('cooler.fileops.is_cooler', 'cooler.fileops', __import__('cverif.props.common', fromlist=['x']).REF_IS_COOLER, 'recogniser is total (see C15)')
    add('cooler.fileops.list_coolers', 'cooler.fileops', __import__('cverif.props.common', fromlist=['x']).REF_LIST_COOLERS, 'listing (see C15)',
        nested=[('_check_cooler', '_check_cooler')])
    add('cooler.fileops.list_scool_cells', 'cooler.fileops', C15.REF_LIST_CELLS, 'cell listing (see C15/C17)',
        nested=[('_check_cooler', '_check_cooler')])
    add('cooler.fileops.cp', 'cooler.fileops', C15.REF_CP, 'copy wrapper')
    add('cooler.fileops.mv', 'cooler.fileops', C15.REF_MV, 'move wrapper')
    add('cooler.fileops.ln', 'cooler.fileops', C15.REF_LN, 'link wrapper')
    add('cooler.fileops.visititems', 'cooler.fileops', C15.REF_VISIT, 'traversal', nested=[('_visititems', '_visititems')])
    from . import C16
    add('cooler.cli.dump.dump', 'cooler.cli.dump', C16.REF_DUMP, 'dump (see C16)')
    add('cooler.cli.dump.make_annotator', 'cooler.cli.dump', C12.REF_MAKE_ANNOTATOR, 'dump annotator (see C12/C16)', nested=[('annotator', 'annotator')])
    add('cooler.cli.load.load', 'cooler.cli.load', C16.REF_LOAD, 'load (see C16)')
    add('cooler.cli.cload.pairs', 'cooler.cli.cload', C16.REF_PAIRS, 'cload pairs (see C16)')
    add('cooler.cli._util.parse_field_param', 'cooler.cli._util', C16.REF_FIELD_PARAM, 'field spec (see C16)')
    add('cooler._reduce.geomprog', 'cooler._reduce', C09.REF_GEOM, 'geometric progression')
    add('cooler._reduce.niceprog', 'cooler._reduce', C09.REF_NICE, 'nice progression')
    add('cooler.parallel.chunkgetter.__init__', 'cooler.parallel', C11.REF_GETTER_INIT, 'getter flags')
    add('cooler.parallel.MultiplexDataPipe.__init__', 'cooler.parallel', C11.REF_PIPE_INIT, 'pipe state')
    add('cooler.parallel.MultiplexDataPipe.gather', 'cooler.parallel', C11.REF_PIPE_GATHER, 'gather')
    add('cooler.core._selectors.RangeSelector1D.__init__', 'cooler.core._selectors', C14.REF_SEL_INIT, 'selector state')
    for n, src in C10.REF_FILTERS.items():
        add(f'cooler._balance.{n}', 'cooler._balance', src, 'pixel-level filter (see C10)')
    add('cooler._balance._balance_genomewide', 'cooler._balance', C10.REF_GENOMEWIDE, 'sweep (see C10)')
    add('cooler._balance._balance_transonly', 'cooler._balance', C10.REF_TRANSONLY, 'sweep (see C10)')
    add('cooler._balance._balance_cisonly', 'cooler._balance', C10.REF_CISONLY, 'sweep (see C10)')
    add('cooler._balance.balance_cooler', 'cooler._balance', C10.REF_BALANCE, 'bin-level filters and dispatch (see C10)')
    return M


ATTACH = {
    'C01': ['cooler.create._create.create', 'cooler.create._create.write_pixels', 'cooler.create._create.create_cooler',
            'cooler.create._create.write_info', 'cooler.create._ingest.ArrayLoader.__iter__', 'cooler.api.matrix', 'cooler.api.pixels',
            'cooler.api.Cooler.pixels', 'cooler.api.Cooler.matrix', 'cooler.core._tableops.get', 'cooler.api.annotate',
            'cooler.create._create.index_pixels', 'cooler.create._create.index_bins'],
    'C02': ['cooler.create._create.create', 'cooler.create._create.write_pixels', 'cooler.create._create.index_pixels',
            'cooler.create._create.index_bins', 'cooler.create._create.write_indexes', 'cooler.util.rlencode',
            'cooler.create._create.write_info', 'cooler.create._ingest._validate_pixels', 'cooler.create._ingest.validate_pixels',
            'cooler.util.get_chromsizes', 'cooler._reduce.CoolerMerger.__iter__', 'cooler._reduce.CoolerCoarsener._aggregate',
            'cooler.create._create.create_from_unordered', 'cooler.create._create.create_scool', 'cooler.create._create.create_cooler',
            'cooler._reduce.merge_breakpoints'],
    'C03': ['cooler.core._rangequery.CSRReader.__call__', 'cooler.core._rangequery.CSRReader.get_spans',
            'cooler.core._rangequery.arg_prune_partition', 'cooler.core._rangequery.concat', 'cooler.core._rangequery.transpose',
            'cooler.core._selectors.RangeSelector2D.__getitem__', 'cooler.core._selectors.RangeSelector2D.fetch',
            'cooler.core._selectors._IndexingMixin._unpack_index', 'cooler.api.matrix', 'cooler.api.Cooler.matrix'],
    'C04': ['cooler.core._rangequery._region_to_extent', 'cooler.core._rangequery.region_to_offset',
            'cooler.core._rangequery.region_to_extent', 'cooler.api.Cooler.offset', 'cooler.api.Cooler.extent',
            'cooler.api.Cooler.binsize', 'cooler.api.Cooler.bins', 'cooler.api.Cooler.pixels', 'cooler.api.Cooler.matrix',
            'cooler.util.parse_region', 'cooler.core._selectors.RangeSelector2D.fetch',
            'cooler.util.parse_region_string', 'cooler.util.parse_humanized'],   # a range given as a string with units (C04-r2-3)
    'C05': ['cooler.create._ingest.aggregate_records', 'cooler.create._ingest.sanitize_records', 'cooler.create._ingest.sanitize_pixels',
            'cooler.create._ingest.TabixAggregator.aggregate', 'cooler.util.get_chromsizes'],
    'C06': ['cooler.create._create.create', 'cooler.create._create.create_cooler', 'cooler._reduce.CoolerMerger.__init__',
            'cooler.create._create.write_pixels'],
    'C07': ['cooler.create._create.create', 'cooler.create._create.write_pixels',
            'cooler.cli.merge.merge', 'cooler.cli._util.parse_field_param'],      # cooler merge --field name:agg=... (C07-r3-2)
    'C08': ['cooler.util.GenomeSegmentation.__init__', 'cooler.util.get_chromsizes',
            'cooler.cli.coarsen.coarsen', 'cooler.cli._util.parse_field_param'],  # cooler coarsen --field
    'C09': ['cooler._reduce.coarsen_cooler', 'cooler._reduce.CoolerCoarsener.__init__', 'cooler._reduce.CoolerCoarsener._aggregate',
            'cooler.fileops._is_cooler'],
    'C10': ['cooler.parallel.split', 'cooler.parallel.chunkgetter.__call__', 'cooler.parallel.apply_pipeline',
            'cooler.parallel.MultiplexDataPipe.pipe', 'cooler.parallel.MultiplexDataPipe.reduce', 'cooler.parallel.MultiplexDataPipe.run',
            'cooler.parallel.MultiplexDataPipe.prepare', 'cooler.parallel.MultiplexDataPipe.__copy__',
            'cooler.util.bedslice'],      # the CLI turns --blacklist regions into bin ids with it (masked bins of C10)
    'C11': ['cooler._balance._balance_genomewide', 'cooler._balance._balance_transonly', 'cooler.cli.balance.balance'],
    'C12': ['cooler.api.Cooler.pixels', 'cooler.api.bins'],
    'C13': ['cooler.create._create.write_pixels', 'cooler.create._ingest._validate_pixels', 'cooler.create._ingest.validate_pixels',
            'cooler.create._create.create_from_unordered', 'cooler.create._create.create_cooler'],
    'C14': ['cooler.core._tableops.get', 'cooler.api.Cooler.bins', 'cooler.api.Cooler.pixels', 'cooler.api.Cooler.chroms'],
    'C15': ['cooler.fileops._is_cooler', 'cooler.fileops.is_multires_file', 'cooler.fileops.is_scool_file'],
    'C16': ['cooler.cli._util.parse_field_param', 'cooler.cli._util.parse_bins', 'cooler.cli._util.parse_kv_list_param'],
    'C17': ['cooler.create._create.create_cooler'],
    'C18': ['cooler.api.Cooler.extent', 'cooler.api.Cooler.offset', 'cooler.api.Cooler.bins'],
    'C19': [],
    'C20': [],
}

# compared for the property, but not a starting point of its reach (what they call is not the property's business)
ATTACH_ONLY = {
    # COO / BG2 text records reach create() through this stage; its options decide whether the stored matrix is the one
    # given (a square matrix must not be reflected into the upper triangle: C01-r4-3)
    'C01': ['cooler.create._ingest.sanitize_pixels', 'cooler.create._ingest._sanitize_pixels'],
    # where the inferred bin size is published (bin-type / bin-size attributes) and read back (C20-r4-3)
    'C20': ['cooler.create._create.create', 'cooler.api.Cooler.binsize'],
    # the sibling loaders of the tabix loader (same interface, same bin-assignment rule; section 1, agreement clauses)
    'C05': ['cooler.create._ingest.HDF5Aggregator.__init__', 'cooler.create._ingest.HDF5Aggregator.__iter__',
            'cooler.create._ingest.HDF5Aggregator._index_chroms', 'cooler.create._ingest.HDF5Aggregator._load_chunk',
            'cooler.create._ingest.HDF5Aggregator.aggregate', 'cooler.create._ingest.PairixAggregator.__iter__',
            'cooler.create._ingest.PairixAggregator.aggregate', 'cooler.create._ingest.TabixAggregator.__init__'],
}


# functions that carry a recorded finding (or are decided by structural rules that accept
# alternative implementations) are compared / decided only in their home property module
EXCLUDE_AUTO = {
    'cooler.create._ingest._sanitize_records',      # F4, home C05
    'cooler._balance._marginalize',                 # F16, home C10
    'cooler.util.get_binsize',                      # structural rule (alternative implementations accepted)
    'cooler.core._selectors._IndexingMixin._process_slice',   # F13, case analysis
    'cooler._reduce.preferred_sequence',
}


def _callees(ctx, qual):
    """Package-local functions / classes referenced by the body of ``qual`` (as callee or as value)."""
    from .. import terms as T
    out = set()
    try:
        fa = ctx.fa(qual)
    except Exception:
        return out
    repo = ctx.repo
    def terms_of(v):
        if T.is_term(v):
            yield from T.walk(v)
        elif isinstance(v, tuple):
            for y in v:
                yield from terms_of(y)
    for e in fa.events:
        for v in e.d.values():
            if not isinstance(v, tuple):
                continue
            for x in terms_of(v):
                if x[0] == 'g' and x[1].startswith('cooler.'):
                    q = repo.resolve(x[1])
                    if q in repo.funcs:
                        out.add(q)
                    elif q in repo.classes:
                        # constructing an object runs its constructor; which methods are called on it later is not
                        # known here (the wide scoping took all of them: every user of Cooler pulled in all of Cooler)
                        for name, m in repo.class_methods(q).items():
                            if _WIDE[0] or name in ('__init__', '__call__', '__iter__'):
                                out.add(m.qualname)
                elif x[0] == 'fn' and x[1] in repo.funcs:
                    out.add(x[1])
                elif x[0] == 'attr' and x[1] == ('v', 'self') and fa.fi.cls is not None:
                    q = fa.fi.cls + '.' + x[2]
                    if q in repo.funcs:
                        out.add(q)
    return out


_REACH_CACHE = {}
_WIDE = [False]
_SYN_CACHE = {}
_PLUMBING = {}


def _syntactic_graph(repo):
    """caller -> set(callee) over the whole package, from names resolved through the module's imports
    (no evaluation): used for the reverse direction (who passes options INTO the anchored code)."""
    import ast
    if repo.root in _SYN_CACHE:
        return _SYN_CACHE[repo.root]
    g = {}
    for fi in repo.all_functions():
        out = set()
        m = fi.module
        for n in ast.walk(fi.node):
            q = None
            if isinstance(n, ast.Name) and isinstance(n.ctx, ast.Load):
                t = repo.global_term(m, n.id)
                q = repo.resolve(t[1]) if t[0] == 'g' else None
            elif isinstance(n, ast.Attribute) and isinstance(n.value, ast.Name):
                if n.value.id == 'self' and fi.cls is not None:
                    q = fi.cls + '.' + n.attr
                else:
                    t = repo.global_term(m, n.value.id)
                    q = repo.resolve(t[1] + '.' + n.attr) if t[0] == 'g' else None
            if q is None:
                continue
            if q in repo.funcs:
                out.add(q)
            elif q in repo.classes:
                out.update(x.qualname for x in repo.class_methods(q).values())
        g[fi.qualname] = out
    _SYN_CACHE[repo.root] = g
    return g


_MECH = None


def mechanism_functions(prop):
    """The functions a property's anchors name as its mechanisms (properties.jsonl gives them as line ranges of the
    pinned commit; resolved once to qualified names and frozen in cverif/data/mechanism_functions.json)."""
    global _MECH
    if _MECH is None:
        import json
        import os
        with open(os.path.join(os.path.dirname(os.path.dirname(os.path.abspath(__file__))), 'data', 'mechanism_functions.json')) as fh:
            _MECH = json.load(fh)
    return list(_MECH.get(prop, []))


def _auto(ctx, prop, lib):
    """Scope of a property: the library functions among its mechanism functions (the functions its anchors name),
    what those call (depth <= 2 in the call / reference graph), and - in plumbing mode - their direct callers.
    (VERIF_SCOPE=files restores the first, much wider scoping by anchored *files*, depth 3 down and 2 up, which made
    nearly every property compare half of the package: a behaviour-preserving rewrite of zoomify_cooler was reported
    by the region-string property.)"""
    import os
    from ..sweeps import anchor_files
    files = set(anchor_files(prop))
    wide = os.environ.get('VERIF_SCOPE') == 'files'
    _WIDE[0] = wide
    key = (ctx.repo.root, prop, wide)
    if key not in _REACH_CACHE:
        if wide:
            seeds = [fi.qualname for fi in ctx.repo.all_functions()
                     if os.path.relpath(fi.file, ctx.repo.root) in files]
        else:
            seeds = []
            for q in mechanism_functions(prop) + list(ATTACH.get(prop, [])):
                if ctx.repo.has_func(q):
                    seeds.append(ctx.repo.func(q).qualname)
                    # nested functions of a mechanism function belong to it
                    seeds.extend(k for k in ctx.repo.funcs if k.startswith(ctx.repo.func(q).qualname + '.<locals>.'))
        seen = set(seeds)
        frontier = list(seeds)
        for depth in range(3 if wide else 2):
            nxt = []
            for q in frontier:
                # only expand through functions of the anchored files or library functions
                for c in _callees(ctx, q):
                    if c not in seen:
                        seen.add(c)
                        nxt.append(c)
            frontier = [q for q in nxt if q in lib or os.path.relpath(ctx.repo.func(q).file, ctx.repo.root) in files]
        # reverse direction: functions (anywhere in the package) that call the mechanism functions - the
        # plumbing that hands options to them
        g = _syntactic_graph(ctx.repo)
        anchored = set(seeds)
        up = set()
        frontier = set(anchored)
        for depth in range(2 if wide else 1):
            nxt = {f for f, cs in g.items() if cs & frontier and f not in anchored and f not in up}
            # a caller without a reference model (a wrapper somebody put in between: `self._parse_region(r)` for
            # `parse_region(r, self._chromsizes)`) is transparent: its own callers are the plumbing
            through = {f for f in nxt if f not in lib}
            for _ in range(3):
                more = {f for f, cs in g.items() if cs & through and f not in anchored and f not in up and f not in nxt}
                if not more:
                    break
                nxt |= more
                through = {f for f in more if f not in lib}
            up |= nxt
            frontier = nxt
        classes = {cq for cq, (node, m) in ctx.repo.classes.items() if os.path.relpath(m.path, ctx.repo.root) in files}
        # helpers of the plumbing: library functions that a plumbing function calls directly to compute what it
        # hands to the anchored code - restricted to the CLI option parsers of cli/_util.py (parse_field_param,
        # parse_bins, ...), compared in full
        helpers = set()
        for f in up:
            for c in g.get(f, ()):
                if wide and c in lib and c not in seen and c not in up and c.startswith('cooler.cli._util.'):
                    helpers.add(c)
        seen = seen | helpers
        _REACH_CACHE[key] = (seen | up, up - seen, (anchored | classes | up) if wide else (seen | classes | up))
    reach, up_only, targets = _REACH_CACHE[key]
    _PLUMBING[(ctx.repo.root, prop)] = (up_only, targets)
    out = []
    for qual in lib:
        if qual in EXCLUDE_AUTO or not ctx.repo.has_func(qual):
            continue
        q = ctx.repo.func(qual).qualname
        rel = os.path.relpath(ctx.repo.func(qual).file, ctx.repo.root)
        if (wide and rel in files) or q in reach:
            out.append(qual)
    return out


def run_for(ctx, prop):
    """Compare the attached functions of ``prop`` that were not compared yet in this run."""
    lib = dict(LIB)
    lib.update(_mods())
    from . import refs_misc
    for q, r in refs_misc.REFS.items():
        lib.setdefault(q, dict(module=r['module'], src=r['src'], why=r['why'], nested=()))
    n = 0
    quals = list(ATTACH.get(prop, [])) + list(ATTACH_ONLY.get(prop, []))
    for q in _auto(ctx, prop, lib):
        if q not in quals:
            quals.append(q)
    explicit = set(ATTACH.get(prop, [])) | set(ATTACH_ONLY.get(prop, []))
    up_only, targets = _PLUMBING.get((ctx.repo.root, prop), (set(), set()))
    for qual in quals:
        r = lib[qual]
        short = qual.replace('cooler.', '')
        rule = f'REF.{short}'
        # a function that is attached only because it calls INTO the anchored code is compared as
        # plumbing: which of those functions it calls, with which arguments, under which conditions
        if qual not in explicit and ctx.repo.func(qual).qualname in up_only:
            fa = ctx.fa(qual)
            # ... unless the whole function still agrees with its reference (with helpers evaluated in place): then its
            # calls into the anchored code are equivalent too, however they are spelled (a copy of a block replaced by a
            # call of the function it duplicates adds a call site without changing anything)
            if not r['nested']:
                mark = len(ctx.obligations)
                try:
                    compare(ctx, f'PLUMB.{short}', fa, r['src'], module=r['module'], normalize=r.get('normalize'),
                            why='plumbing function agrees with its reference model as a whole (' + r['why'] + ')',
                            ignore=r.get('ignore'), drop_guards=r.get('drop_guards') or ())
                    whole_ok = all(ob['status'] == 'discharged' for ob in ctx.obligations[mark:])
                except Exception:
                    whole_ok = False
                if whole_ok:
                    n += 1
                    continue
                del ctx.obligations[mark:]
            compare(ctx, f'PLUMB.{short}', fa, r['src'], module=r['module'], callsites=targets,
                    why='calls into the code this property is anchored in: callee, arguments and conditions (' + r['why'] + ')',
                    drop_guards=r.get('drop_guards') or ())
            n += 1
            continue
        # skip when the property module already compared this very function with this reference
        already = [ob for ob in ctx.obligations if ob['where'].endswith(' ' + qual) and
                   (ob['instance'].split('#')[0] in ('raise', 'return', 'yield', 'yield_from', 'store_sub', 'store_attr', 'aug_sub',
                                                     'aug_attr', 'del', 'call', 'break', 'continue', 'changed-effect', 'missing-effect',
                                                     'extra-effect', 'store_global'))]
        if already:
            continue
        fa = ctx.fa(qual)
        # accepted alternative skeletons (a reference without nested helpers for a function that no longer has any)
        if r.get('alts') and not fa.nested:
            accepted = False
            for alt in r['alts']:
                mark = len(ctx.obligations)
                compare(ctx, rule, fa, alt, module=r['module'], why=r['why'] + ' [alternative skeleton]', normalize=r.get('normalize'))
                if all(ob['status'] == 'discharged' for ob in ctx.obligations[mark:]):
                    accepted = True
                    break
                del ctx.obligations[mark:]
            if accepted:
                n += 1
                continue
        if r['nested']:
            ref = analyze_source(ctx.repo, r['module'], r['src'])
            compare(ctx, rule, fa, None, ref_fa=ref, why=r['why'], normalize=r.get('normalize'))
            ren = sibling_renames(fa, ref, ctx)
            from ..refcompare import nested_pairs
            paired = {rn: an for an, aq, rn, rq in nested_pairs(ctx, fa, ref)}
            for an0, rn in r['nested']:
                an = paired.get(rn, an0)
                if an not in fa.nested or rn not in ref.nested_analyses:
                    ctx.bad(rule, f'nested:{an0}', ctx.where(fa), found=sorted(fa.nested), expected=f'nested function {an0}',
                            key=f'{rule}|nested-missing|{an0}')
                    continue
                compare(ctx, f'{rule}.{rn}', ctx.fa(fa.nested[an]), None, ref_fa=ref.nested_analyses[rn], why=r['why'], extra_rename=ren)
        else:
            compare(ctx, rule, fa, r['src'], module=r['module'], why=r['why'], normalize=r.get('normalize'),
                    ignore=r.get('ignore'), drop_guards=r.get('drop_guards') or ())
        n += 1
    return n


# -- more CLI references (C05 / C09 / C16 anchors) -------------------------------------------------------

_reg('cooler.cli.cload.tabix', 'cooler.cli.cload',
     'tabix loader: one-based unless --zero-based, field numbers - 1, ordered creation, ordered pool map', '''
def ref(bins, pairs_path, cool_path, metadata, assembly, nproc, zero_based, max_split, **kwargs):
    logger = get_logger(__name__)
    chromsizes, bins = parse_bins(bins)
    if metadata is not None:
        with open(metadata) as f:
            metadata = json.load(f)
    try:
        map_func = map
        if nproc > 1:
            pool = Pool(nproc)
            map_func = pool.imap
        opts = {}
        if "chrom2" in kwargs:
            opts["C2"] = kwargs["chrom2"] - 1
        if "pos2" in kwargs:
            opts["P2"] = kwargs["pos2"] - 1
        iterator = TabixAggregator(pairs_path, chromsizes, bins, map=map_func, is_one_based=(not zero_based),
                                   n_chunks=max_split, **opts)
        create_cooler(cool_path, bins, iterator, metadata=metadata, assembly=assembly, ordered=True)
    finally:
        if nproc > 1:
            pool.close()
''')

_reg('cooler.cli.cload.pairix', 'cooler.cli.cload',
     'pairix loader: one-based unless --zero-based, ordered creation, ordered pool map', '''
def ref(bins, pairs_path, cool_path, metadata, assembly, nproc, zero_based, max_split, block_char):
    logger = get_logger(__name__)
    chromsizes, bins = parse_bins(bins)
    if metadata is not None:
        with open(metadata) as f:
            metadata = json.load(f)
    try:
        map_func = map
        if nproc > 1:
            pool = Pool(nproc)
            map_func = pool.imap
        iterator = PairixAggregator(pairs_path, chromsizes, bins, map=map_func, is_one_based=(not zero_based),
                                    n_chunks=max_split, block_char=block_char)
        create_cooler(cool_path, bins, iterator, metadata=metadata, assembly=assembly, ordered=True)
    finally:
        if nproc > 1:
            pool.close()
''')

_reg('cooler.cli.cload.get_header', 'cooler.cli.cload',
     'leading lines that start with the comment character are consumed as header; the stream is left at the first data line', '''
def ref(instream, comment_char="#"):
    header = []
    if not comment_char:
        raise ValueError("no comment char")
    comment_byte = comment_char.encode()
    read_f, peek_f = None, None
    if hasattr(instream, "buffer"):
        peek_f = instream.buffer.peek
        readline_f = instream.buffer.readline
    elif hasattr(instream, "peek"):
        peek_f = instream.peek
        readline_f = instream.readline
    else:
        raise ValueError("no peek")
    current_peek = peek_f(1)
    while current_peek.startswith(comment_byte):
        line = readline_f()
        if isinstance(line, bytes):
            line = line.decode()
        header.append(line.strip())
        current_peek = peek_f(1)
    return header, instream
''')

_reg('cooler.cli.zoomify.zoomify', 'cooler.cli.zoomify',
     'output path, coarsest resolution from genome length / tile size, resolution-spec expansion, field specs, call of zoomify_cooler '
     'with all base URIs, optional balancing of every level', '''
def ref(cool_uri, nproc, chunksize, resolutions, balance, balance_args, field, legacy, base_uri, out):
    logger = get_logger(__name__)
    infile, _ = parse_cooler_uri(cool_uri)
    if out is None:
        outfile = infile.replace(".cool", ".mcool")
    else:
        outfile, _ = parse_cooler_uri(out)
    if legacy:
        n_zooms, zoom_levels = legacy_zoomify(cool_uri, outfile, nproc, chunksize, lock=lock)
        if balance:
            from .balance import balance as balance_cmd
            if balance_args is None:
                balance_args = []
            else:
                balance_args = shlex.split(balance_args)
            for level, res in reversed(list(zoom_levels.items())):
                uri = outfile + "::" + str(level)
                if level == str(n_zooms):
                    if "weight" in api.Cooler(uri).bins():
                        continue
                try:
                    balance_cmd.main(args=[uri, *balance_args], prog_name="cooler")
                except SystemExit as e:
                    exit_code = e.code
                    if exit_code is None:
                        exit_code = 0
                    if exit_code != 0:
                        raise e
    else:
        clr = api.Cooler(cool_uri)
        genome_length = clr.chromsizes.values.sum()
        if clr.binsize:
            maxres = int(ceil(genome_length / HIGLASS_TILE_DIM))
            curres = clr.binsize
        else:
            bins = clr.bins()[["start", "end"]][:]
            mean_fragsize = (bins["end"] - bins["start"]).mean()
            maxres = int(ceil(genome_length / mean_fragsize / HIGLASS_TILE_DIM))
            curres = 1
        if resolutions is None:
            resolutions = "b"
        resolutions, rstring = [], resolutions
        for res in [s.strip().lower() for s in rstring.split(",")]:
            if ("n" in res or "b" in res) and maxres < curres:
                warnings.warn("already small", stacklevel=1)
            if res == "n":
                r = preferred_sequence(curres, maxres, "nice")
            elif res == "b":
                r = preferred_sequence(curres, maxres, "binary")
            elif res == "4dn":
                r = [1000, 2000, *preferred_sequence(5000, maxres, "nice")]
            elif res.endswith("n"):
                res = int(res.split("n")[0])
                r = preferred_sequence(res, maxres, "nice")
            elif res.endswith("b"):
                res = int(res.split("b")[0])
                r = preferred_sequence(res, maxres, "binary")
            else:
                r = [int(res)]
            resolutions.extend(r)
        if len(field):
            field_specifiers = [parse_field_param(arg, includes_colnum=False) for arg in field]
            columns, _, dtypes, agg = zip(*field_specifiers)
            columns = list(columns)
            dtypes = {col: dt for col, dt in zip(columns, dtypes) if dt is not None}
            agg = {col: f for col, f in zip(columns, agg) if f is not None}
        else:
            columns, dtypes, agg = ["count"], None, None
        zoomify_cooler([cool_uri, *list(base_uri)], outfile, resolutions, chunksize, nproc=nproc, lock=lock,
                       columns=columns, dtypes=dtypes, agg=agg)
        if balance:
            invoke_balance(balance_args, resolutions, outfile)
''')

_reg('cooler.create._create._set_h5opts', 'cooler.create._create',
     'HDF5 filter options: unknown keys refused; gzip level 6 and shuffle by default', '''
def ref(h5opts):
    result = {}
    if h5opts is not None:
        result.update(h5opts)
    available_opts = {"chunks", "maxshape", "compression", "compression_opts", "scaleoffset", "shuffle", "fletcher32",
                      "fillvalue", "track_times"}
    for key in result.keys():
        if key not in available_opts:
            raise ValueError("unknown storage option")
    result.setdefault("compression", "gzip")
    if result["compression"] == "gzip" and "compression_opts" not in result:
        result["compression_opts"] = 6
    result.setdefault("shuffle", True)
    return result
''')


# -- remaining supporting functions ---------------------------------------------------------------------------

_reg('cooler.core._selectors._IndexingMixin._isintlike', 'cooler.core._selectors', 'a key is a scalar iff int() accepts it', '''
def ref(self, num):
    try:
        int(num)
    except (TypeError, ValueError):
        return False
    return True
''')
_reg('cooler.core._selectors.RangeSelector2D.shape', 'cooler.core._selectors', 'matrix shape', '''
def ref(self):
    return self._shape
''')
_reg('cooler.core._selectors.RangeSelector2D.__len__', 'cooler.core._selectors', 'number of rows', '''
def ref(self):
    return self._shape[0]
''')

_reg('cooler.create._ingest.TabixAggregator.__init__', 'cooler.create._ingest',
     'loader state: one-based flag as bool; default columns of the second anchor are 3 and 4 (zero-based); contigs of the file', '''
def ref(self, filepath, chromsizes, bins, map=map, n_chunks=1, is_one_based=False, **kwargs):
    try:
        import pysam
    except ImportError:
        raise ImportError("pysam required") from None
    import pickle
    import dill
    dill.settings["protocol"] = pickle.HIGHEST_PROTOCOL
    self._map = map
    self.n_chunks = n_chunks
    self.is_one_based = bool(is_one_based)
    self.C2 = kwargs.pop("C2", 3)
    self.P2 = kwargs.pop("P2", 4)
    self.gs = GenomeSegmentation(chromsizes, bins)
    self.filepath = filepath
    self.n_records = None
    with pysam.TabixFile(filepath, "r", encoding="ascii") as f:
        try:
            self.file_contigs = [c.decode("ascii") for c in f.contigs]
        except AttributeError:
            self.file_contigs = f.contigs
        if not len(self.file_contigs):
            raise RuntimeError("no reference sequences")
    for chrom in self.gs.contigs:
        if chrom not in self.file_contigs:
            warnings.warn("missing contig", stacklevel=2)
    warnings.warn("note", stacklevel=2)
''')

_reg('cooler.create._ingest.HDF5Aggregator.__init__', 'cooler.create._ingest', 'loader state and chromosome extents', '''
def ref(self, h5pairs, chromsizes, bins, chunksize, **kwargs):
    self.h5 = h5pairs
    self.C1 = kwargs.pop("C1", "chrms1")
    self.P1 = kwargs.pop("P1", "cuts1")
    self.C2 = kwargs.pop("C2", "chrms2")
    self.P2 = kwargs.pop("P2", "cuts2")
    self.gs = GenomeSegmentation(chromsizes, bins)
    self.chunksize = chunksize
    self.partition = self._index_chroms()
''')

_reg('cooler.create._ingest.HDF5Aggregator._load_chunk', 'cooler.create._ingest', 'the four columns of rows [lo, hi)', '''
def ref(self, lo, hi):
    data = OrderedDict([("chrom_id1", self.h5[self.C1][lo:hi]), ("cut1", self.h5[self.P1][lo:hi]),
                        ("chrom_id2", self.h5[self.C2][lo:hi]), ("cut2", self.h5[self.P2][lo:hi])])
    return pd.DataFrame(data)
''')

_reg('cooler.create._ingest.HDF5Aggregator.aggregate', 'cooler.create._ingest',
     'chunks never split a row bin; lower-triangle pairs refused; each side binned by its own chromosome and position; counts per pixel', '''
def ref(self, chrom):
    h5pairs = self.h5
    C1, P1, C2, P2 = self.C1, self.P1, self.C2, self.P2
    chunksize = self.chunksize
    gs = self.gs
    cid = gs.idmap[chrom]
    chrom_lo, chrom_hi = self.partition.get(cid, (-1, -1))
    lo = chrom_lo
    hi = lo
    while hi < chrom_hi:
        lo, hi = hi, min(hi + chunksize, chrom_hi)
        abspos = gs.chrom_abspos[cid] + h5pairs[P1][hi - 1]
        bin_id = int(np.searchsorted(gs.start_abspos, abspos, side="right")) - 1
        bin_end = gs.bins["end"][bin_id]
        hi = bisect_left(h5pairs[P1], bin_end, lo, chrom_hi)
        if lo == hi:
            hi = chrom_hi
        table = self._load_chunk(lo, hi)
        abspos1 = gs.chrom_abspos[h5pairs[C1][lo:hi]] + h5pairs[P1][lo:hi]
        abspos2 = gs.chrom_abspos[h5pairs[C2][lo:hi]] + h5pairs[P2][lo:hi]
        if np.any(abspos1 > abspos2):
            raise ValueError("lower triangle")
        if gs.binsize is None:
            table["bin1_id"] = np.searchsorted(gs.start_abspos, abspos1, side="right") - 1
            table["bin2_id"] = np.searchsorted(gs.start_abspos, abspos2, side="right") - 1
        else:
            rel_bin1 = table["cut1"] // gs.binsize
            rel_bin2 = table["cut2"] // gs.binsize
            table["bin1_id"] = gs.chrom_binoffset[table["chrom_id1"].values] + rel_bin1
            table["bin2_id"] = gs.chrom_binoffset[table["chrom_id2"].values] + rel_bin2
        gby = table.groupby(["bin1_id", "bin2_id"])
        agg = gby["chrom_id1"].count().reset_index().rename(columns={"chrom_id1": "count"})
        yield agg
''')

_reg('cooler.create._ingest.PairixAggregator.aggregate', 'cooler.create._ingest',
     'per row bin and per remaining chromosome: 2-D query in the orientation the block is stored; the second anchor (minus one when '
     'one-based) binned on its own chromosome; counts per (bin1, bin2); accumulator cleared per row', '''
def ref(self, grange):
    chrom1, start, end = grange
    import pypairix
    gs = self.gs
    decr = int(self.is_one_based)
    f = pypairix.open(self.filepath, "r")
    these_bins = gs.fetch((chrom1, start, end))
    remaining = gs.idmap[chrom1:]
    acc = Counter()
    rows = []
    for bin1_id, bin1 in these_bins.iterrows():
        for chrom2, cid2 in remaining.items():
            size2 = gs.chromsizes[chrom2]
            if chrom1 != chrom2 and f.exists2(chrom2, chrom1):
                it = f.query2D(chrom2, 0, size2, chrom1, bin1.start, bin1.end)
                col = self.P1
            else:
                it = f.query2D(chrom1, bin1.start, bin1.end, chrom2, 0, size2)
                col = self.P2
            for line in it:
                pos2 = int(line[col]) - decr
                if gs.binsize is None:
                    lo = gs.chrom_binoffset[cid2]
                    hi = gs.chrom_binoffset[cid2 + 1]
                    bin2_id = lo + np.searchsorted(gs.start_abspos[lo:hi], gs.chrom_abspos[cid2] + pos2, side="right") - 1
                else:
                    bin2_id = gs.chrom_binoffset[cid2] + (pos2 // gs.binsize)
                acc[bin2_id] += 1
        if not acc:
            continue
        rows.append(pd.DataFrame({"bin1_id": bin1_id, "bin2_id": list(acc.keys()), "count": list(acc.values())},
                                 columns=["bin1_id", "bin2_id", "count"]).sort_values("bin2_id"))
        acc.clear()
    return pd.concat(rows, axis=0) if len(rows) else None
''')

_reg('cooler.util.closing_hdf5.__exit__', 'cooler.util', 'leaving the context closes the file', '''
def ref(self, *exc_info):
    return self.file.close()
''')
_reg('cooler.util.closing_hdf5.close', 'cooler.util', 'close closes the file', '''
def ref(self):
    self.file.close()
''')
_reg('cooler.util.closing_hdf5.__enter__', 'cooler.util', 'the group itself', '''
def ref(self):
    return self
''')
_reg('cooler.util.asarray_or_dataset', 'cooler.util', 'datasets pass through, everything else becomes an array', '''
def ref(x):
    return x if isinstance(x, h5py.Dataset) else np.asarray(x)
''')
_reg('cooler.util.natsorted', 'cooler.util', 'natural sort', '''
def ref(iterable):
    return sorted(iterable, key=natsort_key)
''')
_reg('cooler.util.argnatsort', 'cooler.util', 'natural argsort', '''
def ref(array):
    array = np.asarray(array)
    if not len(array):
        return np.array([], dtype=int)
    cols = tuple(zip(*(natsort_key(x) for x in array)))
    return np.lexsort(cols[::-1])
''')
_reg('cooler.util.get_meta', 'cooler.util',
     'empty header frame: the given dtypes by column name, the default dtype for every other column, columns in the given order', '''
def ref(columns, dtype=None, index_columns=None, index_names=None, default_dtype=np.object_):
    columns = list(columns)
    if not isinstance(dtype, dict):
        dtype = defaultdict(lambda: dtype or default_dtype)
    else:
        _dtype = dtype.copy()
        dtype = defaultdict(lambda: default_dtype)
        for k, v in _dtype.items():
            col = columns[k] if is_integer(k) else k
            dtype[col] = v
    if index_columns is None or index_columns is False:
        index = pd.Index([])
    else:
        data = [pd.Series([], dtype=dtype[name]) for name in index_names]
        if len(data) == 1:
            index = pd.Index(data[0], name=index_names[0])
        else:
            index = pd.MultiIndex.from_arrays(data, names=index_names)
        index_columns.sort()
        for i, n in enumerate(index_columns):
            columns.pop(n - i)
    col_dict = {col_name: pd.Series([], dtype=dtype[col_name]) for col_name in columns}
    return pd.DataFrame(col_dict, columns=columns, index=index)
''')
_reg('cooler.cli._util.DelimitedTuple.convert', 'cooler.cli._util', 'comma separated list -> tuple of converted parts; None passes through', '''
def ref(self, value, param, ctx):
    if value is None:
        return value
    elif isinstance(value, str):
        parts = value.split(",")
    else:
        parts = value
    return tuple(self.type(x, param, ctx) for x in parts)
''')
_reg('cooler.cli._util.parse_kv_list_param', 'cooler.cli._util', 'k1=v1,k2=v2 parsed as a mapping; malformed input refused', '''
def ref(arg, item_sep=",", kv_sep="="):
    from io import StringIO
    import yaml
    if item_sep != ",":
        arg = arg.replace(item_sep, ",")
    arg = "{" + arg.replace(kv_sep, ": ") + "}"
    try:
        result = yaml.safe_load(StringIO(arg))
    except yaml.YAMLError as e:
        raise click.BadParameter("parse error") from e
    return result
''')
_reg('cooler.cli.zoomify.invoke_balance', 'cooler.cli.zoomify',
     'every produced level that has no weight column yet is balanced with the given arguments; a failing balance propagates', '''
def ref(args, resolutions, outfile):
    from .balance import balance as balance_cmd
    logger = get_logger(__name__)
    if args is None:
        args = []
    else:
        args = shlex.split(args)
    for res in resolutions:
        uri = outfile + "::resolutions/" + str(res)
        if "weight" in api.Cooler(uri).bins():
            continue
        try:
            balance_cmd.main(args=[uri, *args], prog_name="cooler")
        except SystemExit as e:
            exit_code = e.code
            if exit_code is None:
                exit_code = 0
            if exit_code != 0:
                raise e
''')
_reg('cooler._reduce.legacy_zoomify', 'cooler._reduce',
     'legacy layout: base copied to level n_zooms, each lower level coarsened by 2 from the level above, bookkeeping attributes', '''
def ref(input_uri, outfile, nproc, chunksize, lock=None):
    infile, ingroup = parse_cooler_uri(input_uri)
    clr = Cooler(infile, ingroup)
    n_zooms = get_quadtree_depth(clr.chromsizes, clr.binsize, HIGLASS_TILE_DIM)
    factor = 2
    zoom_levels = OrderedDict()
    zoomLevel = str(n_zooms)
    binsize = clr.binsize
    with h5py.File(infile, "r") as src, h5py.File(outfile, "w") as dest:
        src.copy(ingroup, dest, str(zoomLevel))
        zoom_levels[zoomLevel] = binsize
    for i in range(n_zooms - 1, -1, -1):
        binsize *= factor
        prevLevel = str(i + 1)
        zoomLevel = str(i)
        coarsen_cooler(outfile + "::" + str(prevLevel), outfile + "::" + str(zoomLevel), factor, chunksize=chunksize,
                       nproc=nproc, lock=lock)
        zoom_levels[zoomLevel] = binsize
    with h5py.File(outfile, "r+") as fw:
        fw.attrs.update({"max-zoom": n_zooms})
        fw.attrs["max-zooms"] = n_zooms
        fw.attrs.update(zoom_levels)
    return n_zooms, zoom_levels
''')
_reg('cooler._reduce.get_quadtree_depth', 'cooler._reduce', 'levels needed to reach one tile', '''
def ref(chromsizes, base_binsize, bins_per_tile):
    tile_length_bp = bins_per_tile * base_binsize
    total_bp = sum(chromsizes)
    n_tiles = math.ceil(total_bp / tile_length_bp)
    n_zoom_levels = int(math.ceil(np.log2(n_tiles)))
    return n_zoom_levels
''')


_reg('cooler.util.bedslice', 'cooler.util',
     'the region is parsed against the chromosome sizes (bounds, unknown names and open ends decided there); rows overlapping [start, end)', '''
def ref(grouped, chromsizes, region):
    chrom, start, end = parse_region(region, chromsizes)
    result = grouped.get_group(chrom)
    if start > 0 or end < chromsizes[chrom]:
        lo = result["end"].values.searchsorted(start, side="right")
        hi = lo + result["start"].values[lo:].searchsorted(end, side="left")
        result = result.iloc[lo:hi]
    return result
''')


# -- query engine: consumers of the task list (C03 / C12 / C14) ----------------------------------------------

_reg('cooler.core._rangequery.BaseRangeQuery2D.__iter__', 'cooler.core._rangequery', 'every task is run once, in order', '''
def ref(self):
    for task in self.tasks:
        yield task[0](*task[1:])
''')
_reg('cooler.core._rangequery.BaseRangeQuery2D.n_chunks', 'cooler.core._rangequery', 'one chunk per task', '''
def ref(self):
    return len(self.tasks)
''')
_reg('cooler.core._rangequery.BaseRangeQuery2D.get_chunk', 'cooler.core._rangequery',
     'chunk i is task i; an index outside [0, number of tasks) is refused', '''
def ref(self, i):
    if not (0 <= i < len(self.tasks)):
        raise IndexError
    task = self.tasks[i]
    return task[0](*task[1:])
''')
_reg('cooler.core._rangequery.BaseRangeQuery2D.to_delayed', 'cooler.core._rangequery', 'one delayed call per task, in order', '''
def ref(self):
    try:
        from dask import delayed
    except ImportError:
        raise ImportError("dask required") from None
    out = []
    for task in self.tasks:
        fetcher_delayed = delayed(task[0])
        out.append(fetcher_delayed(*task[1:]))
    return out
''')
_reg('cooler.core._rangequery.BaseRangeQuery2D.to_sparse_matrix', 'cooler.core._rangequery', 'the window and the field reach the assembler', '''
def ref(self):
    return spmatrix_slice_from_dict(self.get(), *self.bbox, self.field)
''')
_reg('cooler.core._rangequery.BaseRangeQuery2D.to_sparse_array', 'cooler.core._rangequery', 'the window and the field reach the assembler', '''
def ref(self):
    return sparray_slice_from_dict(self.get(), *self.bbox, self.field)
''')
_reg('cooler.core._rangequery.BaseRangeQuery2D.to_array', 'cooler.core._rangequery', 'the window and the field reach the assembler', '''
def ref(self):
    return array_slice_from_dict(self.get(), *self.bbox, self.field)
''')
_reg('cooler.core._rangequery.BaseRangeQuery2D.to_frame', 'cooler.core._rangequery', 'the field reaches the assembler', '''
def ref(self):
    return frame_slice_from_dict(self.get(), self.field)
''')


_reg('cooler.cli.cload.hiclib', 'cooler.cli.cload',
     'hiclib loader: bins parsed from the BINS argument, metadata read from the JSON file, the HDF5 aggregator over the '
     'opened pairs file with the parsed chromosome sizes / bins / chunk size, ordered creation', '''
def ref(bins, pairs_path, cool_path, metadata, assembly, chunksize):
    chromsizes, bins = parse_bins(bins)
    if metadata is not None:
        with open(metadata) as f:
            metadata = json.load(f)
    with h5py.File(pairs_path, "r") as h5pairs:
        iterator = HDF5Aggregator(h5pairs, chromsizes, bins, chunksize)
        create_cooler(cool_path, bins, iterator, metadata=metadata, assembly=assembly, ordered=True)
''')


_reg('cooler.fileops.ls', 'cooler.fileops', 'the group itself and every descendant, as absolute paths, in traversal order', '''
def ref(uri):
    filepath, grouppath = parse_cooler_uri(uri)
    if not h5py.is_hdf5(filepath):
        raise OSError("not an HDF5 file")
    listing = []

    def _check_all(pth, grp):
        listing.append("/" + pth if not pth.startswith("/") else pth)

    with h5py.File(filepath, "r") as f:
        _check_all(grouppath, f)
        visititems(f[grouppath], _check_all)
    return listing
''', nested=[('_check_all', '_check_all')])
