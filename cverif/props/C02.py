"""C02  Every cooler any operation writes is a structurally valid CSR collection.

Decided clauses (DESIGN.md section 4 / C02):
 1 final column length = recorded nnz on every path incl. the zero-chunk path
 2 provenance of the nnz/sum/nbins/nchroms/bin-type/bin-size attributes and of
   the arguments of the two index builders
 3 both indexes are run-length offsets of their column (template, 4 instances)
 4 the chunked run-length encoder carries the last value across blocks
 5 the chunk validator's predicates (shared with C13)
 6 producers emit chunks grouped/sorted by (bin1_id, bin2_id)
 7 writer <-> published schema <-> recogniser agreement
 8 get_binsize considers every bin (shared with C20)
"""
from __future__ import annotations

from .. import terms as T
from ..facts import (C, G, V, arg, bind_call, calls, events, receiver, returns, spec, spec_env,
                     yields)
from ..symeval import mk_elem
from . import common, layout

META = {
    'explanation': (
        'Static decision of structural clauses of C02: length invariant len(column)=nnz on every path '
        '(running-offset append plus a post-loop trim), provenance of the recorded attributes and of the '
        'index builders\' arguments, run-length-offset template of the four index builders, block carry '
        'of the chunked run-length encoder, predicates of the per-chunk validator, grouped+sorted output '
        'of the merge/coarsen producers, and agreement between the HDF5 layout written, the published '
        'schema_v3 and the recognisers. Sortedness of a user-supplied ordered stream across chunks and '
        'the >1e6-row end-to-end run are not decided.'),
    'not_decided': ['sortedness/uniqueness across chunks of a user-supplied ordered stream',
                    'end-to-end run across the 1e6-row block boundary', 'h5py resize semantics'],
}


def run(ctx):
    info = common.write_pixels_append(ctx, 'C02')
    final_length(ctx, info)
    attribute_provenance(ctx)
    for q, col, tot in (
            ('cooler.create._create.index_pixels', 'bin1_id', 'nnz'),
            ('cooler.create._create.index_bins', 'chrom', 'n_bins'),
            ('cooler.create._ingest.SparseBlockLoader.__init__', None, None),
            ('cooler.create._ingest.ArrayBlockLoader.__init__', None, None)):
        common.index_template(ctx, q, col, tot)
    common.rlencode_template(ctx)
    common.validator_predicates(ctx)
    from .C13 import validated_stream
    validated_stream(ctx, ctx.fa('cooler.create._create.create'))
    common.producers_sorted(ctx)
    layout.layout_agreement(ctx)
    common.get_binsize_all_bins(ctx)


def final_length(ctx, info):
    R = 'C02.1-final-length'
    fa = ctx.fa('cooler.create._create.write_pixels')
    if not info:
        ctx.unrec(R, 'append-skeleton', ctx.where(fa), reason='append skeleton not recognised')
        return
    Lout, acc, hi, chunk = info
    after = None
    for r in returns(fa):
        v = r.value
        first = v[1][0] if v[0] == 'tuple' and v[1] else v
        if first[0] == 'after':
            after = first
    # (a) datasets created with length 0
    fp = ctx.fa('cooler.create._create.prepare_pixels')
    shapes = [T.get_kw(e.term, 'shape') for e in calls(fp, method='create_dataset')]
    zero_init = bool(shapes) and all(s == T.tup([C(0)]) for s in shapes)
    # (b) a trim to the final offset after the chunk loop, for every column
    trims = [e for e in calls(fa, method='resize') if Lout.id not in e.loops and after is not None
             and arg(e, 0) == T.tup([after])]
    ok_b = False
    why = 'no resize((nnz,)) after the chunk loop'
    for e in trims:
        rcv = receiver(e)
        col = rcv[2] if rcv[0] == 'sub' else None
        allcols = col is not None and col[0] == 'elem' and col[1] == V('columns')
        # admissible guards: lock handling, or "length differs from nnz"
        bad = []
        for c, p in ((c if p else T.not_(c), True) for c, p in e.guards):
            if T.contains(c, V('lock')):
                continue
            if c[0] == 'cmp' and c[1] in ('!=', '<', '<=') and T.contains(c, after) and \
                    T.contains(c, T.call(G('len'), (rcv,))):
                if c[1] == '!=' and p:
                    continue
                if c[1] in ('<', '<=') and p and c[2] == after:
                    continue
            bad.append((T.show(c), p))
        if allcols and not bad:
            ok_b = True
        else:
            why = f'trim not for every column or conditionally skipped: col={T.show(col) if col else None} guards={bad}'
    ctx.check(zero_init or ok_b, R, 'zero-chunk-path', ctx.where(fa, trims[0] if trims else None),
              found=('datasets created empty' if zero_init else 'post-loop trim of every column' if ok_b else why),
              expected='datasets created with length 0, or resized to the final offset after the chunk loop',
              reason='with a stream of zero chunks the columns keep their preallocated length while nnz is 0',
              key='C02.1-final-length|write_pixels|zero-chunk-columns-not-trimmed')
    if trims:
        # the file/group the trim addresses is the one that was written
        e = trims[0]
        rcv = receiver(e)
        ctx.check(T.contains(rcv, V('grouppath')) and T.contains(rcv, V('filepath')), R, 'trim-target',
                  ctx.where(fa, e), found=rcv, expected='<file filepath>[grouppath][col]')
    # preallocation never exceeds maxshape and maxshape covers all possible pixels
    fc = ctx.fa('cooler.create._create.create')
    for e in calls(fc, 'cooler.create._create.prepare_pixels'):
        b, _, _ = bind_call(ctx.repo, 'cooler.create._create.prepare_pixels', e)
        ms = b.get('max_size')
        nb = b.get('n_bins')
        want = T.ite(V('symmetric_upper'),
                     spec(ctx.repo, 'n * (n - 1) // 2 + n', {'n': nb}),
                     spec(ctx.repo, 'n * n', {'n': nb}))
        ctx.eq(R, 'max-size', ms, want, ctx.where(fc, e),
               'capacity must admit every pixel of the triangle / square (a smaller maxshape makes dense inputs fail)')


def attribute_provenance(ctx):
    R = 'C02.2-attrs'
    fc = ctx.fa('cooler.create._create.create')
    wp = calls(fc, 'cooler.create._create.write_pixels')
    if len(wp) != 1:
        ctx.unrec(R, 'write_pixels-call', ctx.where(fc), found=len(wp), reason='expected exactly one call')
        return
    wpt = wp[0].term
    st = {e.key[1]: e for e in events(fc, 'store_sub') if e.key[0] == 'c' and isinstance(e.key[1], str)
          and e.base[0] == 'call' and e.base[1] == G('$new_dict')}
    wb = calls(fc, 'cooler.create._create.write_bins')
    wc = calls(fc, 'cooler.create._create.write_chroms')
    if not wb or not wc:
        ctx.unrec(R, 'table-writers', ctx.where(fc), reason='write_bins/write_chroms calls not found')
        return
    bins_t = bind_call(ctx.repo, 'cooler.create._create.write_bins', wb[0])[0].get('bins')
    chroms_t = bind_call(ctx.repo, 'cooler.create._create.write_chroms', wc[0])[0].get('chroms')
    binsize = T.call(G('cooler.util.get_binsize'), (bins_t,))
    notnone = T.cmp('is not', binsize, T.NONE)
    want = {
        'nnz': (T.sub(wpt, C(0)), 'recorded nnz = running offset returned by the writer'),
        'sum': (T.sub(wpt, C(1)), 'recorded sum = accumulated total returned by the writer'),
        'nbins': (T.call(G('len'), (bins_t,)), 'recorded bin count = length of the bin table written'),
        'nchroms': (T.call(G('len'), (chroms_t,)), 'recorded chromosome count = length of the chromosome table written'),
        'bin-type': (T.ite(notnone, C('fixed'), C('variable')), 'bin-type is fixed iff a uniform bin size was inferred from the written table'),
        'bin-size': (T.ite(notnone, binsize, C('null')), 'bin-size is the inferred size or "null"'),
    }
    for k, (exp, why) in want.items():
        e = st.get(k)
        ctx.check(e is not None and e.value == exp and not e.cguards,
                  R, f'info[{k}]', ctx.where(fc, e), found=e.value if e else None, expected=exp, reason=why)
    # index builders get the right tables and sizes
    ib = calls(fc, 'cooler.create._create.index_bins')
    ip = calls(fc, 'cooler.create._create.index_pixels')
    if len(ib) != 1 or len(ip) != 1:
        ctx.unrec(R, 'index-calls', ctx.where(fc), reason='expected one index_bins and one index_pixels call')
        return
    b = bind_call(ctx.repo, 'cooler.create._create.index_bins', ib[0])[0]
    h5 = None
    g = b.get('grp')
    if g is not None and g[0] == 'sub' and g[2] == C('bins'):
        h5 = g[1]
    ctx.check(h5 is not None, R, 'index_bins.grp', ctx.where(fc, ib[0]), found=g, expected='<root>["bins"]')
    ctx.eq(R, 'index_bins.n_chroms', b.get('n_chroms'), want['nchroms'][0], ctx.where(fc, ib[0]))
    ctx.eq(R, 'index_bins.n_bins', b.get('n_bins'), want['nbins'][0], ctx.where(fc, ib[0]))
    b2 = bind_call(ctx.repo, 'cooler.create._create.index_pixels', ip[0])[0]
    ctx.eq(R, 'index_pixels.grp', b2.get('grp'), T.sub(h5, C('pixels')) if h5 else None, ctx.where(fc, ip[0]))
    ctx.eq(R, 'index_pixels.n_bins', b2.get('n_bins'), want['nbins'][0], ctx.where(fc, ip[0]))
    ctx.eq(R, 'index_pixels.nnz', b2.get('nnz'), want['nnz'][0], ctx.where(fc, ip[0]),
           'the row-offset index must be closed with the recorded nnz')
    wi = calls(fc, 'cooler.create._create.write_indexes')
    if wi:
        b3 = bind_call(ctx.repo, 'cooler.create._create.write_indexes', wi[0])[0]
        ctx.eq(R, 'write_indexes.chrom_offset', b3.get('chrom_offset'), ib[0].term, ctx.where(fc, wi[0]))
        ctx.eq(R, 'write_indexes.bin1_offset', b3.get('bin1_offset'), ip[0].term, ctx.where(fc, wi[0]))
    # the root the indexes are computed on is the target group of the file written
    if h5 is not None:
        gp = spec(ctx.repo, 'parse_cooler_uri(cool_uri)[1]', {'cool_uri': V('cool_uri')})
        fp = spec(ctx.repo, 'os.path.realpath(parse_cooler_uri(cool_uri)[0])', {'cool_uri': V('cool_uri')},
                  'cooler.create._create')
        ctx.check(h5[0] == 'sub' and h5[2] == gp and T.contains(h5[1], fp), R, 'index-root', ctx.where(fc, ib[0]),
                  found=h5, expected='<file of cool_uri>[<group path of cool_uri>]',
                  reason='indexes and attributes are computed on the collection that was just written')
    # write_indexes stores what it is given under the schema names
    fw = ctx.fa('cooler.create._create.write_indexes')
    for e in calls(fw, method='create_dataset'):
        name = arg(e, 0)
        data = T.get_kw(e.term, 'data')
        ctx.check(name[0] == 'c' and data == V(name[1]), R, f'write_indexes[{T.show(name)}]', ctx.where(fw, e),
                  found=data, expected=f'data = the {T.show(name)} argument')


def _scool_guard(g):
    return False


_run_core = run


def run(ctx):
    _run_core(ctx)
    from . import refs_misc
    refs_misc.run_for(ctx, 'C02')
    from . import reflib
    reflib.run_for(ctx, 'C02')
