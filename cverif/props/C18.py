"""C18  Renaming chromosomes changes names only.

 1 write set of _rename_chroms: deletes / creates only chroms/name and - when
   bins/chrom is an enum - bins/chrom; the new column holds the existing codes
   and an enum new_names[k] -> k in table order
 2 new names = chroms.rename(rename_dict).index (partial maps keep the rest)
 3 rename_chroms refreshes the object after the file is closed; _refresh
   recomputes every cached field that lookups read (cache completeness)
"""
from __future__ import annotations

import ast

from .. import terms as T
from ..facts import (C, G, V, arg, bind_call, calls, events, raises, receiver, returns, spec, spec_env, yields)
from ..refcompare import compare
from . import common

META = {
    'explanation': (
        'Effect-level comparison of _rename_chroms, rename_chroms and Cooler._refresh with reference models '
        'derived from the property; write-set rule (E9) over _rename_chroms (only chroms/name and bins/chrom '
        'are deleted / created); ordering rule (refresh after the with-block that closes the file); cache '
        'completeness: every cached self._* field read by a lookup is assigned in _refresh. h5py enum handling '
        'and equality of queries before and after are not decided.'),
    'not_decided': ['h5py enum handling', 'equality of queries before and after the renaming'],
}

CR = 'cooler.create._create'

REF_RENAME_INNER = '''
def ref(grp, rename_dict, h5opts):
    chroms = get(grp["chroms"]).set_index("name")
    n_chroms = len(chroms)
    new_names = np.array(chroms.rename(rename_dict).index.values, dtype=CHROM_DTYPE)
    del grp["chroms/name"]
    grp["chroms"].create_dataset("name", shape=(n_chroms,), dtype=new_names.dtype, data=new_names, **h5opts)
    bins = get(grp["bins"])
    n_bins = len(bins)
    if isinstance(bins["chrom"].dtype, pd.CategoricalDtype):
        idmap = dict(zip(new_names, range(n_chroms)))
        codes = bins["chrom"].cat.codes
        chrom_dtype = h5py.special_dtype(enum=(CHROMID_DTYPE, idmap))
        del grp["bins/chrom"]
        try:
            grp["bins"].create_dataset("chrom", shape=(n_bins,), dtype=chrom_dtype, data=codes, **h5opts)
        except ValueError:
            chrom_dtype = CHROMID_DTYPE
            grp["bins"].create_dataset("chrom", shape=(n_bins,), dtype=chrom_dtype, data=codes, **h5opts)
'''

REF_RENAME = '''
def ref(clr, rename_dict, h5opts=None):
    h5opts = _set_h5opts(h5opts)
    with clr.open("r+") as f:
        _rename_chroms(f, rename_dict, h5opts)
    clr._refresh()
'''

REF_REFRESH = '''
def ref(self):
    try:
        with open_hdf5(self.store, **self.open_kws) as h5:
            grp = h5[self.root]
            _ct = chroms(grp)
            _ct["name"] = _ct["name"].astype(object)
            self._chromsizes = _ct.set_index("name")["length"]
            self._chromids = dict(zip(_ct["name"], range(len(_ct))))
            self._info = info(grp)
            mode = self._info.get("storage-mode", "symmetric-upper")
            self._is_symm_upper = mode == "symmetric-upper"
    except KeyError:
        err_msg = "x"
        listing = list_coolers(self.store)
        if len(listing):
            err_msg += "y"
        raise KeyError(err_msg) from None
'''


def run(ctx):
    fa = ctx.fa(f'{CR}._rename_chroms')
    compare(ctx, 'C18.rename', fa, REF_RENAME_INNER,
            why='names replaced in table order (partial maps keep the rest); the bin table keeps its codes, only the enum labels change')
    write_set(ctx, fa)
    fr = ctx.fa(f'{CR}.rename_chroms')
    compare(ctx, 'C18.rename_chroms', fr, REF_RENAME, why='file opened r+, renamed, closed, then the object is refreshed')
    refresh_after_close(ctx, fr)
    compare(ctx, 'C18.refresh', ctx.fa('cooler.api.Cooler._refresh'), REF_REFRESH, module='cooler.api',
            ignore=lambda p, gs: p[0] == 'aug' or (p[0] == 'call'),
            why='every cached field is recomputed from the file')
    cache_completeness(ctx)


def write_set(ctx, fa):
    R = 'C18.write-set'
    allowed_del = {C('chroms/name'), C('bins/chrom')}
    for e in events(fa, 'del'):
        ctx.check(e.base == V('grp') and e.key in allowed_del, R, f'del:{T.show(e.key)}', ctx.where(fa, e), found=f'del {T.show(e.base)}[{T.show(e.key)}]',
                  expected='only chroms/name and bins/chrom are deleted',
                  reason='lengths, starts, ends, pixels, indexes and attributes are not in the write set',
                  key=f'{R}|_rename_chroms|del {T.show(e.key)}')
    created = []
    for e in calls(fa, method='create_dataset'):
        tgt = (T.show(receiver(e)), T.show(arg(e, 0)))
        created.append(tgt)
        ok = tgt in (("grp['chroms']", "'name'"), ("grp['bins']", "'chrom'"))
        ctx.check(ok, R, f'create:{tgt[0]}/{tgt[1]}', ctx.where(fa, e), found=tgt, expected="only chroms/name and bins/chrom are created",
                  key=f'{R}|_rename_chroms|create {tgt}')
    other = [e for e in fa.events if e.kind in ('store_sub', 'aug_sub', 'store_attr') and T.contains(e.d.get('base', T.NONE), V('grp'))]
    ctx.check(not other, R, 'no-other-store', ctx.where(fa, other[0] if other else None), found=[f'{e.kind}@{e.line}' for e in other], expected='no other store into the file')
    att = [e for e in calls(fa, method=('update', 'modify')) if 'attrs' in T.show(e.f)]
    ctx.check(not att, R, 'no-attribute-write', ctx.where(fa), found=len(att), expected=0)
    if len(created) < 2:
        ctx.unrec(R, 'sites', ctx.where(fa), found=created, reason='expected the name column and the chrom column to be re-created')


def refresh_after_close(ctx, fr):
    R = 'C18.refresh-after-close'
    rf = calls(fr, method='_refresh')
    rn = calls(fr, f'{CR}._rename_chroms')
    if not rf or not rn:
        ctx.bad(R, 'sites', ctx.where(fr), found=(len(rn), len(rf)), expected='_rename_chroms(...) then clr._refresh()',
                reason='the same object must use the new names immediately', key=f'{R}|rename_chroms|refresh-missing')
        return
    ctx.check(rf[0].idx > rn[0].idx and not rf[0].withs and bool(rn[0].withs), R, 'order', ctx.where(fr, rf[0]),
              found=f'rename inside {len(rn[0].withs)} with-block(s), refresh inside {len(rf[0].withs)}',
              expected='refresh after the with-block that closes the file', reason='the refresh must read the renamed, flushed file')
    ctx.check(receiver(rf[0]) == V('clr'), R, 'same-object', ctx.where(fr, rf[0]), found=receiver(rf[0]), expected='clr')


def cache_completeness(ctx):
    R = 'C18.cache-completeness'
    node, m = ctx.repo.cls('cooler.api.Cooler')
    fresh = ctx.fa('cooler.api.Cooler._refresh')
    assigned = {e.attr for e in events(fresh, 'store_attr') if e.base == V('self')}
    init = ctx.fa('cooler.api.Cooler.__init__')
    init_only = {e.attr for e in events(init, 'store_attr') if e.base == V('self')}
    read = set()
    for n in ast.walk(node):
        if isinstance(n, ast.Attribute) and isinstance(n.value, ast.Name) and n.value.id == 'self' and isinstance(n.ctx, ast.Load) \
                and n.attr.startswith('_') and not n.attr.startswith('__'):
            read.add(n.attr)
    methods = {x.name for x in node.body if isinstance(x, ast.FunctionDef)}
    cached = {a for a in read if a not in methods}
    missing = sorted(cached - assigned)
    ctx.check(not missing, R, 'fields', ctx.where(fresh), found=f'read {sorted(cached)}; refreshed {sorted(assigned)}; missing {missing}',
              expected='every cached self._* field read by a lookup is assigned in _refresh',
              reason='a field that is filled once in __init__ would keep the old names after a renaming',
              key=f'{R}|Cooler._refresh|{",".join(missing)}')
    calls_refresh = calls(init, method='_refresh')
    ctx.check(bool(calls_refresh) and not calls_refresh[-1].cguards, R, 'init-uses-refresh', ctx.where(init), found=len(calls_refresh),
              expected='__init__ fills the cache through _refresh (one code path)')
    for need in ('_chromsizes', '_chromids', '_info', '_is_symm_upper'):
        ctx.check(need in assigned, R, need, ctx.where(fresh), found=sorted(assigned), expected=f'{need} recomputed')


_run_core = run


def run(ctx):
    _run_core(ctx)
    from . import refs_misc
    refs_misc.run_for(ctx, 'C18')
    from . import reflib
    reflib.run_for(ctx, 'C18')
