"""C14  Table selectors and bin annotation return the rows and coordinates asked for.

 1 core._tableops.get: every decode branch slices dset[lo:hi]; rows labelled
   lo..lo+n-1; a single string field gives a Series of that field
 2 RangeSelector1D: a column key returns a selector with the same slicer,
   fetcher and length; a row key is resolved by _process_slice (shared with C03)
 3 Cooler.chroms/bins/pixels pass (lo, hi, fields) in order and the right length
 4 annotate: both halves follow one reference (positional take relative to the
   first index of a partial table; window rule; slicer inclusiveness; index kept)
 5 bins(): integer chromosome ids are converted with chroms/name in table order,
   keeping the row labels
"""
from __future__ import annotations

from .. import terms as T
from ..facts import (C, G, V, arg, bind_call, calls, events, raises, receiver, returns, spec, spec_env, yields)
from ..refcompare import analyze_source, compare
from . import common
from .C03 import slice_resolution
from .C12 import annotate_rules

META = {
    'explanation': (
        'Effect-level comparison (normalised symbolic dataflow) of the table reader, the 1-D selector, the '
        'chroms/bins/pixels table functions and their Cooler wrappers, and annotate with reference models '
        'derived from the property; same-row-range rule over the three decode branches of the reader; slice '
        'resolution by case analysis (shared with C03, including its recorded finding F13). pandas iloc/loc '
        'semantics and categorical decoding are not decided.'),
    'not_decided': ['pandas iloc / loc semantics', 'categorical decoding'],
}

REF_GETITEM = '''
def ref(self, key):
    if isinstance(key, (list, str)):
        return self.__class__(key, self._slice, self._fetch, self._shape[0])
    if isinstance(key, tuple):
        if len(key) == 1:
            key = key[0]
        else:
            raise IndexError("too many indices")
    lo, hi = self._process_slice(key, self._shape[0])
    return self._slice(self.fields, lo, hi)
'''

REF_SEL_INIT = '''
def ref(self, fields, slicer, fetcher, nmax):
    self.fields = fields
    self._slice = slicer
    self._fetch = fetcher
    self._shape = (nmax,)
'''

REF_SEL_FETCH = '''
def ref(self, *args, **kwargs):
    if self._fetch is not None:
        lo, hi = self._fetch(*args, **kwargs)
        return self._slice(self.fields, lo, hi)
    else:
        raise NotImplementedError
'''

REF_CHROMS = '''
def ref(h5, lo=0, hi=None, fields=None, **kwargs):
    if fields is None:
        fields = pd.Index(["name", "length"]).append(pd.Index(h5["chroms"].keys())).drop_duplicates()
    return get(h5["chroms"], lo, hi, fields, **kwargs)
'''

REF_BINS = '''
def ref(h5, lo=0, hi=None, fields=None, **kwargs):
    if fields is None:
        fields = pd.Index(["chrom", "start", "end"]).append(pd.Index(h5["bins"].keys())).drop_duplicates()
    out = get(h5["bins"], lo, hi, fields, **kwargs)
    if fields == "chrom" if isinstance(fields, str) else "chrom" in fields:
        convert_enum = kwargs.get("convert_enum", True)
        if isinstance(fields, str):
            col = out
        else:
            col = out["chrom"]
        if is_integer_dtype(col.dtype) and convert_enum:
            names = chroms(h5, fields="name")
            col = pd.Categorical.from_codes(col, names, ordered=True)
            if isinstance(fields, str):
                out = pd.Series(col, out.index)
            else:
                out["chrom"] = col
    return out
'''

REF_PIXELS = '''
def ref(h5, lo=0, hi=None, fields=None, join=True, **kwargs):
    if fields is None:
        fields = pd.Index(["bin1_id", "bin2_id"]).append(pd.Index(h5["pixels"].keys())).drop_duplicates()
    df = get(h5["pixels"], lo, hi, fields, **kwargs)
    if join:
        bins = get(h5["bins"], 0, None, ["chrom", "start", "end"], **kwargs)
        df = annotate(df, bins, replace=True)
    return df
'''


def run(ctx):
    common.table_get_slices(ctx)
    S = 'cooler.core._selectors.RangeSelector1D'
    compare(ctx, 'C14.selector.__getitem__', ctx.fa(f'{S}.__getitem__'), REF_GETITEM,
            why='a column selection keeps slicer, fetcher and length (never changes which rows come back); a row key goes through slice resolution')
    compare(ctx, 'C14.selector.__init__', ctx.fa(f'{S}.__init__'), REF_SEL_INIT, why='selector state')
    compare(ctx, 'C14.selector.fetch', ctx.fa(f'{S}.fetch'), REF_SEL_FETCH, why='fetch = slice on the fetched extent')
    slice_resolution(ctx)
    compare(ctx, 'C14.chroms', ctx.fa('cooler.api.chroms'), REF_CHROMS, module='cooler.api', why='(lo, hi, fields) reach the table reader in order')
    compare(ctx, 'C14.bins', ctx.fa('cooler.api.bins'), REF_BINS, module='cooler.api',
            why='integer chromosome ids are decoded with chroms/name in table order; row labels of the range are kept')
    compare(ctx, 'C14.pixels', ctx.fa('cooler.api.pixels'), REF_PIXELS, module='cooler.api',
            why='(lo, hi, fields) reach the table reader; join annotates against the whole bin table')
    wrappers(ctx)
    annotate_rules(ctx, 'C14.annotate')


def wrappers(ctx):
    R = 'C14.wrappers'
    for name, n_attr in (('chroms', 'nchroms'), ('bins', 'nbins'), ('pixels', 'nnz')):
        fs = ctx.fa(f'cooler.api.Cooler.{name}.<locals>._slice')
        cs = calls(fs, f'cooler.api.{name}')
        if not cs:
            ctx.bad(R, f'{name}._slice', ctx.where(fs), found='no call', expected=f'api.{name}(grp, lo, hi, fields, ...)', key=f'{R}|{name}|call')
            continue
        b, _, _ = bind_call(ctx.repo, f'cooler.api.{name}', cs[0])
        for p in ('lo', 'hi', 'fields'):
            ctx.eq(R, f'{name}._slice.{p}', b.get(p), V(p), ctx.where(fs, cs[0]), 'row range and column subset forwarded unchanged')
        grp = b.get('h5')
        ctx.check(grp is not None and grp[0] == 'sub' and grp[2] == T.attr(V('self'), 'root'), R, f'{name}._slice.group', ctx.where(fs, cs[0]),
                  found=grp, expected='<opened store>[self.root]')
        r = returns(fs)
        ctx.eq(R, f'{name}._slice.result', r[-1].value if r else None, cs[0].term, ctx.where(fs))
        if name == 'pixels':
            ctx.eq(R, 'pixels._slice.join', b.get('join'), V('join'), ctx.where(fs, cs[0]))
        fo = ctx.fa(f'cooler.api.Cooler.{name}')
        sel = calls(fo, 'cooler.core._selectors.RangeSelector1D')
        want_n = spec(ctx.repo, f'self._info["{n_attr}"]', {'self': V('self')})
        ok = bool(sel) and len(sel[-1].args) == 4 and sel[-1].args[0] == T.NONE and sel[-1].args[3] == want_n \
            and sel[-1].args[1] == ('fn', ctx.repo.func(f'cooler.api.Cooler.{name}.<locals>._slice').qualname)
        ctx.check(ok, R, f'{name}.selector', ctx.where(fo, sel[-1] if sel else None), found=sel[-1].term if sel else None,
                  expected=f'RangeSelector1D(None, _slice, <fetcher>, self._info["{n_attr}"])',
                  reason='negative and open-ended row keys are resolved against the length of this table')


_run_core = run


def run(ctx):
    _run_core(ctx)
    from . import refs_misc
    refs_misc.run_for(ctx, 'C14')
    from . import reflib
    reflib.run_for(ctx, 'C14')
