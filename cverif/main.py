"""Driver: ./check <ID>|all [--tier quick|thorough] [--replay path]"""
from __future__ import annotations

import argparse
import importlib
import os
import sys

from .report import run_property

PROPS = [f'C{i:02d}' for i in range(1, 21)]


def main(argv=None):
    ap = argparse.ArgumentParser(prog='check')
    ap.add_argument('prop')
    ap.add_argument('--tier', default=os.environ.get('VERIF_TIER', 'quick'),
                    choices=['quick', 'thorough'])
    ap.add_argument('--replay', default=None)
    ap.add_argument('-v', '--verbose', action='store_true', help='print every obligation')
    ap.add_argument('--evidence-dir', default=None, help='write evidence/replay files here (self-test)')
    ap.add_argument('--repo', default=None, help='analyse this tree instead of /repo (self-test)')
    args = ap.parse_args(argv)
    if args.verbose:
        os.environ['VERIF_VERBOSE'] = '1'
    if args.evidence_dir:
        os.environ['VERIF_EVIDENCE_DIR'] = args.evidence_dir
    if args.repo:
        os.environ['VERIF_REPO'] = args.repo
    try:
        seed = int(os.environ.get('VERIF_SEED', '0'))
    except ValueError:
        seed = 0
    ids = PROPS if args.prop == 'all' else [args.prop]
    worst = 0
    for pid in ids:
        try:
            mod = importlib.import_module(f'cverif.props.{pid}')
        except ModuleNotFoundError:
            print(f'ANALYSIS-ERROR property={pid}: no check registered')
            worst = max(worst, 2)
            continue
        rc = run_property(pid, mod.run, tier=args.tier, seed=seed, replay=args.replay,
                          meta=getattr(mod, 'META', {}))
        if rc == 1 or (rc == 2 and worst != 1):
            worst = rc if worst != 1 else 1
    return worst


if __name__ == '__main__':
    sys.exit(main())
