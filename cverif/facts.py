"""Query helpers over :class:`symeval.FuncAnalysis` shared by the property rules."""
from __future__ import annotations

import ast

from . import terms as T
from .model import AnalysisError
from .symeval import FuncAnalysis, FuncInfo, mk_elem

G, C, V = T.G, T.C, T.V


# ---------------------------------------------------------------------------
# spec expressions: expected facts written in Python syntax and pushed through
# the *same* evaluator/normaliser as the code under analysis

class _SpecEval(FuncAnalysis):
    def __init__(self, repo, module, env):
        node = ast.parse('def _spec():\n    pass\n').body[0]
        fi = FuncInfo('<spec>', node, repo.module(module))
        self._spec_env = env
        super().__init__(repo, fi)
        self.env = dict(env)
        self._locals = set()


def spec(repo, expr, env=None, module='cooler.util'):
    """Evaluate ``expr`` (Python syntax) to a normalised term.  Names are looked
    up in ``env`` (name -> term), then as globals of ``module``; names starting
    with ``Q_`` become metavariables for :func:`terms.match`."""
    env = dict(env or {})
    tree = ast.parse(expr, mode='eval').body
    for n in ast.walk(tree):
        if isinstance(n, ast.Name) and n.id.startswith('Q_') and n.id not in env:
            env[n.id] = V(n.id)
    se = _SpecEval(repo, module, env)
    return se.ev(tree)


# ---------------------------------------------------------------------------
# events

def calls(fa, name=None, method=None, pred=None):
    """Call events whose callee is the global ``name`` (dotted, resolved) or a
    method called ``method``."""
    out = []
    for e in fa.events:
        if e.kind != 'call' or e.d.get('in_lambda'):
            continue
        f = e.f
        if name is not None:
            names = (name,) if isinstance(name, str) else tuple(name)
            if not (f[0] == 'g' and f[1] in names):
                continue
        if method is not None:
            methods = (method,) if isinstance(method, str) else tuple(method)
            if not (f[0] == 'attr' and f[2] in methods):
                continue
        if pred is not None and not pred(e):
            continue
        out.append(e)
    return out


def receiver(e):
    """Receiver term of a method-call event."""
    return e.f[1] if e.f[0] == 'attr' else None


def arg(e, pos=None, name=None, default=None):
    """Positional-or-keyword argument of a call event (before idiom folding)."""
    args = e.args
    if pos is not None and pos < len(args):
        if not any(a[0] == 'star' for a in args[:pos + 1]):
            return args[pos]
    if name is not None:
        for k in e.kws:
            if k[0] == 'kw' and k[1] == name:
                return k[2]
    return default


def has_dstar(e):
    return [k[1] for k in e.kws if k[0] == 'dstar']


def kwnames(e):
    return [k[1] for k in e.kws if k[0] == 'kw']


def events(fa, kind, pred=None):
    kinds = (kind,) if isinstance(kind, str) else tuple(kind)
    return [e for e in fa.events if e.kind in kinds and (pred is None or pred(e))]


def returns(fa):
    return [e for e in fa.events if e.kind == 'return']


def yields(fa):
    return [e for e in fa.events if e.kind == 'yield']


def raises(fa):
    return [e for e in fa.events if e.kind == 'raise']


def exc_name(e):
    """Exception class name of a raise event."""
    x = e.exc
    if x[0] == 'call':
        x = x[1]
    if x[0] == 'g':
        return x[1].split('.')[-1]
    if x[0] == 'attr':
        return x[2]
    return T.show(x)


def dominates(a, b):
    """Conservative lexical dominance: event a executes before b on every path
    reaching b (same or enclosing guard set / loop nest, not in a handler)."""
    if a.idx >= b.idx:
        return False
    if not set(a.guards) <= set(b.guards):
        return False
    if a.loops != b.loops[:len(a.loops)]:
        return False
    for types, part, tid in a.trys:
        if part == 'handler' and (types, part, tid) not in b.trys:
            return False
    return True


def guarded(e, pred):
    """Guards (cond, polarity) of the event that satisfy pred(cond, polarity)."""
    return [(c, p) for c, p in e.guards if pred(c, p)]


def combined_return(fa):
    """The value a function returns as ONE term: its returns in order, each under the conditions it is
    reached with (whether the function has one exit or several)."""
    acc = T.NONE
    for e in reversed(returns(fa)):
        conds = []
        for c, p in e.cguards:
            t = c if p else T.not_(c)
            conds.extend(t[1] if t[0] == 'and' else [t])
        if not conds:
            acc = e.value
        else:
            acc = T.ite(conds[0] if len(conds) == 1 else T.nary('and', tuple(conds)), e.value, acc)
    return acc


def ite_arms(t):
    """Both arms of a conditional term with the condition under which each is taken
    (independent of the orientation the normaliser chose): [(cond, value), (not cond, value)]."""
    if t is None or t[0] != 'ite':
        return []
    return [(t[1], t[2]), (T.not_(t[1]), t[3])]


def bind_call(repo, callee_qual, e, analyses=None):
    """Map the arguments of call event ``e`` onto the parameters of the
    package-local callee.  Returns (bound: dict name->term, passthrough: list of
    **dict terms, leftover)."""
    fi = repo.func(callee_qual)
    a = fi.node.args
    pos_params = [x.arg for x in list(a.posonlyargs) + list(a.args)]
    if fi.cls is not None and pos_params and pos_params[0] in ('self', 'cls') \
            and not any(isinstance(d, ast.Name) and d.id == 'staticmethod'
                        for d in fi.node.decorator_list):
        pos_params = pos_params[1:]
    kwonly = [x.arg for x in a.kwonlyargs]
    bound = {}
    extra_pos = []
    i = 0
    for t in e.args:
        if t[0] == 'star':
            extra_pos.append(t)
            continue
        if i < len(pos_params):
            bound[pos_params[i]] = t
        else:
            extra_pos.append(t)
        i += 1
    passthrough = []
    extra_kw = {}
    for k in e.kws:
        if k[0] == 'dstar':
            passthrough.append(k[1])
        elif k[1] in pos_params or k[1] in kwonly:
            bound[k[1]] = k[2]
        else:
            extra_kw[k[1]] = k[2]
    return bound, passthrough, (extra_pos, extra_kw)


def param_default(repo, qual, name):
    """AST literal default of a parameter, or raises AnalysisError."""
    fi = repo.func(qual)
    a = fi.node.args
    allargs = list(a.posonlyargs) + list(a.args)
    ndef = len(a.defaults)
    for x, d in zip(allargs[len(allargs) - ndef:], a.defaults):
        if x.arg == name:
            return _lit(d)
    for x, d in zip(a.kwonlyargs, a.kw_defaults):
        if x.arg == name and d is not None:
            return _lit(d)
    raise AnalysisError(f'{qual}: parameter {name} has no default')


def _lit(n):
    try:
        return ast.literal_eval(n)
    except (ValueError, SyntaxError):
        return ast.unparse(n)


def params(repo, qual):
    fi = repo.func(qual)
    a = fi.node.args
    out = [x.arg for x in list(a.posonlyargs) + list(a.args) + list(a.kwonlyargs)]
    return out


def strip_conv(t):
    """Remove value-preserving conversions (int(), np.asarray(), .astype(int),
    .values, .to_numpy(), list()) for comparisons that do not care about them."""
    def f(x):
        if x[0] == 'call' and not x[3] and len(x[2]) == 1 and x[1] in (
                G('int'), G('np.asarray'), G('np.array'), G('list'), G('np.int64')):
            return x[2][0]
        if x[0] == 'call' and x[1][0] == 'attr' and x[1][2] in ('astype', 'to_numpy', 'copy'):
            return x[1][1]
        if x[0] == 'attr' and x[2] == 'values':
            return x[1]
        return None
    return T.transform(t, f)


def loop_of(fa, pred):
    """Loops of fa satisfying pred(LoopInfo)."""
    return [l for l in fa.loops.values() if pred(l)]


def uses(t, sub_t):
    return T.contains(t, sub_t)


def const_str(t):
    return t[1] if t[0] == 'c' and isinstance(t[1], str) else None


def str_consts(t):
    return {x[1] for x in T.walk(t) if x[0] == 'c' and isinstance(x[1], str)}


def spec_env(repo, code, env=None, module='cooler.util'):
    """Run a block of simple statements (assignments) through the evaluator and
    return the resulting environment (name -> term)."""
    import textwrap
    env = dict(env or {})
    tree = ast.parse(textwrap.dedent(code))
    for n in ast.walk(tree):
        if isinstance(n, ast.Name) and n.id.startswith('Q_') and n.id not in env:
            env[n.id] = V(n.id)
    se = _SpecEval(repo, module, env)
    se._locals = set()
    se._block(tree.body)
    out = {k: v for k, v in se.env.items() if isinstance(k, str)}
    out['$events'] = se.events
    return out


def unobj(t):
    """Look through the identity wrapper of a mutable literal."""
    if t[0] == 'call' and t[1] == G('$obj'):
        return t[2][0]
    return t
