"""Package-wide generic rules (thorough tier): ROLE, DEAD, RES.

Each sweep looks at every function of the package but reports only on the files
a property is anchored in (``anchors.files`` of properties.jsonl), so that a
finding is attributed to the properties that depend on that code.
"""
from __future__ import annotations

import ast
import json
import os

from . import terms as T
from .facts import G, V, calls, events, receiver

HERE = os.path.dirname(os.path.dirname(os.path.abspath(__file__)))


def anchor_files(prop):
    with open(os.path.join(HERE, 'properties.jsonl')) as fh:
        for line in fh:
            p = json.loads(line)
            if p['id'] == prop:
                return [f for f in p['anchors']['files'] if f.endswith('.py')]
    return []


def _in_scope(ctx, fi, files):
    rel = os.path.relpath(fi.file, ctx.repo.root)
    return rel in files


def run(ctx, prop):
    files = anchor_files(prop)
    funcs = [fi for fi in ctx.repo.all_functions() if _in_scope(ctx, fi, files)]
    ctx.units['sweep_functions'] = len(funcs)
    role_swaps(ctx, funcs)
    dead_and_unraised(ctx, funcs)
    resources(ctx, funcs)


# ---------------------------------------------------------------------------

def role_swaps(ctx, funcs):
    """ROLE: two positional arguments whose own names are each other's parameter names."""
    R = 'SWEEP.role-swap'
    n_calls = 0
    for fi in funcs:
        m = fi.module
        for node in ast.walk(fi.node):
            if not isinstance(node, ast.Call):
                continue
            target = None
            if isinstance(node.func, ast.Name):
                t = ctx.repo.global_term(m, node.func.id)
                target = t[1] if t[0] == 'g' else None
            elif isinstance(node.func, ast.Attribute) and isinstance(node.func.value, ast.Name) and node.func.value.id == 'self' \
                    and fi.cls is not None:
                target = fi.cls + '.' + node.func.attr
            if target is None or not ctx.repo.has_func(target):
                continue
            callee = ctx.repo.func(target)
            a = callee.node.args
            params = [x.arg for x in list(a.posonlyargs) + list(a.args)]
            if callee.cls is not None and params and params[0] in ('self', 'cls'):
                params = params[1:]
            names = [x.id if isinstance(x, ast.Name) else None for x in node.args]
            if any(isinstance(x, ast.Starred) for x in node.args):
                continue
            n_calls += 1
            swapped = None
            for i in range(min(len(names), len(params))):
                for j in range(i + 1, min(len(names), len(params))):
                    if names[i] and names[j] and names[i] == params[j] and names[j] == params[i] and names[i] != names[j]:
                        swapped = (i, j)
            where = f'{os.path.relpath(fi.file, ctx.repo.root)}:{node.lineno} {fi.qualname}'
            if swapped:
                i, j = swapped
                ctx.bad(R, f'{fi.qualname.split(".")[-1]}->{target.split(".")[-1]}', where,
                        found=f'argument {i + 1} is named {names[i]} and argument {j + 1} is named {names[j]}',
                        expected=f'parameters {i + 1}, {j + 1} of {target} are {params[i]}, {params[j]}',
                        reason='two positional arguments are passed in each other\'s place',
                        key=f'{R}|{fi.qualname}|{target}|{names[i]}<->{names[j]}')
    ctx.ok(R, 'calls-checked', found=f'{n_calls} calls to package-local functions with resolvable signatures', expected='no swapped pair')


def dead_and_unraised(ctx, funcs):
    R = 'SWEEP.dead-branch'
    R2 = 'SWEEP.exception-not-raised'
    n_chain = n_exc = 0
    for fi in funcs:
        for node in ast.walk(fi.node):
            if isinstance(node, ast.If):
                chain = [node]
                cur = node
                while len(cur.orelse) == 1 and isinstance(cur.orelse[0], ast.If):
                    cur = cur.orelse[0]
                    chain.append(cur)
                if len(chain) >= 2:
                    n_chain += 1
                    seen = {}
                    for c in chain:
                        k = ast.dump(c.test)
                        if k in seen:
                            where = f'{os.path.relpath(fi.file, ctx.repo.root)}:{c.lineno} {fi.qualname}'
                            ctx.bad(R, f'{fi.qualname.split(".")[-1]}@{c.lineno}', where, found=f'test repeats line {seen[k].lineno}: {ast.unparse(c.test)}',
                                    expected='distinct tests', reason='the second arm is unreachable',
                                    key=f'{R}|{fi.qualname}|{ast.unparse(c.test)}')
                        seen.setdefault(k, c)
            if isinstance(node, ast.Expr) and isinstance(node.value, ast.Call):
                f = node.value.func
                name = f.id if isinstance(f, ast.Name) else (f.attr if isinstance(f, ast.Attribute) else '')
                if name.endswith(('Error', 'Exception')) and name[:1].isupper():
                    n_exc += 1
                    where = f'{os.path.relpath(fi.file, ctx.repo.root)}:{node.lineno} {fi.qualname}'
                    ctx.note(f'{R2}: {where}: {name}(...) is constructed but not raised (noted; no property depends on it)')
    ctx.ok(R, 'chains-checked', found=f'{n_chain} if/elif chains', expected='no duplicate test')


def resources(ctx, funcs):
    """RES: every h5py.File(...) in the anchored files is a with-item (or is returned wrapped by a
    closing context manager); every lock.acquire() is paired."""
    R = 'SWEEP.h5-with-item'
    n = 0
    allowed = {
        'cooler.api.Cooler.open': 'returns a closing wrapper (by design)',
        'cooler.util.open_hdf5': 'the context manager itself: closes in finally',
    }
    for fi in funcs:
        if fi.parent is not None and False:
            continue
        fa = ctx.fa(fi.qualname)
        for e in calls(fa, 'h5py.File'):
            n += 1
            is_with = any(w == e.term for w in e.withs) or any(x.kind == 'with' and x.cm == e.term and x.idx == e.idx + 1 for x in fa.events)
            ok = is_with or fi.qualname in allowed
            ctx.check(ok, R, f'{fi.qualname.replace("cooler.", "")}@{e.line}', ctx.where(fa, e), found='with-item' if is_with else T.show(e.term)[:80],
                      expected='h5py.File(...) is opened as a with-item', reason=allowed.get(fi.qualname, 'a handle that is not closed on every exit keeps the file locked / unflushed'),
                      key=f'{R}|{fi.qualname}|not-a-with-item')
    ctx.ok(R, 'sites', found=f'{n} h5py.File sites in the anchored files', expected='all with-items')
