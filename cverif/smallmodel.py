"""Small-model abstract interpreter (engine E4) - used by C03 only.

An interpreter *of the checker's own* for the tiny Python fragment in which the
2-D range-query engines decide how to split a window: tuple (un)packing,
``if/elif/else``, comparisons, boolean operators, calls to module-local pure
predicates, list/tuple literals, conditional expressions, ``zip`` over lists,
a one-generator list comprehension, ``raise``.  Nothing of the repository is
imported or run by Python: the interpreter walks the AST that ``ast.parse``
produced from the current source, over the *abstract domain of order types*:

The fragment discipline - the window endpoints and pixel coordinates are only
copied, permuted, compared, and shifted by integer constants, never multiplied,
divided or used as indices - is enforced by construction (any other operation
on them raises :class:`Unsupported`, reported as ANALYSIS-ERROR).  Under that
discipline the code's behaviour depends only on the relative order of the six
integers (difference-bounded by the largest constant shift K), so rank vectors
over a small range are a complete abstract domain: what holds on every rank
vector holds for every window of every matrix of every size.
"""
from __future__ import annotations

import ast


class Unsupported(Exception):
    pass


class Raised(Exception):
    def __init__(self, what, line):
        super().__init__(what)
        self.what = what
        self.line = line


class Sym:
    """Opaque symbolic value (reader object, field name, chunk size ...)."""
    __slots__ = ('name',)

    def __init__(self, name):
        self.name = name

    def __repr__(self):
        return f'<{self.name}>'

    def __eq__(self, other):
        return isinstance(other, Sym) and other.name == self.name

    def __hash__(self):
        return hash(('Sym', self.name))


class Obj:
    """The object under construction (``self``)."""

    def __init__(self):
        self.attrs = {}


class Compose:
    def __init__(self, funcs):
        self.funcs = tuple(funcs)      # applied right to left

    def __repr__(self):
        return 'compose(' + ', '.join(repr(f) for f in self.funcs) + ')'

    def __eq__(self, other):
        return isinstance(other, Compose) and other.funcs == self.funcs

    def __hash__(self):
        return hash(('Compose', self.funcs))


class FuncRef:
    def __init__(self, name, node):
        self.name = name
        self.node = node

    def __repr__(self):
        return f'<fn {self.name}>'

    def __eq__(self, other):
        return isinstance(other, FuncRef) and other.name == self.name

    def __hash__(self):
        return hash(('FuncRef', self.name))


class Interp:
    """Interprets the fragment.  ``funcs``: name -> ast.FunctionDef of module
    level pure functions that may be called; ``externals``: name -> python
    callable implementing a modelled external (compose, get_spans ...)."""

    def __init__(self, funcs, externals=None, max_steps=100000):
        self.funcs = funcs
        self.externals = externals or {}
        self.steps = 0
        self.max_steps = max_steps
        self.trace = []         # (line, taken-branch) for reporting
        self.shifts = set()     # integer constants added to integers

    # -- function call -------------------------------------------------------
    def call_function(self, fnode, args, kwargs):
        a = fnode.args
        names = [x.arg for x in list(a.posonlyargs) + list(a.args)]
        env = {}
        if len(args) > len(names):
            raise Unsupported(f'too many arguments for {fnode.name}')
        for n, v in zip(names, args):
            env[n] = v
        ndef = len(a.defaults)
        for n, d in zip(names[len(names) - ndef:], a.defaults):
            if n not in env:
                env[n] = kwargs.pop(n) if n in kwargs else self.ev(d, {})
        for n in names:
            if n in kwargs:
                if n in env and names.index(n) < len(args):
                    raise Unsupported(f'duplicate argument {n}')
                env[n] = kwargs.pop(n)
        for x, d in zip(a.kwonlyargs, a.kw_defaults):
            if x.arg in kwargs:
                env[x.arg] = kwargs.pop(x.arg)
            elif d is not None:
                env[x.arg] = self.ev(d, {})
        if kwargs:
            raise Unsupported(f'unexpected keyword arguments {sorted(kwargs)} for {fnode.name}')
        missing = [n for n in names if n not in env]
        if missing:
            raise Unsupported(f'missing arguments {missing} for {fnode.name}')
        try:
            self.block(fnode.body, env)
        except _Return as r:
            return r.value
        return None

    # -- statements ----------------------------------------------------------
    def block(self, stmts, env):
        for s in stmts:
            self.steps += 1
            if self.steps > self.max_steps:
                raise Unsupported('step limit')
            self.stmt(s, env)

    def stmt(self, s, env):
        if isinstance(s, ast.Expr):
            if isinstance(s.value, ast.Constant):
                return
            self.ev(s.value, env)
        elif isinstance(s, ast.Assign):
            v = self.ev(s.value, env)
            for t in s.targets:
                self.assign(t, v, env)
        elif isinstance(s, ast.AnnAssign):
            if s.value is not None:
                self.assign(s.target, self.ev(s.value, env), env)
        elif isinstance(s, ast.AugAssign):
            cur = self.ev(_load(s.target), env)
            v = self.ev(s.value, env)
            self.assign(s.target, self.binop(s.op, cur, v), env)
        elif isinstance(s, ast.If):
            c = self.truth(self.ev(s.test, env))
            self.trace.append((s.lineno, c))
            self.block(s.body if c else s.orelse, env)
        elif isinstance(s, ast.For):
            it = self.ev(s.iter, env)
            if not isinstance(it, (list, tuple)):
                raise Unsupported(f'line {s.lineno}: for over non-list {it!r}')
            for x in it:
                self.assign(s.target, x, env)
                self.block(s.body, env)
            self.block(s.orelse, env)
        elif isinstance(s, ast.Assert):
            pass        # assertions are not behaviour (stripped under -O)
        elif isinstance(s, ast.Return):
            raise _Return(self.ev(s.value, env) if s.value is not None else None)
        elif isinstance(s, ast.Raise):
            raise Raised(ast.unparse(s.exc) if s.exc else 'raise', s.lineno)
        elif isinstance(s, ast.Pass):
            return
        else:
            raise Unsupported(f'line {s.lineno}: statement {type(s).__name__} outside the fragment')

    def assign(self, t, v, env):
        if isinstance(t, ast.Name):
            env[t.id] = v
        elif isinstance(t, (ast.Tuple, ast.List)):
            if not isinstance(v, (tuple, list)) or len(v) != len(t.elts):
                raise Unsupported(f'line {t.lineno}: cannot unpack {v!r}')
            for e, x in zip(t.elts, v):
                self.assign(e, x, env)
        elif isinstance(t, ast.Attribute):
            o = self.ev(t.value, env)
            if not isinstance(o, Obj):
                raise Unsupported(f'line {t.lineno}: attribute store on {o!r}')
            o.attrs[t.attr] = v
        elif isinstance(t, ast.Subscript):
            o = self.ev(t.value, env)
            k = self.ev(t.slice, env)
            if not isinstance(o, dict):
                raise Unsupported(f'line {t.lineno}: subscript store on {o!r}')
            o[k] = v
        else:
            raise Unsupported(f'assignment target {type(t).__name__}')

    # -- expressions ---------------------------------------------------------
    def truth(self, v):
        if isinstance(v, bool):
            return v
        if isinstance(v, (list, tuple, dict)):
            return bool(v)
        if v is None:
            return False
        raise Unsupported(f'truth value of {v!r}')

    def binop(self, op, a, b):
        if isinstance(op, ast.Add):
            if isinstance(a, list) and isinstance(b, list):
                return a + b
            if _isint(a) and _isint(b):
                return a + b
        if isinstance(op, ast.Sub) and _isint(a) and _isint(b):
            return a - b
        raise Unsupported(f'operator {type(op).__name__} on {a!r}, {b!r} (outside the comparison-only fragment)')

    def ev(self, n, env):
        if isinstance(n, ast.Constant):
            return n.value
        if isinstance(n, ast.Name):
            if n.id in env:
                return env[n.id]
            if n.id in self.funcs:
                return FuncRef(n.id, self.funcs[n.id])
            if n.id in self.externals:
                return ('ext', n.id)
            if n.id in ('True', 'False', 'None'):
                return {'True': True, 'False': False, 'None': None}[n.id]
            raise Unsupported(f'line {n.lineno}: unknown name {n.id}')
        if isinstance(n, ast.Attribute):
            o = self.ev(n.value, env)
            if isinstance(o, Obj):
                if n.attr in o.attrs:
                    return o.attrs[n.attr]
                raise Unsupported(f'line {n.lineno}: self.{n.attr} read before assignment')
            return ('attr', o, n.attr)
        if isinstance(n, ast.Tuple):
            return tuple(self.ev(e, env) for e in n.elts)
        if isinstance(n, ast.List):
            return [self.ev(e, env) for e in n.elts]
        if isinstance(n, ast.Dict):
            return {self.ev(k, env): self.ev(v, env) for k, v in zip(n.keys, n.values)}
        if isinstance(n, ast.Subscript):
            o = self.ev(n.value, env)
            k = self.ev(n.slice, env)
            if isinstance(o, dict):
                return o[k]
            if isinstance(o, (tuple, list)) and isinstance(k, int) and not isinstance(k, bool):
                return o[k]
            raise Unsupported(f'line {n.lineno}: subscript {o!r}[{k!r}]')
        if isinstance(n, ast.BoolOp):
            if isinstance(n.op, ast.And):
                v = True
                for e in n.values:
                    v = self.ev(e, env)
                    if not self.truth(v):
                        return v
                return v
            v = False
            for e in n.values:
                v = self.ev(e, env)
                if self.truth(v):
                    return v
            return v
        if isinstance(n, ast.UnaryOp):
            v = self.ev(n.operand, env)
            if isinstance(n.op, ast.Not):
                return not self.truth(v)
            if isinstance(n.op, ast.USub) and _isint(v):
                return -v
            raise Unsupported(f'unary {type(n.op).__name__}')
        if isinstance(n, ast.Compare):
            left = self.ev(n.left, env)
            for op, r in zip(n.ops, n.comparators):
                right = self.ev(r, env)
                if not self.compare(op, left, right):
                    return False
                left = right
            return True
        if isinstance(n, ast.IfExp):
            return self.ev(n.body, env) if self.truth(self.ev(n.test, env)) else self.ev(n.orelse, env)
        if isinstance(n, ast.BinOp):
            a, b = self.ev(n.left, env), self.ev(n.right, env)
            if isinstance(n.left, ast.Constant) and _isint(a):
                self.shifts.add(abs(a))
            if isinstance(n.right, ast.Constant) and _isint(b):
                self.shifts.add(abs(b))
            return self.binop(n.op, a, b)
        if isinstance(n, (ast.ListComp, ast.GeneratorExp)):
            out = []

            def gen(k, sub):
                if k == len(n.generators):
                    out.append(self.ev(n.elt, sub))
                    return
                g = n.generators[k]
                it = self.ev(g.iter, sub)
                if not isinstance(it, (list, tuple)):
                    raise Unsupported(f'comprehension over {it!r}')
                for x in it:
                    sub2 = dict(sub)
                    self.assign(g.target, x, sub2)
                    if all(self.truth(self.ev(c, sub2)) for c in g.ifs):
                        gen(k + 1, sub2)
            gen(0, dict(env))
            return out
        if isinstance(n, ast.Call):
            return self.call(n, env)
        if isinstance(n, ast.Starred):
            raise Unsupported('starred expression')
        raise Unsupported(f'line {getattr(n, "lineno", 0)}: expression {type(n).__name__} outside the fragment')

    def compare(self, op, a, b):
        if isinstance(op, (ast.Eq, ast.NotEq)):
            r = (a == b)
            return r if isinstance(op, ast.Eq) else not r
        if isinstance(op, (ast.Is, ast.IsNot)):
            r = (a is b) or (a is None and b is None) or (isinstance(a, bool) and isinstance(b, bool) and a == b)
            return r if isinstance(op, ast.Is) else not r
        if not (_isint(a) and _isint(b)):
            raise Unsupported(f'order comparison of {a!r} and {b!r}')
        if isinstance(op, ast.Lt):
            return a < b
        if isinstance(op, ast.LtE):
            return a <= b
        if isinstance(op, ast.Gt):
            return a > b
        if isinstance(op, ast.GtE):
            return a >= b
        raise Unsupported(f'comparison {type(op).__name__}')

    def call(self, n, env):
        args = []
        for a in n.args:
            if isinstance(a, ast.Starred):
                v = self.ev(a.value, env)
                if not isinstance(v, (list, tuple)):
                    raise Unsupported('star of non-sequence')
                args.extend(v)
            else:
                args.append(self.ev(a, env))
        kwargs = {}
        for k in n.keywords:
            if k.arg is None:
                raise Unsupported('**kwargs in call')
            kwargs[k.arg] = self.ev(k.value, env)
        # builtins of the fragment
        if isinstance(n.func, ast.Name) and n.func.id not in env:
            name = n.func.id
            if name == 'zip' and not kwargs:
                if not all(isinstance(a, (list, tuple)) for a in args):
                    raise Unsupported('zip over non-lists')
                return [tuple(x) for x in zip(*args)]
            if name == 'len' and len(args) == 1 and isinstance(args[0], (list, tuple)):
                return len(args[0])
            if name in ('list', 'tuple') and len(args) == 1 and isinstance(args[0], (list, tuple)):
                return list(args[0]) if name == 'list' else tuple(args[0])
            # min / max of endpoints are order-theoretic: they select one of their arguments by comparisons only, so the
            # behaviour still depends on the ordering of the integers alone (the rank-vector domain stays exact)
            if name in ('min', 'max') and not kwargs and len(args) >= 2 and all(_isint(a) for a in args):
                return min(args) if name == 'min' else max(args)
            if name in ('min', 'max') and not kwargs and len(args) == 1 and isinstance(args[0], (list, tuple)) and args[0] \
                    and all(_isint(a) for a in args[0]):
                return min(args[0]) if name == 'min' else max(args[0])
            if name in ('list', 'tuple', 'dict') and not args and not kwargs:
                return {'list': [], 'tuple': (), 'dict': {}}[name]
            if name in self.externals:
                return self.externals[name](self, args, kwargs)
            if name in self.funcs:
                return self.call_function(self.funcs[name], args, kwargs)
            raise Unsupported(f'line {n.lineno}: call to {name} outside the fragment')
        f = self.ev(n.func, env)
        if isinstance(f, FuncRef):
            return self.call_function(f.node, args, kwargs)
        # list methods of the fragment: xs.append(x), xs.extend(ys) (in place, like xs += [...])
        if isinstance(f, tuple) and f and f[0] == 'attr' and isinstance(f[1], list) and not kwargs:
            if f[2] == 'append' and len(args) == 1:
                f[1].append(args[0])
                return None
            if f[2] == 'extend' and len(args) == 1 and isinstance(args[0], (list, tuple)):
                f[1].extend(args[0])
                return None
        if isinstance(f, tuple) and f and f[0] == 'attr':
            key = 'method:' + f[2]
            if key in self.externals:
                return self.externals[key](self, f[1], args, kwargs)
        if isinstance(f, tuple) and f and f[0] == 'ext':
            return self.externals[f[1]](self, args, kwargs)
        raise Unsupported(f'line {n.lineno}: call of {f!r} outside the fragment')


class _Return(Exception):
    def __init__(self, value):
        self.value = value


def _isint(v):
    return isinstance(v, int) and not isinstance(v, bool)


def _load(t):
    """Copy of a store-context target as a load-context expression."""
    t2 = ast.parse(ast.unparse(t), mode='eval').body
    return ast.copy_location(t2, t)
