"""Debug helper: dump the events and final environment of a function."""
import sys
from . import terms as T
from .model import get_repo
from .symeval import Analyses

def main():
    repo = get_repo()
    A = Analyses(repo)
    for q in sys.argv[1:]:
        fa = A(q)
        print('==', fa.fi.qualname, fa.fi.file, fa.fi.lineno)
        for e in fa.events:
            if e.kind in ('assign', 'branch', 'loop', 'with', 'def'):
                if '-v' not in sys.argv: 
                    pass
            g = ' & '.join(('' if p else '!') + T.show(c) for c, p in e.guards)
            d = ', '.join(f'{k}={T.show(v) if isinstance(v, tuple) else v}' for k, v in e.d.items() if k not in ('args','kws','f'))
            print(f'  [{e.idx}] L{e.line} {e.kind}: {d}   | loops={e.loops} guards=[{g}] trys={[(p) for _,p,_ in e.trys]}')
        print('  -- loops')
        for l in fa.loops.values():
            print('  ', l.id, l.kind, T.show(l.iter) if l.iter else None, {k:(T.show(a),T.show(b)) for k,(a,b) in l.carried.items()})
        print('  -- unrecognised', fa.unrecognised)
if __name__ == '__main__':
    main()
