#!/usr/bin/env python3
"""Automatic behaviour-preserving rewrite sweep (checker validation, the silent direction).

For a property Cxx the functions its check looks at (the footprint, as in
automutate.py) are rewritten by operators that do not change what the code
computes, one operator at a time, applied to every eligible site of one file:

  rename-locals     every local variable x of every function -> x_rn
  if-else-swap      if c: A else: B            -> if not c: B else: A
  ternary-flip      a if c else b              -> b if not c else a
  mirror-compare    a < b                      -> b > a     (==, != operands swapped)
  return-via-temp   return e                   -> _rv = e; return _rv
  cond-via-temp     if c: ...                  -> _c = c; if _c: ...
  split-and         if a and b: X  (no else)   -> if a: if b: X
  split-tuple-assign a, b = x, y               -> a = x; b = y   (when independent)
  nest-with         with A as a, B as b: ...   -> with A as a: with B as b: ...
  messages          text of raise / warn / log messages and docstrings edited
  noise             unused assignment at the top of every function; unused helper and import added
  keywordify        last positional argument of calls to same-module functions passed by keyword
  drop-else-after-leave   if c: ...; return  else: B   -> if c: ...; return ; B
  else-after-guard-clause if c: return X ; rest        -> if c: return X  else: rest
  de-morgan         a or b (in a test)         -> not (not a and not b)
  split-chain       a <= x < b                 -> a <= x and x < b
  empty-literal-calls []  / {}                 -> list() / dict()
  numpy-alias       np.f(...)                  -> numpy.f(...)  (import numpy added)
  len-zero          len(x) == 0 (in a test)    -> not len(x)
  swap-independent  x = e1 ; y = e2            -> y = e2 ; x = e1   (independent, call-free)
  add-asserts       a trivially true assert at the top of every function
  isinstance-split  isinstance(x, (A, B))      -> isinstance(x, A) or isinstance(x, B)

Each variant is written to a scratch tree (mkdtemp outside /repo and /verif;
other files symlinked) and the check is run on it: it must exit 0.  A non-zero
exit is a false alarm of the checker (or an analysis error) and is listed.
With --bisect a failing file-wide variant is re-run function by function.

    selftest/autorefactor.py C01 [C02 ...] [-j 16] [--bisect] [--json out.json]
"""
from __future__ import annotations

import argparse
import ast
import concurrent.futures as cf
import copy
import json
import os
import sys
import time

HERE = os.path.dirname(os.path.abspath(__file__))
VERIF = os.path.dirname(HERE)
sys.path.insert(0, VERIF)
sys.path.insert(0, HERE)
import automutate as AM  # noqa: E402

REPO = AM.REPO
MIRROR = {ast.Lt: ast.Gt, ast.Gt: ast.Lt, ast.LtE: ast.GtE, ast.GtE: ast.LtE, ast.Eq: ast.Eq, ast.NotEq: ast.NotEq}


def _funcs_in(tree, ranges):
    """FunctionDef nodes of the footprint (outermost ones only)."""
    out = []
    for n in ast.walk(tree):
        if isinstance(n, (ast.FunctionDef, ast.AsyncFunctionDef)):
            for q, lo, hi in ranges:
                if n.lineno == lo and '<locals>' not in q:
                    out.append(n)
    return out


def _subnodes(fn):
    return list(ast.walk(fn))


def _body_lists(root):
    for p in ast.walk(root):
        for field in ('body', 'orelse', 'finalbody'):
            b = getattr(p, field, None)
            if isinstance(b, list) and b and isinstance(b[0], ast.stmt):
                yield b
        if isinstance(p, ast.Try):
            for h in p.handlers:
                yield h.body


def op_rename_locals(fn):
    n = 0
    if any(isinstance(x, ast.ClassDef) for x in ast.walk(fn)):
        return 0
    params = set()
    declared = set()
    for x in ast.walk(fn):
        if isinstance(x, (ast.FunctionDef, ast.AsyncFunctionDef, ast.Lambda)):
            a = x.args
            for p in list(a.posonlyargs) + list(a.args) + list(a.kwonlyargs):
                params.add(p.arg)
            if a.vararg:
                params.add(a.vararg.arg)
            if a.kwarg:
                params.add(a.kwarg.arg)
            if not isinstance(x, ast.Lambda) and x is not fn:
                params.add(x.name)
        if isinstance(x, (ast.Global, ast.Nonlocal)):
            declared.update(x.names)
        if isinstance(x, ast.ExceptHandler) and x.name:
            params.add(x.name)
        if isinstance(x, (ast.Import, ast.ImportFrom)):
            for a in x.names:
                params.add((a.asname or a.name).split('.')[0])
    stored = {x.id for x in ast.walk(fn) if isinstance(x, ast.Name) and isinstance(x.ctx, (ast.Store, ast.Del))}
    allnames = {x.id for x in ast.walk(fn) if isinstance(x, ast.Name)}
    todo = {x for x in stored - params - declared if not x.startswith('__') and (x + '_rn') not in allnames}
    for x in ast.walk(fn):
        if isinstance(x, ast.Name) and x.id in todo:
            x.id = x.id + '_rn'
            n += 1
    return n


def op_if_else_swap(fn):
    n = 0
    for x in ast.walk(fn):
        if isinstance(x, ast.If) and x.orelse:
            x.test = ast.UnaryOp(ast.Not(), x.test)
            x.body, x.orelse = x.orelse, x.body
            n += 1
    return n


def op_ternary_flip(fn):
    n = 0
    for x in ast.walk(fn):
        if isinstance(x, ast.IfExp):
            x.test = ast.UnaryOp(ast.Not(), x.test)
            x.body, x.orelse = x.orelse, x.body
            n += 1
    return n


def _has_impure(e):
    for x in ast.walk(e):
        if isinstance(x, ast.Call):
            f = x.func
            nm = f.id if isinstance(f, ast.Name) else (f.attr if isinstance(f, ast.Attribute) else '')
            if nm in ('next', 'pop', 'readline', 'popitem', 'send', 'read'):
                return True
        if isinstance(x, (ast.NamedExpr, ast.Yield, ast.YieldFrom, ast.Await)):
            return True
    return False


def op_mirror_compare(fn):
    n = 0
    for x in ast.walk(fn):
        if isinstance(x, ast.Compare) and len(x.ops) == 1 and type(x.ops[0]) in MIRROR \
                and not _has_impure(x.left) and not _has_impure(x.comparators[0]):
            x.left, x.comparators[0] = x.comparators[0], x.left
            x.ops[0] = MIRROR[type(x.ops[0])]()
            n += 1
    return n


def op_return_via_temp(fn):
    n = 0
    for body in list(_body_lists(fn)):
        i = 0
        while i < len(body):
            s = body[i]
            if isinstance(s, ast.Return) and s.value is not None and not isinstance(s.value, ast.Name):
                # not inside a nested function that is a generator expression etc. - plain statement
                tmp = ast.Assign([ast.Name('_rv', ast.Store())], s.value)
                body[i:i + 1] = [ast.copy_location(tmp, s), ast.copy_location(ast.Return(ast.Name('_rv', ast.Load())), s)]
                i += 1
                n += 1
            i += 1
    return n


def op_cond_via_temp(fn):
    n = 0
    k = 0
    for body in list(_body_lists(fn)):
        i = 0
        while i < len(body):
            s = body[i]
            if isinstance(s, ast.If) and not isinstance(s.test, ast.Name):
                k += 1
                nm = f'_c{k}'
                tmp = ast.Assign([ast.Name(nm, ast.Store())], s.test)
                s.test = ast.Name(nm, ast.Load())
                body.insert(i, ast.copy_location(tmp, s))
                i += 1
                n += 1
            i += 1
    return n


def op_split_and(fn):
    n = 0
    for x in ast.walk(fn):
        if isinstance(x, ast.If) and not x.orelse and isinstance(x.test, ast.BoolOp) and isinstance(x.test.op, ast.And) \
                and len(x.test.values) == 2:
            a, b = x.test.values
            inner = ast.copy_location(ast.If(b, x.body, []), x)
            x.test = a
            x.body = [inner]
            n += 1
    return n


def op_split_tuple_assign(fn):
    n = 0
    for body in list(_body_lists(fn)):
        i = 0
        while i < len(body):
            s = body[i]
            if isinstance(s, ast.Assign) and len(s.targets) == 1 and isinstance(s.targets[0], ast.Tuple) \
                    and isinstance(s.value, ast.Tuple) and len(s.value.elts) == len(s.targets[0].elts) \
                    and all(isinstance(t, ast.Name) for t in s.targets[0].elts) \
                    and not any(isinstance(v, ast.Starred) for v in s.value.elts):
                tnames = {t.id for t in s.targets[0].elts}
                used = {y.id for v in s.value.elts for y in ast.walk(v) if isinstance(y, ast.Name)}
                if not (tnames & used) and not any(_has_impure(v) for v in s.value.elts):
                    new = [ast.copy_location(ast.Assign([t], v), s) for t, v in zip(s.targets[0].elts, s.value.elts)]
                    body[i:i + 1] = new
                    i += len(new) - 1
                    n += 1
            i += 1
    return n


def op_nest_with(fn):
    n = 0
    for x in ast.walk(fn):
        if isinstance(x, ast.With) and len(x.items) > 1:
            inner = ast.copy_location(ast.With(x.items[1:], x.body), x)
            x.items = x.items[:1]
            x.body = [inner]
            n += 1
    return n


def _edit_strings(e):
    n = 0
    for y in ast.walk(e):
        if isinstance(y, ast.Constant) and isinstance(y.value, str) and len(y.value) > 8 and ' ' in y.value:
            y.value = y.value + ' (reworded)'
            n += 1
    return n


def op_messages(fn):
    n = 0
    for x in ast.walk(fn):
        if isinstance(x, ast.Raise) and isinstance(x.exc, ast.Call):
            for a in x.exc.args:
                n += _edit_strings(a)
        elif isinstance(x, ast.Call):
            f = ast.unparse(x.func)
            if f.startswith(('logger.', 'warnings.warn', 'click.echo')) or f in ('print',):
                for a in x.args[:1]:
                    n += _edit_strings(a)
    for x in ast.walk(fn):
        if isinstance(x, (ast.FunctionDef, ast.AsyncFunctionDef)) and x.body and isinstance(x.body[0], ast.Expr) \
                and isinstance(x.body[0].value, ast.Constant) and isinstance(x.body[0].value.value, str):
            x.body[0].value.value = 'Reworded.  ' + x.body[0].value.value
            n += 1
    return n


def op_noise(fn):
    k = 0
    if fn.body and isinstance(fn.body[0], ast.Expr) and isinstance(fn.body[0].value, ast.Constant):
        k = 1
    fn.body.insert(k, ast.copy_location(ast.Assign([ast.Name('_unused_marker', ast.Store())], ast.Constant(0)), fn.body[0]))
    return 1


def make_keywordify(tree):
    sigs = {}
    for n in tree.body:
        if isinstance(n, ast.FunctionDef) and not n.args.vararg and not n.args.posonlyargs and not n.decorator_list:
            sigs[n.name] = [a.arg for a in n.args.args]

    def op(fn):
        n = 0
        shadow = {x.id for x in ast.walk(fn) if isinstance(x, ast.Name) and isinstance(x.ctx, ast.Store)}
        shadow |= {a.arg for a in fn.args.args + fn.args.kwonlyargs}
        for x in ast.walk(fn):
            if isinstance(x, ast.Call) and isinstance(x.func, ast.Name) and x.func.id in sigs and x.func.id not in shadow \
                    and x.args and not any(isinstance(a, ast.Starred) for a in x.args) and len(x.args) <= len(sigs[x.func.id]):
                name = sigs[x.func.id][len(x.args) - 1]
                if any(k.arg == name for k in x.keywords):
                    continue
                v = x.args.pop()
                x.keywords.insert(0, ast.keyword(name, v))
                n += 1
        return n
    return op


def _leaves(stmts):
    return bool(stmts) and isinstance(stmts[-1], (ast.Return, ast.Raise, ast.Continue, ast.Break))


def op_drop_else_after_leave(fn):
    """if c: ...return  else: B   ->   if c: ...return ; B"""
    n = 0
    for body in list(_body_lists(fn)):
        i = 0
        while i < len(body):
            s = body[i]
            if isinstance(s, ast.If) and s.orelse and _leaves(s.body) and i == len(body) - 1 or \
                    (isinstance(s, ast.If) and s.orelse and _leaves(s.body) and isinstance(s.body[-1], (ast.Return, ast.Raise))):
                rest = s.orelse
                s.orelse = []
                body[i + 1:i + 1] = rest
                n += 1
            i += 1
    return n


def op_else_after_guard_clause(fn):
    """if c: return X ; rest...   ->   if c: return X  else: rest...   (function bodies only)"""
    n = 0
    for f in ast.walk(fn):
        if not isinstance(f, (ast.FunctionDef, ast.AsyncFunctionDef)):
            continue
        body = f.body
        for i, s in enumerate(body):
            if isinstance(s, ast.If) and not s.orelse and _leaves(s.body) and isinstance(s.body[-1], (ast.Return, ast.Raise)) \
                    and i + 1 < len(body) and not any(isinstance(x, (ast.FunctionDef, ast.ClassDef)) for x in body[i + 1:]):
                s.orelse = body[i + 1:]
                del body[i + 1:]
                n += 1
                break
    return n


def op_de_morgan(fn):
    n = 0
    for x in ast.walk(fn):
        if isinstance(x, (ast.If, ast.While, ast.IfExp)) and isinstance(x.test, ast.BoolOp):
            b = x.test
            other = ast.And() if isinstance(b.op, ast.Or) else ast.Or()
            x.test = ast.UnaryOp(ast.Not(), ast.BoolOp(other, [ast.UnaryOp(ast.Not(), v) for v in b.values]))
            n += 1
    return n


def op_split_chain(fn):
    n = 0
    for x in ast.walk(fn):
        for field, val in ast.iter_fields(x):
            vals = val if isinstance(val, list) else [val]
            for k, c in enumerate(vals):
                if isinstance(c, ast.Compare) and len(c.ops) == 2 and isinstance(c.comparators[0], (ast.Name, ast.Constant, ast.Attribute)):
                    new = ast.BoolOp(ast.And(), [ast.Compare(c.left, [c.ops[0]], [c.comparators[0]]),
                                                 ast.Compare(copy.deepcopy(c.comparators[0]), [c.ops[1]], [c.comparators[1]])])
                    if isinstance(val, list):
                        val[k] = new
                    else:
                        setattr(x, field, new)
                    n += 1
    return n


def op_empty_literal_calls(fn):
    n = 0
    for x in ast.walk(fn):
        for field, val in ast.iter_fields(x):
            vals = val if isinstance(val, list) else [val]
            for k, c in enumerate(vals):
                new = None
                if isinstance(c, ast.List) and not c.elts and isinstance(c.ctx, ast.Load):
                    new = ast.Call(ast.Name('list', ast.Load()), [], [])
                elif isinstance(c, ast.Dict) and not c.keys:
                    new = ast.Call(ast.Name('dict', ast.Load()), [], [])
                if new is not None:
                    if isinstance(val, list):
                        val[k] = new
                    else:
                        setattr(x, field, new)
                    n += 1
    return n


def op_numpy_alias(fn):
    n = 0
    for x in ast.walk(fn):
        if isinstance(x, ast.Name) and x.id == 'np' and isinstance(x.ctx, ast.Load):
            x.id = 'numpy'
            n += 1
    return n


def op_len_zero(fn):
    n = 0
    for x in ast.walk(fn):
        for field, val in ast.iter_fields(x):
            vals = val if isinstance(val, list) else [val]
            for k, c in enumerate(vals):
                if isinstance(c, ast.Compare) and len(c.ops) == 1 and isinstance(c.ops[0], ast.Eq) \
                        and isinstance(c.comparators[0], ast.Constant) and c.comparators[0].value == 0 \
                        and type(c.comparators[0].value) is int \
                        and isinstance(c.left, ast.Call) and isinstance(c.left.func, ast.Name) and c.left.func.id == 'len' \
                        and isinstance(x, (ast.If, ast.While, ast.IfExp, ast.BoolOp, ast.UnaryOp)):
                    new = ast.UnaryOp(ast.Not(), c.left)
                    if isinstance(val, list):
                        val[k] = new
                    else:
                        setattr(x, field, new)
                    n += 1
    return n


def _names(e, ctxs):
    return {x.id for x in ast.walk(e) if isinstance(x, ast.Name) and isinstance(x.ctx, ctxs)}


def op_swap_independent(fn):
    """x = e1 ; y = e2  ->  y = e2 ; x = e1   when neither reads or writes what the other writes and
    neither right-hand side contains a call (evaluation order of effects is untouched)."""
    n = 0
    for body in list(_body_lists(fn)):
        i = 0
        while i + 1 < len(body):
            a, b = body[i], body[i + 1]
            ok = all(isinstance(x, ast.Assign) and len(x.targets) == 1 and isinstance(x.targets[0], ast.Name)
                     and not any(isinstance(y, (ast.Call, ast.Yield, ast.YieldFrom, ast.Await, ast.NamedExpr, ast.Subscript))
                                 for y in ast.walk(x.value)) for x in (a, b))
            if ok:
                wa, wb = a.targets[0].id, b.targets[0].id
                ra, rb = _names(a.value, ast.Load), _names(b.value, ast.Load)
                if wa != wb and wa not in rb and wb not in ra:
                    body[i], body[i + 1] = b, a
                    n += 1
                    i += 2
                    continue
            i += 1
    return n


def op_add_asserts(fn):
    n = 0
    for f in ast.walk(fn):
        if isinstance(f, (ast.FunctionDef, ast.AsyncFunctionDef)) and f.args.args:
            k = 1 if (f.body and isinstance(f.body[0], ast.Expr) and isinstance(f.body[0].value, ast.Constant)) else 0
            name = f.args.args[-1].arg
            f.body.insert(k, ast.copy_location(ast.parse(f'assert {name} is not None or {name} is None').body[0], f.body[0]))
            n += 1
    return n


def op_isinstance_split(fn):
    n = 0
    for x in ast.walk(fn):
        for field, val in ast.iter_fields(x):
            vals = val if isinstance(val, list) else [val]
            for k, c in enumerate(vals):
                if isinstance(c, ast.Call) and isinstance(c.func, ast.Name) and c.func.id == 'isinstance' and len(c.args) == 2 \
                        and isinstance(c.args[1], ast.Tuple) and len(c.args[1].elts) == 2 \
                        and isinstance(c.args[0], (ast.Name, ast.Attribute)):
                    new = ast.BoolOp(ast.Or(), [ast.Call(ast.Name('isinstance', ast.Load()), [copy.deepcopy(c.args[0]), e], [])
                                                for e in c.args[1].elts])
                    if isinstance(val, list):
                        val[k] = new
                    else:
                        setattr(x, field, new)
                    n += 1
    return n


OPS = {
    'swap-independent': op_swap_independent,
    'add-asserts': op_add_asserts,
    'isinstance-split': op_isinstance_split,
    'drop-else-after-leave': op_drop_else_after_leave,
    'else-after-guard-clause': op_else_after_guard_clause,
    'de-morgan': op_de_morgan,
    'split-chain': op_split_chain,
    'empty-literal-calls': op_empty_literal_calls,
    'numpy-alias': op_numpy_alias,
    'len-zero': op_len_zero,
    'rename-locals': op_rename_locals,
    'if-else-swap': op_if_else_swap,
    'ternary-flip': op_ternary_flip,
    'mirror-compare': op_mirror_compare,
    'return-via-temp': op_return_via_temp,
    'cond-via-temp': op_cond_via_temp,
    'split-and': op_split_and,
    'split-tuple-assign': op_split_tuple_assign,
    'nest-with': op_nest_with,
    'messages': op_messages,
    'noise': op_noise,
    'keywordify': None,
}


def gen_variants(path, funcs, only_func=None):
    with open(path) as fh:
        src = fh.read()
    tree0 = ast.parse(src)
    for name, op in OPS.items():
        t = copy.deepcopy(tree0)
        if name == 'keywordify':
            op = make_keywordify(t)
        n = 0
        for fn in _funcs_in(t, funcs):
            if only_func and fn.name != only_func:
                continue
            n += op(fn)
        if name == 'numpy-alias' and n:
            t.body.insert(next((k + 1 for k, b in enumerate(t.body) if isinstance(b, ast.ImportFrom) and b.module == '__future__'), 0),
                          ast.parse('import numpy').body[0])
        if name == 'noise':
            t.body.append(ast.parse('import itertools as _unused_itertools\n\n\ndef _unused_helper(x):\n    return x\n').body[0])
            t.body.append(ast.parse('def _unused_helper(x):\n    return x\n').body[0])
        if not n:
            continue
        try:
            new_src = ast.unparse(ast.fix_missing_locations(t))
            compile(new_src, path, 'exec')
        except Exception as e:     # pragma: no cover
            print(f'   (operator {name} produced an invalid file for {path}: {e})')
            continue
        yield f'{name} x{n}' + (f' [{only_func}]' if only_func else ''), new_src


def main():
    ap = argparse.ArgumentParser()
    ap.add_argument('props', nargs='+')
    ap.add_argument('-j', type=int, default=min(16, os.cpu_count() or 4))
    ap.add_argument('--bisect', action='store_true')
    ap.add_argument('--json', default=None)
    ap.add_argument('--ops', default=None)
    args = ap.parse_args()
    if args.ops:
        for k in list(OPS):
            if k not in args.ops.split(','):
                del OPS[k]
    t0 = time.time()
    summary = {}
    total_bad = 0
    for prop in args.props:
        fp = AM.footprint(prop)
        jobs = []
        for path, funcs in sorted(fp.items()):
            if not path.startswith(REPO):
                continue
            for desc, new_src in gen_variants(path, funcs):
                jobs.append((prop, path, desc, new_src))
        with cf.ThreadPoolExecutor(max_workers=args.j) as ex:
            res = list(ex.map(AM.run_one, jobs))
        bad = [r for r in res if r[3] != 0]
        total_bad += len(bad)
        summary[prop] = dict(variants=len(res), silent=len(res) - len(bad), false_alarms=[f'{r[1]}|{r[2]}|rc={r[3]}' for r in bad])
        print(f'{prop}: {len(res)} behaviour-preserving variants: {len(res) - len(bad)} silent, {len(bad)} not silent')
        for r in bad:
            print(f'   NOT-SILENT rc={r[3]} {r[1]}|{r[2]}')
        if args.bisect and bad:
            jobs2 = []
            for r in bad:
                path = os.path.join(REPO, r[1])
                opname = r[2].split(' ')[0]
                saved = dict(OPS)
                for k in list(OPS):
                    if k != opname:
                        del OPS[k]
                for q, lo, hi in fp[path]:
                    if '<locals>' in q:
                        continue
                    for desc, new_src in gen_variants(path, fp[path], only_func=q.split('.')[-1]):
                        jobs2.append((prop, path, desc, new_src))
                OPS.clear()
                OPS.update(saved)
            with cf.ThreadPoolExecutor(max_workers=args.j) as ex:
                res2 = list(ex.map(AM.run_one, jobs2))
            for r in res2:
                if r[3] != 0:
                    print(f'      -> rc={r[3]} {r[1]}|{r[2]}')
    print(f'({time.time() - t0:.0f}s)')
    if args.json:
        with open(args.json, 'w') as fh:
            json.dump(summary, fh, indent=1)
    return 1 if total_bad else 0


if __name__ == '__main__':
    sys.exit(main())
