#!/usr/bin/env python3
"""Mutants of REFACTORED code (checker validation).

The normal forms that make the checks insensitive to behaviour-preserving rewrites must not make
them insensitive to real changes of the rewritten code.  For every stored maintenance change
(benign/<id>/patch.diff) that leaves all checks silent, the patch is applied to a scratch copy, single-
point AST mutants (the operators of automutate.py) are generated inside the functions the patch touched
(including the new helpers it introduced), and the checks of the properties anchored in the patched
files (plus the property the change was written for) are run on each mutant: at least one must report.

    selftest/mutate_benign.py [-j 14] [--max 25] [--json out.json] [ids...]
"""
from __future__ import annotations

import argparse
import ast
import concurrent.futures as cf
import json
import os
import re
import shutil
import subprocess
import sys
import tempfile
import time

HERE = os.path.dirname(os.path.abspath(__file__))
VERIF = os.path.dirname(HERE)
sys.path.insert(0, VERIF)
sys.path.insert(0, HERE)
import automutate as AM  # noqa: E402

REPO = AM.REPO


def anchored_props(files):
    out = set()
    with open(os.path.join(VERIF, 'properties.jsonl')) as fh:
        for line in fh:
            p = json.loads(line)
            if set(p['anchors']['files']) & set(files):
                out.add(p['id'])
    return out


def changed_functions(patched_root, rel, diff_text):
    """(qualname-ish, lo, hi) of the functions of the patched file that contain added / changed lines."""
    lines = set()
    cur = None
    infile = False
    for ln in diff_text.splitlines():
        if ln.startswith('+++ b/'):
            infile = ln[6:] == rel
            continue
        if not infile:
            continue
        m = re.match(r'@@ -\d+(?:,\d+)? \+(\d+)(?:,(\d+))? @@', ln)
        if m:
            cur = int(m.group(1))
            continue
        if cur is None:
            continue
        if ln.startswith('+'):
            lines.add(cur)
            cur += 1
        elif ln.startswith('-'):
            lines.add(cur)
        else:
            cur += 1
    tree = ast.parse(open(os.path.join(patched_root, rel)).read())
    out = []
    for n in ast.walk(tree):
        if isinstance(n, (ast.FunctionDef, ast.AsyncFunctionDef)):
            if any(n.lineno <= x <= n.end_lineno for x in lines):
                out.append((n.name, n.lineno, n.end_lineno))
    return out


def run_mutant(job):
    bid, props, patched_root, rel, desc, new_src = job
    tmp = tempfile.mkdtemp(prefix='cverif-mb-')
    try:
        for dirpath, dirnames, filenames in os.walk(os.path.join(patched_root, 'src', 'cooler')):
            rd = os.path.relpath(dirpath, patched_root)
            os.makedirs(os.path.join(tmp, rd), exist_ok=True)
            for fn in filenames:
                if fn.endswith('.py'):
                    os.symlink(os.path.join(dirpath, fn), os.path.join(tmp, rd, fn))
        os.makedirs(os.path.join(tmp, 'docs'), exist_ok=True)
        for fn in os.listdir(os.path.join(REPO, 'docs')):
            if fn.endswith('.rst'):
                os.symlink(os.path.join(REPO, 'docs', fn), os.path.join(tmp, 'docs', fn))
        target = os.path.join(tmp, rel)
        os.unlink(target)
        with open(target, 'w') as fh:
            fh.write(new_src)
        rcs = []
        for p in props:
            r = subprocess.run([sys.executable, '-B', '-m', 'cverif.main', p, '--repo', tmp, '--evidence-dir', os.path.join(tmp, 'ev')],
                               cwd=VERIF, capture_output=True, text=True, env=dict(os.environ, VERIF_REPO=tmp, VERIF_SELFTEST='1'))
            rcs.append(r.returncode)
            if r.returncode == 1:
                break
        return bid, rel, desc, (1 if 1 in rcs else (2 if 2 in rcs else 0))
    finally:
        shutil.rmtree(tmp, ignore_errors=True)


def main():
    ap = argparse.ArgumentParser()
    ap.add_argument('ids', nargs='*')
    ap.add_argument('-j', type=int, default=min(16, os.cpu_count() or 4))
    ap.add_argument('--max', type=int, default=25)
    ap.add_argument('--json', default=None)
    args = ap.parse_args()
    idx = json.load(open(os.path.join(VERIF, 'benign', 'INDEX.json')))
    t0 = time.time()
    roots = []
    jobs = []
    for it in idx:
        if not it['silent'] or (args.ids and it['id'] not in args.ids):
            continue
        bid = it['id']
        root = tempfile.mkdtemp(prefix='cverif-mbroot-')
        roots.append(root)
        shutil.copytree(os.path.join(REPO, 'src', 'cooler'), os.path.join(root, 'src', 'cooler'))
        patch = os.path.join(VERIF, 'benign', bid, 'patch.diff')
        if subprocess.run(['patch', '-s', '-p1', '-i', patch], cwd=root, capture_output=True).returncode != 0:
            print(f'   (patch of {bid} does not apply to the current tree: skipped)')
            continue
        diff = open(patch, errors='replace').read()
        rels = ['src/cooler/' + f for f in it['files']]
        props = sorted(anchored_props(rels) | {bid[:3]})
        for rel in rels:
            funcs = changed_functions(root, rel, diff)
            if not funcs:
                continue
            for desc, new_src in AM.gen_mutants(os.path.join(root, rel), funcs, args.max):
                jobs.append((bid, props, root, rel, desc, new_src))
    print(f'{len(jobs)} mutants of refactored code from {len(roots)} silent maintenance changes', flush=True)
    with cf.ThreadPoolExecutor(max_workers=args.j) as ex:
        res = list(ex.map(run_mutant, jobs))
    for r in roots:
        shutil.rmtree(r, ignore_errors=True)
    det = [r for r in res if r[3] == 1]
    err = [r for r in res if r[3] == 2]
    sil = [r for r in res if r[3] == 0]
    print(f'mutants of refactored code: {len(res)}: {len(det)} reported, {len(err)} ANALYSIS-ERROR only, {len(sil)} silent')
    for r in sil:
        print(f'   SILENT {r[0]} {r[1]}|{r[2]}')
    print(f'({time.time() - t0:.0f}s)')
    if args.json:
        json.dump(dict(mutants=len(res), reported=len(det), analysis_error=len(err), silent=[f'{r[0]} {r[1]}|{r[2]}' for r in sil]),
                  open(args.json, 'w'), indent=1)
    return 0


if __name__ == '__main__':
    sys.exit(main())
