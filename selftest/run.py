#!/usr/bin/env python3
"""Checker self-validation (DESIGN.md 3.5).

Applies catalogued single edits to scratch copies of /repo/src (made with
mkdtemp outside /repo and /verif, removed immediately) and runs the owning
check on each copy:

* every *mutant* must make the check exit 1 with a VIOLATION line,
* every *refactor* (behaviour-preserving) must leave it silent (exit 0).

This exercises the checker, not the repository's behaviour.  Usage:
    selftest/run.py [C01 C02 ...] [-j N] [-k substring] [--list]
"""
from __future__ import annotations

import argparse
import concurrent.futures as cf
import importlib.util
import json
import os
import shutil
import subprocess
import sys
import tempfile
import time

HERE = os.path.dirname(os.path.abspath(__file__))
VERIF = os.path.dirname(HERE)
REPO = os.environ.get('VERIF_REPO', '/repo')


def load_catalogue():
    cat = []
    d = os.path.join(HERE, 'catalogue')
    for fn in sorted(os.listdir(d)):
        if fn.endswith('.py') and not fn.startswith('_'):
            spec = importlib.util.spec_from_file_location(fn[:-3], os.path.join(d, fn))
            mod = importlib.util.module_from_spec(spec)
            spec.loader.exec_module(mod)
            for v in getattr(mod, 'VARIANTS', []):
                v = dict(v)
                v.setdefault('prop', fn[:3])
                cat.append(v)
    return cat


def apply_edits(root, edits):
    for path, old, new in edits:
        p = os.path.join(root, path)
        with open(p, encoding='utf-8') as fh:
            s = fh.read()
        n = s.count(old)
        if n != 1:
            raise RuntimeError(f'edit does not apply uniquely ({n} matches) in {path}: {old[:60]!r}')
        with open(p, 'w', encoding='utf-8') as fh:
            fh.write(s.replace(old, new))


def run_variant(v):
    tmp = tempfile.mkdtemp(prefix='cverif-selftest-')
    try:
        os.makedirs(os.path.join(tmp, 'src'))
        shutil.copytree(os.path.join(REPO, 'src', 'cooler'), os.path.join(tmp, 'src', 'cooler'))
        if os.path.isdir(os.path.join(REPO, 'docs')):
            os.makedirs(os.path.join(tmp, 'docs'))
            for fn in os.listdir(os.path.join(REPO, 'docs')):
                if fn.endswith('.rst'):
                    shutil.copy(os.path.join(REPO, 'docs', fn), os.path.join(tmp, 'docs', fn))
        try:
            apply_edits(tmp, v['edits'])
        except RuntimeError as e:
            return v, 'STALE', str(e)
        # the variant must still compile
        for path, _, _ in v['edits']:
            try:
                with open(os.path.join(tmp, path)) as fh:
                    compile(fh.read(), path, 'exec')
            except SyntaxError as e:
                return v, 'STALE', f'variant does not compile: {e}'
        env = dict(os.environ, VERIF_REPO=tmp, VERIF_SELFTEST='1')
        props = v.get('props') or [v['prop']]
        rcs = []
        outs = []
        for prop in props:
            r = subprocess.run([sys.executable, '-B', '-m', 'cverif.main', prop, '--repo', tmp,
                                '--evidence-dir', os.path.join(tmp, 'evidence')],
                               cwd=VERIF, env=env, capture_output=True, text=True)
            rcs.append(r.returncode)
            outs.append(r.stdout + r.stderr)
        out = '\n'.join(outs)
        kind = v.get('kind', 'mutant')
        if kind == 'mutant':
            ok = any(rc == 1 for rc in rcs) and 'VIOLATION property=' in out
            if ok and v.get('expect'):
                ok = v['expect'] in out
            return v, ('OK' if ok else 'MISSED'), out
        else:
            ok = all(rc == 0 for rc in rcs)
            return v, ('OK' if ok else 'FALSE-ALARM'), out
    finally:
        shutil.rmtree(tmp, ignore_errors=True)


def main():
    ap = argparse.ArgumentParser()
    ap.add_argument('props', nargs='*')
    ap.add_argument('-j', type=int, default=min(16, os.cpu_count() or 4))
    ap.add_argument('-k', default=None)
    ap.add_argument('--list', action='store_true')
    ap.add_argument('--show', action='store_true', help='print check output of failing variants')
    ap.add_argument('--json', default=None)
    args = ap.parse_args()
    cat = load_catalogue()
    if args.props:
        cat = [v for v in cat if v['prop'] in args.props or set(v.get('props', [])) & set(args.props)]
    if args.k:
        cat = [v for v in cat if args.k in v['name']]
    if args.list:
        for v in cat:
            print(v['prop'], v.get('kind', 'mutant'), v['name'])
        return 0
    t0 = time.time()
    results = []
    with cf.ThreadPoolExecutor(max_workers=args.j) as ex:
        for v, status, out in ex.map(run_variant, cat):
            results.append((v, status, out))
    bad = 0
    for v, status, out in results:
        if status != 'OK':
            bad += 1
            print(f'{status:11s} {v["prop"]} {v.get("kind", "mutant"):8s} {v["name"]}')
            if args.show or status == 'STALE':
                print('    ' + '\n    '.join(out.strip().splitlines()[-12:]))
    n_m = sum(1 for v, _, _ in results if v.get('kind', 'mutant') == 'mutant')
    n_r = len(results) - n_m
    ok_m = sum(1 for v, s, _ in results if v.get('kind', 'mutant') == 'mutant' and s == 'OK')
    ok_r = sum(1 for v, s, _ in results if v.get('kind', 'mutant') != 'mutant' and s == 'OK')
    print(f'self-test: {ok_m}/{n_m} mutants detected, {ok_r}/{n_r} refactors silent, '
          f'{sum(1 for _, s, _ in results if s == "STALE")} stale  ({time.time() - t0:.1f}s)')
    if args.json:
        with open(args.json, 'w') as fh:
            json.dump([{'prop': v['prop'], 'name': v['name'], 'kind': v.get('kind', 'mutant'),
                        'status': s} for v, s, _ in results], fh, indent=1)
    return 1 if bad else 0


if __name__ == '__main__':
    sys.exit(main())
