#!/usr/bin/env python3
"""Automatic mutation sweep of the functions a check looks at (checker validation).

For a property Cxx:
  1. run the check in-process on the current tree and record which functions it
     evaluated (its footprint),
  2. generate single-point AST mutants of exactly those functions (comparator
     flips, off-by-one on small integer constants, + <-> -, and <-> or, dropped
     `not`, dropped statements, True <-> False, axis-name swaps ...1 <-> ...2,
     selected string swaps),
  3. write each mutant into a scratch tree (mkdtemp outside /repo and /verif;
     unmodified files are symlinked) and run the check on it,
  4. report how many mutants make the check exit 1 (VIOLATION), exit 2
     (ANALYSIS-ERROR) or stay silent.

Silent mutants are either equivalent (behaviour preserving) or a sensitivity
gap; they are listed for triage (selftest/automutate_triage.json records the
ones that were read and judged equivalent / out of the property's scope).
This exercises the checker; it says nothing about the repository.

    selftest/automutate.py C01 [C02 ...] [-j 16] [--max N] [--list-silent] [--json out.json]
"""
from __future__ import annotations

import argparse
import ast
import concurrent.futures as cf
import copy
import hashlib
import json
import os
import shutil
import subprocess
import sys
import tempfile
import time

HERE = os.path.dirname(os.path.abspath(__file__))
VERIF = os.path.dirname(HERE)
sys.path.insert(0, VERIF)
REPO = os.environ.get('VERIF_REPO', '/repo')

CMP_SWAPS = {ast.Lt: [ast.LtE, ast.Gt], ast.LtE: [ast.Lt], ast.Gt: [ast.GtE, ast.Lt], ast.GtE: [ast.Gt],
             ast.Eq: [ast.NotEq], ast.NotEq: [ast.Eq], ast.In: [ast.NotIn], ast.NotIn: [ast.In],
             ast.Is: [ast.IsNot], ast.IsNot: [ast.Is]}
BIN_SWAPS = {ast.Add: [ast.Sub], ast.Sub: [ast.Add], ast.FloorDiv: [ast.Div], ast.Mult: [ast.Add],
             ast.BitAnd: [ast.BitOr], ast.BitOr: [ast.BitAnd]}
STR_SWAPS = {'bin1_id': 'bin2_id', 'bin2_id': 'bin1_id', 'left': 'right', 'right': 'left', 'start': 'end',
             'end': 'start', 'chrom1': 'chrom2', 'chrom2': 'chrom1', 'r+': 'w', 'a': 'w', 'symmetric-upper': 'square',
             'sum': 'mean', 'size': 'count', 'last': 'first', 'reflect': 'drop'}


def footprint(prop, full_only=False):
    """Functions evaluated by the check on the clean tree: {file: [(qualname, lineno, end_lineno)]}.
    full_only: leave out functions the property reads only as plumbing (the calls they make into its
    anchored code) - the rest of such a function belongs to the properties it is anchored in."""
    import importlib
    from cverif.report import Ctx
    mod = importlib.import_module(f'cverif.props.{prop}')
    ctx = Ctx(prop)
    mod.run(ctx)
    out = {}
    named = set()
    for ob in ctx.obligations:
        w = ob.get('where') or ''
        if ' ' in w:
            if full_only and str(ob.get('rule', '')).startswith(('PLUMB.', 'SWEEP.')):
                continue
            named.add(w.split(' ')[-1])
    for q, fa in ctx.A._cache.items():
        fi = fa.fi
        if q not in named:
            continue
        out.setdefault(fi.file, []).append((q, fi.node.lineno, fi.node.end_lineno))
    return out


class Site:
    def __init__(self, path, desc, apply):
        self.path = path
        self.desc = desc
        self.apply = apply      # fn(tree) -> None, mutates a deep copy in place via node index


def _annotation_ids(tree):
    ids = set()
    for n in ast.walk(tree):
        anns = []
        if isinstance(n, ast.arg) and n.annotation is not None:
            anns.append(n.annotation)
        if isinstance(n, (ast.FunctionDef, ast.AsyncFunctionDef)) and n.returns is not None:
            anns.append(n.returns)
        if isinstance(n, ast.AnnAssign):
            anns.append(n.annotation)
        for a in anns:
            for x in ast.walk(a):
                ids.add(id(x))
    return ids


def _index_nodes(tree):
    return list(ast.walk(tree))


def gen_mutants(path, funcs, limit=None):
    """Yield (description, new_source) for single-point mutants inside the given functions."""
    with open(path) as fh:
        src = fh.read()
    tree = ast.parse(src)
    nodes = _index_nodes(tree)
    ranges = [(lo, hi, q) for q, lo, hi in funcs]

    def owner(n):
        ln = getattr(n, 'lineno', None)
        if ln is None:
            return None
        best = None
        for lo, hi, q in ranges:
            if lo <= ln <= hi and (best is None or (hi - lo) < best[0]):
                best = (hi - lo, q)
        return best[1] if best else None

    muts = []       # (index, desc, fn(node_copy, tree_copy))
    ann = _annotation_ids(tree)
    for i, n in enumerate(nodes):
        if id(n) in ann:
            continue
        q = owner(n)
        if q is None:
            continue
        ln = n.lineno
        short = q.split('.')[-1] if '<locals>' not in q else q.split('.')[-3] + '.' + q.split('.')[-1]
        if isinstance(n, ast.Compare):
            for k, op in enumerate(n.ops):
                for new in CMP_SWAPS.get(type(op), []):
                    muts.append((i, f'{short}:{ln} cmp {type(op).__name__}->{new.__name__}',
                                 lambda m, k=k, new=new: m.ops.__setitem__(k, new())))
        elif isinstance(n, ast.BinOp):
            for new in BIN_SWAPS.get(type(n.op), []):
                muts.append((i, f'{short}:{ln} binop {type(n.op).__name__}->{new.__name__}',
                             lambda m, new=new: setattr(m, 'op', new())))
        elif isinstance(n, ast.BoolOp):
            new = ast.Or if isinstance(n.op, ast.And) else ast.And
            muts.append((i, f'{short}:{ln} boolop {type(n.op).__name__}->{new.__name__}',
                         lambda m, new=new: setattr(m, 'op', new())))
        elif isinstance(n, ast.UnaryOp) and isinstance(n.op, (ast.Not, ast.Invert)):
            muts.append((i, f'{short}:{ln} drop {type(n.op).__name__}', 'replace-with-operand'))
        elif isinstance(n, ast.Constant):
            v = n.value
            if isinstance(v, bool):
                muts.append((i, f'{short}:{ln} const {v}->{not v}', lambda m, v=v: setattr(m, 'value', not v)))
            elif isinstance(v, int) and -2 <= v <= 3:
                for d in (1, -1):
                    muts.append((i, f'{short}:{ln} const {v}->{v + d}', lambda m, v=v, d=d: setattr(m, 'value', v + d)))
            elif isinstance(v, str) and v in STR_SWAPS:
                muts.append((i, f'{short}:{ln} str {v!r}->{STR_SWAPS[v]!r}', lambda m, v=v: setattr(m, 'value', STR_SWAPS[v])))
        elif isinstance(n, ast.Name) and isinstance(n.ctx, ast.Load) and n.id[-1:] in '12' and len(n.id) > 1:
            other = n.id[:-1] + ('2' if n.id[-1] == '1' else '1')
            muts.append((i, f'{short}:{ln} name {n.id}->{other}', lambda m, other=other: setattr(m, 'id', other)))
        elif isinstance(n, ast.Slice):
            if n.lower is not None:
                muts.append((i, f'{short}:{ln} slice drop lower', lambda m: setattr(m, 'lower', None)))
            if n.upper is not None:
                muts.append((i, f'{short}:{ln} slice drop upper', lambda m: setattr(m, 'upper', None)))
        elif isinstance(n, (ast.Expr, ast.Assign, ast.AugAssign)) and not (
                isinstance(n, ast.Expr) and isinstance(n.value, ast.Constant)):
            if isinstance(n, ast.Expr) and isinstance(n.value, ast.Call) and 'logger' in ast.unparse(n.value.func):
                continue
            muts.append((i, f'{short}:{ln} delete {type(n).__name__} `{ast.unparse(n)[:50]}`', 'delete-stmt'))
        elif isinstance(n, ast.If) and not n.orelse:
            muts.append((i, f'{short}:{ln} if-body always', lambda m: setattr(m, 'test', ast.Constant(True))))
        elif isinstance(n, ast.Call):
            # swap the first two positional arguments
            if len(n.args) >= 2 and not any(isinstance(a, ast.Starred) for a in n.args[:2]) \
                    and ast.dump(n.args[0]) != ast.dump(n.args[1]):
                muts.append((i, f'{short}:{ln} swap args of {ast.unparse(n.func)[:30]}',
                             lambda m: m.args.__setitem__(slice(0, 2), [m.args[1], m.args[0]])))
            for k, kw in enumerate(n.keywords):
                if kw.arg is not None and not ('logger' in ast.unparse(n.func)):
                    muts.append((i, f'{short}:{ln} drop kw {kw.arg} of {ast.unparse(n.func)[:30]}',
                                 lambda m, k=k: m.keywords.pop(k)))
        elif isinstance(n, ast.Return) and n.value is not None and isinstance(n.value, ast.Tuple) and len(n.value.elts) == 2:
            muts.append((i, f'{short}:{ln} swap returned pair', lambda m: m.value.elts.reverse()))
    if limit and len(muts) > limit:
        # deterministic thinning
        step = len(muts) / limit
        muts = [muts[int(k * step)] for k in range(limit)]
    for i, desc, fn in muts:
        t2 = copy.deepcopy(tree)
        n2 = _index_nodes(t2)[i]
        if fn == 'delete-stmt':
            parent = _find_parent(t2, n2)
            if parent is None:
                continue
            body, idx = parent
            body[idx] = ast.copy_location(ast.Pass(), n2)
        elif fn == 'replace-with-operand':
            parent = _find_parent_expr(t2, n2)
            if parent is None:
                continue
            obj, field, idx = parent
            if idx is None:
                setattr(obj, field, n2.operand)
            else:
                getattr(obj, field)[idx] = n2.operand
        else:
            fn(n2)
        try:
            new_src = ast.unparse(ast.fix_missing_locations(t2))
            compile(new_src, path, 'exec')
        except Exception:
            continue
        if new_src == ast.unparse(tree):
            continue
        yield desc, new_src


def gen_mutants_with_owner(path, funcs, limit=None):
    """(owner qualname, description, new source): owner = innermost footprint function containing the line."""
    ranges = [(lo, hi, q) for q, lo, hi in funcs]
    for desc, new_src in gen_mutants(path, funcs, limit):
        try:
            ln = int(desc.split(' ')[0].rsplit(':', 1)[1])
        except (ValueError, IndexError):
            continue
        best = None
        for lo, hi, q in ranges:
            if lo <= ln <= hi and (best is None or (hi - lo) < best[0]):
                best = (hi - lo, q)
        if best:
            yield best[1], desc, new_src


def run_union(job):
    """Run one mutant against every property whose check reads the owner function."""
    props, path, desc, new_src = job
    rcs = [run_one((p, path, desc, new_src))[3] for p in props]
    rel = os.path.relpath(path, REPO)
    if any(rc == 1 for rc in rcs):
        return rel, desc, 1, props
    if any(rc == 2 for rc in rcs):
        return rel, desc, 2, props
    return rel, desc, 0, props


def main_union(args):
    """--union: a mutant survives only if NO property that reads its function reports it."""
    t0 = time.time()
    owners = {}        # qualname -> set(props)
    files = {}         # path -> {qualname: (lo, hi)}
    for prop in args.props:
        for path, funcs in footprint(prop).items():
            if not path.startswith(REPO):
                continue
            for q, lo, hi in funcs:
                owners.setdefault(q, set()).add(prop)
                files.setdefault(path, {})[q] = (lo, hi)
    jobs = []
    for path, fm in sorted(files.items()):
        funcs = [(q, lo, hi) for q, (lo, hi) in fm.items()]
        for q, desc, new_src in gen_mutants_with_owner(path, funcs, args.max):
            jobs.append((sorted(owners[q]), path, desc, new_src))
    print(f'union sweep: {len(jobs)} mutants of {len(owners)} functions in {len(files)} files; '
          f'{sum(len(j[0]) for j in jobs)} check runs', flush=True)
    with cf.ThreadPoolExecutor(max_workers=args.j) as ex:
        res = list(ex.map(run_union, jobs))
    det = [r for r in res if r[2] == 1]
    err = [r for r in res if r[2] == 2]
    sil = [r for r in res if r[2] == 0]
    triage = {}
    tp = os.path.join(HERE, 'automutate_triage.json')
    if os.path.exists(tp):
        triage = json.load(open(tp))
    judged = triage.get('union', {})
    open_ = [r for r in sil if f'{r[0]}|{r[1]}' not in judged]
    print(f'union: {len(res)} mutants: {len(det)} reported by at least one property, {len(err)} ANALYSIS-ERROR only, '
          f'{len(sil)} survive every property that reads the function ({len(sil) - len(open_)} triaged, {len(open_)} open)')
    for r in open_:
        print(f'   SURVIVOR {r[0]}|{r[1]}   (checked by {",".join(r[3])})')
    for r in err:
        print(f'   ERROR    {r[0]}|{r[1]}')
    print(f'({time.time() - t0:.0f}s)')
    if args.json:
        with open(args.json, 'w') as fh:
            json.dump(dict(mutants=len(res), detected=len(det), analysis_error=len(err), survivors=len(sil),
                           survivors_triaged=len(sil) - len(open_), survivors_open=[f'{r[0]}|{r[1]}' for r in open_]), fh, indent=1)
    return 0


def _find_parent(tree, node):
    for p in ast.walk(tree):
        for field in ('body', 'orelse', 'finalbody'):
            b = getattr(p, field, None)
            if isinstance(b, list):
                for k, x in enumerate(b):
                    if x is node:
                        return b, k
    return None


def _find_parent_expr(tree, node):
    for p in ast.walk(tree):
        for field, val in ast.iter_fields(p):
            if val is node:
                return p, field, None
            if isinstance(val, list):
                for k, x in enumerate(val):
                    if x is node:
                        return p, field, k
    return None


def run_one(job):
    prop, path, desc, new_src = job
    tmp = tempfile.mkdtemp(prefix='cverif-automut-')
    try:
        rel = os.path.relpath(path, REPO)
        for dirpath, dirnames, filenames in os.walk(os.path.join(REPO, 'src', 'cooler')):
            rd = os.path.relpath(dirpath, REPO)
            os.makedirs(os.path.join(tmp, rd), exist_ok=True)
            for fn in filenames:
                if fn.endswith('.py'):
                    os.symlink(os.path.join(dirpath, fn), os.path.join(tmp, rd, fn))
        os.makedirs(os.path.join(tmp, 'docs'), exist_ok=True)
        for fn in os.listdir(os.path.join(REPO, 'docs')):
            if fn.endswith('.rst'):
                os.symlink(os.path.join(REPO, 'docs', fn), os.path.join(tmp, 'docs', fn))
        target = os.path.join(tmp, rel)
        os.unlink(target)
        with open(target, 'w') as fh:
            fh.write(new_src)
        r = subprocess.run([sys.executable, '-B', '-m', 'cverif.main', prop, '--repo', tmp,
                            '--evidence-dir', os.path.join(tmp, 'ev')], cwd=VERIF, capture_output=True, text=True,
                           env=dict(os.environ, VERIF_REPO=tmp, VERIF_SELFTEST='1'))
        return prop, rel, desc, r.returncode
    finally:
        shutil.rmtree(tmp, ignore_errors=True)


def baseline_unparse_ok(prop, files):
    """ast.unparse of an unmodified file must leave the check silent (formatting-insensitivity)."""
    out = []
    for path in files:
        with open(path) as fh:
            src = ast.unparse(ast.parse(fh.read()))
        out.append(run_one((prop, path, 'unparse-only', src)))
    return out


def main():
    ap = argparse.ArgumentParser()
    ap.add_argument('props', nargs='+')
    ap.add_argument('-j', type=int, default=min(16, os.cpu_count() or 4))
    ap.add_argument('--max', type=int, default=None, help='max mutants per file (deterministic thinning)')
    ap.add_argument('--list-silent', action='store_true')
    ap.add_argument('--json', default=None)
    ap.add_argument('--union', action='store_true', help='a mutant counts as silent only if no property that reads its function reports it')
    args = ap.parse_args()
    if args.union:
        return main_union(args)
    triage = {}
    tp = os.path.join(HERE, 'automutate_triage.json')
    if os.path.exists(tp):
        triage = json.load(open(tp))
    summary = {}
    t0 = time.time()
    for prop in args.props:
        fp = footprint(prop, full_only=True)
        jobs = []
        for path, funcs in sorted(fp.items()):
            if not path.startswith(REPO):
                continue
            for desc, new_src in gen_mutants(path, funcs, args.max):
                jobs.append((prop, path, desc, new_src))
        base = baseline_unparse_ok(prop, sorted(p for p in fp if p.startswith(REPO)))
        bad_base = [b for b in base if b[3] != 0]
        with cf.ThreadPoolExecutor(max_workers=args.j) as ex:
            res = list(ex.map(run_one, jobs))
        det = [r for r in res if r[3] == 1]
        err = [r for r in res if r[3] == 2]
        sil = [r for r in res if r[3] == 0]
        judged = dict(triage.get('union', {}))
        judged.update(triage.get(prop, {}))
        untriaged = [r for r in sil if f'{r[1]}|{r[2]}' not in judged]
        summary[prop] = dict(mutants=len(res), detected=len(det), analysis_error=len(err), silent=len(sil),
                             silent_triaged_equivalent=len(sil) - len(untriaged), silent_untriaged=len(untriaged),
                             unparse_only_false_alarms=len(bad_base), functions=sum(len(v) for v in fp.values()))
        print(f'{prop}: {len(res)} mutants of {summary[prop]["functions"]} functions: {len(det)} VIOLATION, {len(err)} ANALYSIS-ERROR, '
              f'{len(sil)} silent ({len(sil) - len(untriaged)} triaged as equivalent/out of scope, {len(untriaged)} open); '
              f'unparse-only false alarms: {len(bad_base)}')
        if args.list_silent:
            for r in untriaged:
                print(f'   SILENT {r[1]}|{r[2]}')
            for r in err:
                print(f'   ERROR  {r[1]}|{r[2]}')
    print(f'({time.time() - t0:.0f}s)')
    if args.json:
        with open(args.json, 'w') as fh:
            json.dump(summary, fh, indent=1)
    return 0


if __name__ == '__main__':
    sys.exit(main())
