"""Self-test variants for C01 (see selftest/run.py)."""
CR = 'src/cooler/create/_create.py'
ING = 'src/cooler/create/_ingest.py'
API = 'src/cooler/api.py'
TBL = 'src/cooler/core/_tableops.py'

VARIANTS = [
    dict(name='store slice one short', edits=[(CR, 'dset[nnz : nnz + n] = chunk[col]', 'dset[nnz : nnz + n - 1] = chunk[col][:-1]')]),
    dict(name='advance inside column loop', edits=[(CR, '                    dset[nnz : nnz + n] = chunk[col]\n                nnz += n', '                    dset[nnz : nnz + n] = chunk[col]\n                    nnz += n')]),
    dict(name='offset reset', edits=[(CR, '                nnz += n\n', '                nnz = n\n')]),
    dict(name='store wrong column', edits=[(CR, 'dset[nnz : nnz + n] = chunk[col]', 'dset[nnz : nnz + n] = chunk[columns[0]]')]),
    dict(name='skip odd chunks', edits=[(CR, '                n = len(chunk[columns[0]])\n', '                n = len(chunk[columns[0]])\n                if i % 2 == 1 and n > 100000:\n                    continue\n')]),
    dict(name='returned nnz is last n', edits=[(CR, '    return nnz, total\n', '    return n, total\n')]),
    dict(name='total counts twice', edits=[(CR, 'total += chunk["count"].sum()', 'total += 2 * chunk["count"].sum()')]),
    dict(name='sort by bin1 only', edits=[(CR, '.sort_values(["bin1_id", "bin2_id"])\n        ordered = True', '.sort_values(["bin1_id"])\n        ordered = True')]),
    dict(name='sort removed', edits=[(CR, 'pixels = pd.DataFrame(pixels).sort_values(["bin1_id", "bin2_id"])\n        ordered = True', 'pixels = pd.DataFrame(pixels)\n        ordered = True')]),
    dict(name='arrayloader strict mask', edits=[(ING, 'mask = (lo + i) <= j\n', 'mask = (lo + i) < j\n')]),
    dict(name='arrayloader local row published', edits=[(ING, '"bin1_id": lo + triu_i,\n                "bin2_id": triu_j,\n                "count": X[triu_i, triu_j],', '"bin1_id": triu_i,\n                "bin2_id": triu_j,\n                "count": X[triu_i, triu_j],')]),
    dict(name='arrayloader mask on local rows', edits=[(ING, 'mask = (lo + i) <= j\n', 'mask = i <= j\n')]),
    dict(name='arrayloader values with global rows', edits=[(ING, '"count": X[triu_i, triu_j],\n            }\n\n\nclass ArrayBlockLoader', '"count": X[lo + triu_i, triu_j],\n            }\n\n\nclass ArrayBlockLoader')]),
    dict(name='engines swapped dense', edits=[(API, '''        if fill_lower:
            engine = FillLowerRangeQuery2D(reader, field, (i0, i1, j0, j1), chunksize)
        else:
            engine = DirectRangeQuery2D(reader, field, (i0, i1, j0, j1), chunksize)
        arr = engine.to_array()''', '''        if not fill_lower:
            engine = FillLowerRangeQuery2D(reader, field, (i0, i1, j0, j1), chunksize)
        else:
            engine = DirectRangeQuery2D(reader, field, (i0, i1, j0, j1), chunksize)
        arr = engine.to_array()''')]),
    dict(name='symm flag inverted', edits=[(API, 'self._is_symm_upper = mode == "symmetric-upper"', 'self._is_symm_upper = mode != "symmetric-upper"')]),
    dict(name='symm default square', edits=[(API, 'mode = self._info.get("storage-mode", "symmetric-upper")\n                self._is_symm_upper', 'mode = self._info.get("storage-mode", "square")\n                self._is_symm_upper')]),
    dict(name='metadata assignment dropped', edits=[(CR, '        if metadata is not None:\n            info["metadata"] = metadata\n        write_info(h5, info)\n', '        write_info(h5, info)\n')]),
    dict(name='write_info dumps empty', edits=[(CR, 'info["metadata"] = json.dumps(info.get("metadata", {}))', 'info["metadata"] = json.dumps({})')]),
    dict(name='assembly only when metadata', edits=[(CR, '        if assembly is not None:\n            info["genome-assembly"] = assembly\n        if metadata is not None:\n            info["metadata"] = metadata\n        write_info(h5, info)\n', '        if metadata is not None:\n            info["genome-assembly"] = assembly\n            info["metadata"] = metadata\n        write_info(h5, info)\n')]),
    dict(name='get one branch open slice', edits=[(TBL, 'data[field] = dset[lo:hi].astype("U")', 'data[field] = dset[lo:].astype("U")')]),
    dict(name='get index from zero', edits=[(TBL, 'index = np.arange(lo, lo + len(next(iter(data.values()))))', 'index = np.arange(0, len(next(iter(data.values()))))')]),
    dict(name='write_pixels gets input columns', edits=[(CR, '        file_path, target, meta.columns, iterable, h5opts, lock\n', '        file_path, target, columns, iterable, h5opts, lock\n')]),
    # refactors
    dict(kind='refactor', name='rename nnz', edits=[(CR, '''    nnz = 0
    total = 0
    for i, chunk in enumerate(iterable):''', '''    offset = 0
    total = 0
    for i, chunk in enumerate(iterable):'''), (CR, '''                    dset.resize((nnz + n,))
                    dset[nnz : nnz + n] = chunk[col]
                nnz += n''', '''                    dset.resize((offset + n,))
                    dset[offset : offset + n] = chunk[col]
                offset += n'''), (CR, '''                if len(grp[col]) != nnz:
                    grp[col].resize((nnz,))''', '''                if len(grp[col]) != offset:
                    grp[col].resize((offset,))'''), (CR, '    return nnz, total\n', '    return offset, total\n')]),
    dict(kind='refactor', name='hi temporary', edits=[(CR, '''                for col, dset in zip(columns, dsets):
                    dset.resize((nnz + n,))
                    dset[nnz : nnz + n] = chunk[col]''', '''                hi = n + nnz
                for col, dset in zip(columns, dsets):
                    dset.resize((hi,))
                    dset[nnz:hi] = chunk[col]''')]),
    dict(kind='refactor', name='loop over columns directly', edits=[(CR, '''                dsets = [grp[col] for col in columns]

                n = len(chunk[columns[0]])
                for col, dset in zip(columns, dsets):
                    dset.resize((nnz + n,))
                    dset[nnz : nnz + n] = chunk[col]''', '''                n = len(chunk[columns[0]])
                for col in columns:
                    dset = grp[col]
                    dset.resize((nnz + n,))
                    dset[nnz : nnz + n] = chunk[col]''')]),
    dict(kind='refactor', name='arrayloader hoist global rows', edits=[(ING, '''            mask = (lo + i) <= j
            triu_i, triu_j = i[mask], j[mask]

            yield {
                "bin1_id": lo + triu_i,''', '''            gi = lo + i
            mask = j >= gi
            triu_i, triu_j = i[mask], j[mask]

            yield {
                "bin1_id": triu_i + lo,''')]),
    dict(kind='refactor', name='emptiness filter', edits=[(CR, '                n = len(chunk[columns[0]])\n', '                n = len(chunk[columns[0]])\n                if n == 0:\n                    continue\n')]),
]
