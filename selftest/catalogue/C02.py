"""Self-test variants for C02."""
CR = 'src/cooler/create/_create.py'
ING = 'src/cooler/create/_ingest.py'
UT = 'src/cooler/util.py'
RED = 'src/cooler/_reduce.py'
FO = 'src/cooler/fileops.py'

VARIANTS = [
    dict(name='index fill upper exclusive', edits=[(CR, '''    for start, _length, value in zip(*rlencode(bin1, 1000000)):
        bin1_offset[curr_val : value + 1] = start''', '''    for start, _length, value in zip(*rlencode(bin1, 1000000)):
        bin1_offset[curr_val : value] = start''')]),
    dict(name='index tail fill removed', edits=[(CR, '    bin1_offset[curr_val:] = nnz\n', '')]),
    dict(name='index array too short', edits=[(CR, 'bin1_offset = np.zeros(n_bins + 1, dtype=BIN1OFFSET_DTYPE)', 'bin1_offset = np.zeros(n_bins, dtype=BIN1OFFSET_DTYPE)')]),
    dict(name='index cursor not advanced past value', edits=[(CR, '''        bin1_offset[curr_val : value + 1] = start
        curr_val = value + 1''', '''        bin1_offset[curr_val : value + 1] = start
        curr_val = value''')]),
    dict(name='index_bins wrong tail', edits=[(CR, '    chrom_offset[curr_val:] = n_bins\n', '    chrom_offset[curr_val:] = n_chroms\n')]),
    dict(name='index_bins fill with length', edits=[(CR, '''    for start, _length, value in zip(*rlencode(chrom_ids)):
        chrom_offset[curr_val : value + 1] = start''', '''    for start, _length, value in zip(*rlencode(chrom_ids)):
        chrom_offset[curr_val : value + 1] = _length''')]),
    dict(name='rlencode carry first value', edits=[(UT, '        last_val = x[-1]\n', '        last_val = x[0]\n')]),
    dict(name='rlencode carry dropped', edits=[(UT, '        last_val = x[-1]\n', '')]),
    dict(name='rlencode starts without block offset', edits=[(UT, 'starts.append(i + locs)', 'starts.append(locs)')]),
    dict(name='rlencode boundary always a start', edits=[(UT, '''        if x[0] != last_val:
            locs = np.r_[0, locs]''', '''        locs = np.r_[0, locs]''')]),
    dict(name='rlencode lengths without closing n', edits=[(UT, 'lengths = np.diff(np.r_[starts, n])', 'lengths = np.diff(np.r_[starts, starts[-1] + 1])')]),
    dict(name='nnz/sum unpack swapped', edits=[(CR, '    nnz, ncontacts = write_pixels(', '    ncontacts, nnz = write_pixels(')]),
    dict(name='nbins off by one', edits=[(CR, '        info["nbins"] = n_bins\n        info["sum"] = ncontacts', '        info["nbins"] = n_bins - 1\n        info["sum"] = ncontacts')]),
    dict(name='bin-type from argument not table', edits=[(CR, '        info["bin-type"] = "fixed" if binsize is not None else "variable"\n        info["bin-size"] = binsize if binsize is not None else "null"\n        info["storage-mode"]', '        info["bin-type"] = "fixed" if binsize else "variable"\n        info["bin-size"] = binsize if binsize is not None else "null"\n        info["storage-mode"]')]),
    dict(name='index_pixels closed with n_bins', edits=[(CR, 'bin1_offset = index_pixels(h5["pixels"], n_bins, nnz)', 'bin1_offset = index_pixels(h5["pixels"], n_bins, n_bins)')]),
    dict(name='validator excess loosened', edits=[(ING, 'is_excess = (chunk["bin1_id"] >= n_bins) | (chunk["bin2_id"] >= n_bins)', 'is_excess = (chunk["bin1_id"] > n_bins) | (chunk["bin2_id"] > n_bins)')]),
    dict(name='validator excess one axis', edits=[(ING, 'is_excess = (chunk["bin1_id"] >= n_bins) | (chunk["bin2_id"] >= n_bins)', 'is_excess = (chunk["bin1_id"] >= n_bins) | (chunk["bin1_id"] >= n_bins)')]),
    dict(name='validator triu non-strict', edits=[(ING, '        is_tril = chunk["bin1_id"] > chunk["bin2_id"]\n        if np.any(is_tril):\n            raise BadInputError("Found bin1_id greater than bin2_id")\n\n    if not isinstance', '        is_tril = chunk["bin1_id"] >= chunk["bin2_id"]\n        if np.any(is_tril):\n            raise BadInputError("Found bin1_id greater than bin2_id")\n\n    if not isinstance')]),
    dict(name='validator dup key one column', edits=[(ING, 'is_dup = chunk.duplicated(["bin1_id", "bin2_id"])', 'is_dup = chunk.duplicated(["bin1_id"])')]),
    dict(name='validator negative and', edits=[(ING, 'is_neg = (chunk["bin1_id"] < 0) | (chunk["bin2_id"] < 0)', 'is_neg = (chunk["bin1_id"] < 0) & (chunk["bin2_id"] < 0)')]),
    dict(name='merger groupby unsorted', edits=[(RED, 'combined.groupby(["bin1_id", "bin2_id"], sort=True)', 'combined.groupby(["bin1_id", "bin2_id"], sort=False)')]),
    dict(name='coarsener groupby unsorted', edits=[(RED, 'chunk.groupby(self.index_columns, sort=True)', 'chunk.groupby(self.index_columns, sort=False)')]),
    dict(name='zero-chunk trim removed', edits=[(CR, '''                if len(grp[col]) != nnz:
                    grp[col].resize((nnz,))''', '''                pass''')]),
    dict(name='trim only first column', edits=[(CR, '''            for col in columns:
                if len(grp[col]) != nnz:
                    grp[col].resize((nnz,))''', '''            for col in columns[:1]:
                if len(grp[col]) != nnz:
                    grp[col].resize((nnz,))''')]),
    dict(name='group renamed in writer only', edits=[(CR, '        grp = h5.create_group("indexes")\n', '        grp = h5.create_group("index")\n')]),
    dict(name='coordinate dtype changed', edits=[('src/cooler/create/_constants.py', 'COORD_DTYPE = np.int32', 'COORD_DTYPE = np.int16')]),
    dict(name='storage-mode only when symmetric', edits=[(CR, '        info["storage-mode"] = "symmetric-upper" if symmetric_upper else "square"\n', '        if symmetric_upper:\n            info["storage-mode"] = "symmetric-upper"\n')], props=['C02', 'C01']),
    dict(name='get_binsize last-bin test dropped', edits=[(UT, '        return binsize if max_last <= binsize else None', '        return binsize')]),
    dict(name='max_size too small', edits=[(CR, '''            if symmetric_upper:
                max_size = n_bins * (n_bins - 1) // 2 + n_bins
            else:
                max_size = n_bins * n_bins
            prepare_pixels(
                grp, n_bins, max_size, meta.columns, dict(meta.dtypes), h5opts
            )

    # Multiprocess''', '''            if symmetric_upper:
                max_size = n_bins * (n_bins - 1) // 2
            else:
                max_size = n_bins * n_bins
            prepare_pixels(
                grp, n_bins, max_size, meta.columns, dict(meta.dtypes), h5opts
            )

    # Multiprocess''')]),
    # refactors
    dict(kind='refactor', name='validator via not-less', edits=[(ING, 'is_excess = (chunk["bin1_id"] >= n_bins) | (chunk["bin2_id"] >= n_bins)', 'is_excess = ~(chunk["bin1_id"] < n_bins) | ~(chunk["bin2_id"] < n_bins)')]),
    dict(kind='refactor', name='index temp variables', edits=[(CR, '''    for start, _length, value in zip(*rlencode(bin1, 1000000)):
        bin1_offset[curr_val : value + 1] = start
        curr_val = value + 1''', '''    for start, _length, value in zip(*rlencode(bin1, 1000000)):
        nxt = 1 + value
        bin1_offset[curr_val:nxt] = start
        curr_val = nxt''')]),
    dict(kind='refactor', name='rlencode concatenate for r_', edits=[(UT, '            locs = np.r_[0, locs]', '            locs = np.concatenate([0, locs])')]),
    dict(kind='refactor', name='info dict built in different order', edits=[(CR, '        info["nchroms"] = n_chroms\n        info["nbins"] = n_bins\n        info["sum"] = ncontacts\n        info["nnz"] = nnz\n', '        info["nnz"] = nnz\n        info["sum"] = ncontacts\n        info["nbins"] = n_bins\n        info["nchroms"] = n_chroms\n')]),
]
