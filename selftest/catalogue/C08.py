"""Self-test variants for C08."""
RED = 'src/cooler/_reduce.py'
VARIANTS = [
    dict(name='edges without stride', edits=[(RED, 'edges.extend(self.old_bin1_offset[c0:c1:factor])', 'edges.extend(self.old_bin1_offset[c0:c1])')], kind='mutant'),
    dict(name='stride factor-1', edits=[(RED, 'edges.extend(self.old_bin1_offset[c0:c1:factor])', 'edges.extend(self.old_bin1_offset[c0:c1:factor - 1])')]),
    dict(name='closing edge dropped', edits=[(RED, '        edges.append(self.old_bin1_offset[-1])\n', '')]),
    dict(name='edges ignore chromosome starts', edits=[(RED, '''        for _chrom, i in self.gs.idmap.items():
            # Respect chrom1 boundaries
            c0 = self.old_chrom_offset[i]
            c1 = self.old_chrom_offset[i + 1]
            edges.extend(self.old_bin1_offset[c0:c1:factor])''', '''        edges.extend(self.old_bin1_offset[:-1:factor])''')]),
    dict(name='pruner returns cumulated lengths', edits=[(RED, '    return edges[idx]\n', '    return cumlen[idx]\n')]),
    dict(name='coarse end one bin late', edits=[(RED, 'end = group["end"].iloc[factor - 1 :: factor].values', 'end = group["end"].iloc[factor::factor].values')]),
    dict(name='remainder group ends at last full bin', edits=[(RED, '                end = np.r_[end, chromsizes[group.name]]', '                end = np.r_[end, end[-1]]')]),
    dict(name='release outside finally', edits=[(RED, '''                results = self._map(self.aggregate, spans[i : i + batchsize])
            finally:
                if batchsize > 1:
                    lock.release()''', '''                results = self._map(self.aggregate, spans[i : i + batchsize])
                if batchsize > 1:
                    lock.release()
            finally:
                pass''')]),
    dict(name='acquire and release predicates differ', edits=[(RED, '''            finally:
                if batchsize > 1:
                    lock.release()''', '''            finally:
                if batchsize > 0:
                    lock.release()''')]),
    dict(name='batches one short', edits=[(RED, 'results = self._map(self.aggregate, spans[i : i + batchsize])', 'results = self._map(self.aggregate, spans[i : i + batchsize - 1])')]),
    dict(name='rebin side 2 by chrom1', edits=[(RED, 'chunk["bin2_id"] = chrom_binoffset[chrom_id2] + rel_bin2', 'chunk["bin2_id"] = chrom_binoffset[chrom_id1] + rel_bin2')]),
    dict(name='rebin by end coordinate', edits=[(RED, '        start2 = chunk["start2"].values\n', '        start2 = chunk["end2"].values\n')]),
    dict(name='symmetric flag inverted', edits=[(RED, 'symmetric_upper=clr.storage_mode == "symmetric-upper",\n            **kwargs,\n        )\n\n    finally:', 'symmetric_upper=clr.storage_mode != "symmetric-upper",\n            **kwargs,\n        )\n\n    finally:')]),
    dict(name='unordered pool map', edits=[(RED, 'map=pool.map if nproc > 1 else map,', 'map=pool.imap_unordered if nproc > 1 else map,')]),
    dict(name='columns not forwarded again', edits=[(RED, '            iterator,\n            columns=columns,\n            dtypes=dtypes,', '            iterator,\n            dtypes=dtypes,')]),
    dict(kind='refactor', name='rename edges', edits=[(RED, '''        edges = []
        for _chrom, i in self.gs.idmap.items():
            # Respect chrom1 boundaries
            c0 = self.old_chrom_offset[i]
            c1 = self.old_chrom_offset[i + 1]
            edges.extend(self.old_bin1_offset[c0:c1:factor])
        edges.append(self.old_bin1_offset[-1])
        self.edges = _greedy_prune_partition(edges, self.chunksize)''', '''        cut_points = []
        for _chrom, cid in self.gs.idmap.items():
            first = self.old_chrom_offset[cid]
            stop = self.old_chrom_offset[1 + cid]
            cut_points.extend(self.old_bin1_offset[first:stop:factor])
        cut_points.append(self.old_bin1_offset[-1])
        self.edges = _greedy_prune_partition(cut_points, self.chunksize)''')]),
    dict(kind='refactor', name='floor division spelling', edits=[(RED, 'rel_bin1 = np.floor(start1 / binsize).astype(int)', 'rel_bin1 = start1 // binsize')]),
]
