"""Self-test variants for C09."""
RED = 'src/cooler/_reduce.py'
ZM = 'src/cooler/cli/zoomify.py'
VARIANTS = [
    dict(name='w back inside the loop', edits=[(RED, '''    with h5py.File(outfile, "w"):
        pass
    for base_binsize in base_resolutions:''', '''    for base_binsize in base_resolutions:'''), (RED, 'h5py.File(outfile, "r+") as dest:  # fmt: skip', 'h5py.File(outfile, "w") as dest:  # fmt: skip')]),
    dict(name='divisibility test inverted', edits=[(RED, '            if target % resn[p] == 0:', '            if target % resn[p] != 0:')]),
    dict(name='multiplier from wrong level', edits=[(RED, '                mult[i] = target // resn[p]', '                mult[i] = target // resn[i - 1]')]),
    dict(name='resolutions prefix changed in writer only', edits=[(RED, '            prefix = f"/resolutions/{base_binsize}"', '            prefix = f"/resolution/{base_binsize}"')]),
    dict(name='duplicate elif again', edits=[(ZM, '            elif res.endswith("b"):', '            elif res.endswith("n"):')]),
    dict(name='suffix arm splits on other suffix', edits=[(ZM, '                res = int(res.split("b")[0])', '                res = int(res.split("n")[0])')]),
    dict(name='underivable level not refused', edits=[(RED, '        if p == -1 and resn[i] not in bases:', '        if p == -1 and resn[i] not in bases and False:')]),
    dict(name='coarsen from base always', edits=[(RED, '        prev_binsize = resn[pred[i]]', '        prev_binsize = resn[0]')]),
    dict(name='mcool magic misspelt', edits=[(RED, '{"format": "HDF5::MCOOL", "format-version": __format_version_mcool__}', '{"format": "HDF5::MCOOLER", "format-version": __format_version_mcool__}')]),
    dict(name='nice progression without 5', edits=[(RED, '        for mul in (2, 5, 10):', '        for mul in (2, 10):')]),
    dict(kind='refactor', name='f-string vs concatenation', edits=[(RED, '            outfile + f"::resolutions/{prev_binsize}",', '            outfile + "::resolutions/" + f"{prev_binsize}",')]),
]
