"""Self-test variants for C03."""
RQ = 'src/cooler/core/_rangequery.py'
SEL = 'src/cooler/core/_selectors.py'
API = 'src/cooler/api.py'

VARIANTS = [
    dict(kind='refactor', name='comes_before first comparator loosened (equivalent: anchored case is tested first)', edits=[(RQ, '    if a0 < b0:\n        return a1 <= b0 if strict else a1 <= b1', '    if a0 <= b0:\n        return a1 <= b0 if strict else a1 <= b1')]),
    dict(kind='refactor', name='comes_before strict loosened (equivalent: adjacent box falls to the overlap arm with an empty second box)', edits=[(RQ, 'return a1 <= b0 if strict else a1 <= b1', 'return a1 < b0 if strict else a1 <= b1')]),
    dict(name='comes_before nonstrict tightened', edits=[(RQ, 'return a1 <= b0 if strict else a1 <= b1', 'return a1 <= b0 if strict else a1 < b1')]),
    dict(name='strict flag dropped', edits=[(RQ, 'if i0 == j0 or _comes_before(i0, i1, j0, j1, strict=True):', 'if i0 == j0 or _comes_before(i0, i1, j0, j1):')]),
    dict(name='use_transpose ge', edits=[(RQ, 'use_transpose = i1 > j1', 'use_transpose = i1 >= j1')], kind='refactor'),
    dict(name='use_transpose and not anchored', edits=[(RQ, 'use_transpose = i1 > j1', 'use_transpose = i1 > j1 and i0 != j0')]),
    dict(name='use_transpose on starts', edits=[(RQ, 'use_transpose = i1 > j1', 'use_transpose = i0 > j0')]),
    dict(name='overlap second box starts at i0', edits=[(RQ, 'self._bboxes = [(i0, j0, j0, j1), (j0, i1, j0, j1)]', 'self._bboxes = [(i0, j0, j0, j1), (i0, i1, j0, j1)]')]),
    dict(name='overlap first box wrong cols', edits=[(RQ, 'self._bboxes = [(i0, j0, j0, j1), (j0, i1, j0, j1)]', 'self._bboxes = [(i0, j0, i0, j1), (j0, i1, j0, j1)]')]),
    dict(kind='refactor', name='nested second box widened (equivalent on upper-triangular data)', edits=[(RQ, 'self._bboxes = [(j0, i0, i0, i1), (i0, i1, i0, j1)]', 'self._bboxes = [(j0, i0, i0, i1), (i0, i1, j0, j1)]')]),
    dict(name='nested fetcher conditional inverted', edits=[(RQ, 'fetchers = [_fetch if use_transpose else _fetch_then_transpose, fetcher]', 'fetchers = [_fetch_then_transpose if use_transpose else _fetch, fetcher]')]),
    dict(name='nested double transpose not removed', edits=[(RQ, 'fetchers = [_fetch if use_transpose else _fetch_then_transpose, fetcher]', 'fetchers = [_fetch_then_transpose, fetcher]')]),
    dict(name='mask upper inclusive', edits=[(RQ, 'mask = (bin2 >= j0) & (bin2 < j1)', 'mask = (bin2 >= j0) & (bin2 <= j1)')]),
    dict(name='mask lower exclusive', edits=[(RQ, 'mask = (bin2 >= j0) & (bin2 < j1)', 'mask = (bin2 > j0) & (bin2 < j1)')]),
    dict(name='duplex bound inclusive', edits=[(RQ, 'result["bin2_id"] < i1\n', 'result["bin2_id"] <= i1\n')]),
    dict(name='duplex diagonal not excluded', edits=[(RQ, '''                to_duplex = (result["bin1_id"] != result["bin2_id"]) & (
                    result["bin2_id"] < i1
                )''', '''                to_duplex = (
                    result["bin2_id"] < i1
                )''')]),
    dict(name='duplex swap tails exchanged', edits=[(RQ, '''                x = np.r_[result["bin1_id"], result["bin2_id"][to_duplex]]
                y = np.r_[result["bin2_id"], result["bin1_id"][to_duplex]]''', '''                x = np.r_[result["bin1_id"], result["bin1_id"][to_duplex]]
                y = np.r_[result["bin2_id"], result["bin2_id"][to_duplex]]''')]),
    dict(name='task reflect and return_index exchanged', edits=[(RQ, '(fetcher, field, bbox, span, True, return_index) for span in spans', '(fetcher, field, bbox, span, return_index, True) for span in spans')]),
    dict(name='direct engine reflects', edits=[(RQ, '(reader, field, bbox, span, False, return_index)', '(reader, field, bbox, span, True, return_index)')]),
    dict(name='transpose is identity', edits=[(RQ, '    dct["bin1_id"], dct["bin2_id"] = y, x\n', '    dct["bin1_id"], dct["bin2_id"] = x, y\n')]),
    dict(name='values masked without row slice', edits=[(RQ, 'data = data_extracted[lo:hi][mask]', 'data = data_extracted[lo : hi + 1][mask[: hi + 1 - lo]]')]),
    dict(name='row slice relative offset wrong', edits=[(RQ, 'hi = self.bin1_offsets[i + 1] - offset_lo', 'hi = self.bin1_offsets[i + 1] - offset_hi')]),
    dict(name='get_spans closing offset dropped', edits=[(RQ, 'arg_prune_partition(self.bin1_offsets[i0 : i1 + 1], chunksize)', 'arg_prune_partition(self.bin1_offsets[i0:i1], chunksize)')]),
    dict(name='get_spans skipping pairs', edits=[(RQ, '        return list(zip(edges[:-1], edges[1:]))\n\n    def get_dict_meta', '        return list(zip(edges[:-1:2], edges[1::2]))\n\n    def get_dict_meta')]),
    dict(name='get_spans emptiness too eager', edits=[(RQ, 'if (i1 - i0 < 1) or (j1 - j0 < 1):', 'if (i1 - i0 <= 1) or (j1 - j0 < 1):')]),
    dict(name='col ids shifted by row start', edits=[(RQ, '''    return coo_matrix(
        (dct[field], (dct["bin1_id"] - row_start, dct["bin2_id"] - col_start)),''', '''    return coo_matrix(
        (dct[field], (dct["bin1_id"] - row_start, dct["bin2_id"] - row_start)),''')]),
    dict(name='shape transposed', edits=[(RQ, '''    from scipy.sparse import coo_matrix

    shape = (row_stop - row_start, col_stop - col_start)''', '''    from scipy.sparse import coo_matrix

    shape = (col_stop - col_start, row_stop - row_start)''')]),
    dict(name='selector col key against rows', edits=[(SEL, 'j0, j1 = self._process_slice(s2, self._shape[1])', 'j0, j1 = self._process_slice(s2, self._shape[0])')]),
    dict(name='selector passes j before i', edits=[(SEL, '''        j0, j1 = self._process_slice(s2, self._shape[1])
        return self._slice(self.field, i0, i1, j0, j1)''', '''        j0, j1 = self._process_slice(s2, self._shape[1])
        return self._slice(self.field, j0, j1, i0, i1)''')]),
    dict(name='process_slice negative stop off by one', edits=[(SEL, '            elif i1 < 0:\n                i1 = nmax + i1', '            elif i1 < 0:\n                i1 = nmax + i1 + 1')]),
    dict(name='process_slice scalar bound loosened', edits=[(SEL, '            if s >= nmax:\n', '            if s > nmax:\n')]),
    dict(name='api engine box transposed', edits=[(API, '''        if fill_lower:
            engine = FillLowerRangeQuery2D(reader, field, (i0, i1, j0, j1), chunksize)
        else:
            engine = DirectRangeQuery2D(reader, field, (i0, i1, j0, j1), chunksize)
        mat = engine.to_sparse_matrix()''', '''        if fill_lower:
            engine = FillLowerRangeQuery2D(reader, field, (j0, j1, i0, i1), chunksize)
        else:
            engine = DirectRangeQuery2D(reader, field, (i0, i1, j0, j1), chunksize)
        mat = engine.to_sparse_matrix()''')]),
    dict(name='arg_prune last cut excluded', edits=[(RQ, 'cuts = np.linspace(lo, hi, num, dtype=int)', 'cuts = np.linspace(lo, hi, num, dtype=int, endpoint=False)')]),
    # refactors
    dict(kind='refactor', name='overlap second box widened (equivalent on upper-triangular data)', edits=[(RQ, 'self._bboxes = [(i0, j0, j0, j1), (j0, i1, j0, j1)]', 'self._bboxes = [(i0, j0, j0, j1), (j0, i1, i0, j1)]')]),
    dict(kind='refactor', name='use_transpose inlined', edits=[(RQ, '''        use_transpose = i1 > j1
        if use_transpose:''', '''        use_transpose = j1 < i1
        if j1 < i1:''')]),
    dict(kind='refactor', name='mask operands reordered', edits=[(RQ, 'mask = (bin2 >= j0) & (bin2 < j1)', 'mask = (j1 > bin2) & (j0 <= bin2)')]),
    dict(kind='refactor', name='concatenate for r_', edits=[(RQ, 'x = np.r_[result["bin1_id"], result["bin2_id"][to_duplex]]', 'x = np.concatenate([result["bin1_id"], result["bin2_id"][to_duplex]])')]),
    dict(kind='refactor', name='emptiness via le', edits=[(RQ, 'if (i1 - i0 < 1) or (j1 - j0 < 1):', 'if i1 <= i0 or j1 <= j0:')]),
]
