"""Self-test variants for C12 / C14."""
API = 'src/cooler/api.py'
VARIANTS = [
    dict(name='bias2 from row range', edits=[(API, '''            bias2 = bias1 if (i0, i1) == (j0, j1) else weights[j0:j1]
            if divisive_weights:
                bias1 = 1 / bias1
                bias2 = 1 / bias2
            arr = arr * np.outer(bias1, bias2)''', '''            bias2 = bias1 if (i0, i1) == (j0, j1) else weights[i0:i1]
            if divisive_weights:
                bias1 = 1 / bias1
                bias2 = 1 / bias2
            arr = arr * np.outer(bias1, bias2)''')]),
    dict(name='outer transposed', edits=[(API, 'arr = arr * np.outer(bias1, bias2)', 'arr = arr * np.outer(bias2, bias1)')]),
    dict(name='sparse uses row weights for columns', edits=[(API, 'mat.data = bias1[mat.row] * bias2[mat.col] * mat.data', 'mat.data = bias1[mat.row] * bias1[mat.col] * mat.data')]),
    dict(name='reciprocal on one factor only', edits=[(API, '''                df2[name + "1"] = 1 / df2[name + "1"]
                df2[name + "2"] = 1 / df2[name + "2"]''', '''                df2[name + "1"] = 1 / df2[name + "1"]''')]),
    dict(name='weight name always weight', edits=[(API, '''    if isinstance(balance, str):
        name = balance
    elif balance:
        name = "weight"''', '''    if balance:
        name = "weight"''')]),
    dict(name='missing column check after read', edits=[(API, '''    if balance and name not in h5["bins"]:
        raise ValueError(
            f"No column 'bins/{name}'"
            + "found. Use ``cooler.balance_cooler`` to "
            + "calculate balancing weights or set balance=False."
        )

    reader = CSRReader(h5["pixels"], h5["indexes/bin1_offset"][:])
''', '''    reader = CSRReader(h5["pixels"], h5["indexes/bin1_offset"][:])
    if balance and name not in h5["bins"]:
        raise ValueError(
            f"No column 'bins/{name}'"
            + "found. Use ``cooler.balance_cooler`` to "
            + "calculate balancing weights or set balance=False."
        )
''')], props=['C12']),
    dict(name='annotate second offset by index[1]', props=['C14', 'C12'], edits=[(API, 'ann2.iloc[bin2 - ann2.index[0]]', 'ann2.iloc[bin2 - ann2.index[1]]')]),
    dict(name='annotate selector slice not inclusive', props=['C14', 'C12'], edits=[(API, 'return sel[beg : end + 1 if end is not None else None]', 'return sel[beg : end if end is not None else None]')]),
    dict(name='column selector with zero length', props=['C14'], edits=[('src/cooler/core/_selectors.py', 'return self.__class__(key, self._slice, self._fetch, self._shape[0])', 'return self.__class__(key, self._slice, self._fetch, 0)')]),
    dict(kind='refactor', name='shortcut removed', edits=[(API, '''            bias2 = bias1 if (i0, i1) == (j0, j1) else weights[j0:j1]
            if divisive_weights:
                bias1 = 1 / bias1
                bias2 = 1 / bias2
            arr = arr * np.outer(bias1, bias2)''', '''            bias2 = weights[j0:j1]
            if divisive_weights:
                bias1 = 1 / bias1
                bias2 = 1 / bias2
            arr = arr * np.outer(bias1, bias2)''')]),
    dict(kind='refactor', name='renamed locals in sparse branch', edits=[(API, '''            weights = h5["bins"][name]
            bias1 = weights[i0:i1]
            bias2 = bias1 if (i0, i1) == (j0, j1) else weights[j0:j1]
            if divisive_weights:
                bias1 = 1 / bias1
                bias2 = 1 / bias2
            mat.data = bias1[mat.row] * bias2[mat.col] * mat.data''', '''            w = h5["bins"][name]
            row_w = w[i0:i1]
            col_w = w[j0:j1]
            if divisive_weights:
                col_w = 1 / col_w
                row_w = 1 / row_w
            mat.data = mat.data * col_w[mat.col] * row_w[mat.row]''')]),
    dict(kind='refactor', name='if-else arms swapped', props=['C12', 'C01'], edits=[(API, '''        if fill_lower:
            engine = FillLowerRangeQuery2D(reader, field, (i0, i1, j0, j1), chunksize)
        else:
            engine = DirectRangeQuery2D(reader, field, (i0, i1, j0, j1), chunksize)
        arr = engine.to_array()''', '''        if not fill_lower:
            engine = DirectRangeQuery2D(reader, field, (i0, i1, j0, j1), chunksize)
        else:
            engine = FillLowerRangeQuery2D(reader, field, (i0, i1, j0, j1), chunksize)
        arr = engine.to_array()''')]),
]
