"""Self-test variants for C06."""
CR = 'src/cooler/create/_create.py'
RED = 'src/cooler/_reduce.py'
VARIANTS = [
    dict(name='starts not carried', edits=[(RED, '            logger.info(f"records consumed: {stops}")\n            starts = stops\n', '            logger.info(f"records consumed: {stops}")\n')]),
    dict(name='stops one row early', edits=[(RED, 'stops = [index[bin1_id] for index in indexes]', 'stops = [index[bin1_id - 1] for index in indexes]')]),
    dict(name='groupby row only', edits=[(RED, 'combined.groupby(["bin1_id", "bin2_id"], sort=True)', 'combined.groupby(["bin1_id"], sort=True)')]),
    dict(name='singleton slices filtered', edits=[(RED, '                if (stop - start) > 0\n', '                if (stop - start) > 1\n')]),
    dict(name='partition skips first epoch', edits=[(RED, '        for bin1_id in bin1_partition[1:]:', '        for bin1_id in bin1_partition[2:]:')]),
    dict(name='tempfile never deleted', edits=[(CR, '''    tf = tempfile.NamedTemporaryFile(
        suffix=".multi.cool", delete=delete, dir=temp_dir
    )
    temp_files.append(tf)
    uris = []''', '''    tf = tempfile.NamedTemporaryFile(
        suffix=".multi.cool", delete=False, dir=temp_dir
    )
    temp_files.append(tf)
    uris = []''')]),
    dict(name='fan-in max removed', edits=[(CR, 'edges = np.linspace(0, n, max(int(np.sqrt(n)), 2), dtype=int)', 'edges = np.linspace(0, n, int(np.sqrt(n)), dtype=int)')]),
    dict(name='forced progress dropped', edits=[(RED, '        if hi == lo:\n            # This means number of records to nearest mark exceeds `bufsize`.\n            # Check for oversized chunks afterwards.\n            hi += 1\n', '')]),
    dict(name='combined index misses first input', edits=[(RED, '    for i in range(len(indexes)):\n        combined_index += indexes[i]', '    for i in range(1, len(indexes)):\n        combined_index += indexes[i]')]),
    dict(name='chunk groups collide', edits=[(CR, '        uri = tf.name + "::" + str(i)\n', '        uri = tf.name + "::" + str(i % 100)\n')]),
    dict(name='validator flags not forwarded to temp coolers', edits=[(CR, '        create(uri, bins, chunk, columns=columns, dtypes=dtypes, mode="a", **kwargs)\n\n    # Merge passes', '        create(uri, bins, chunk, columns=columns, dtypes=dtypes, mode="a")\n\n    # Merge passes')]),
    dict(name='final merge ignores caller mode', edits=[(CR, '    create(cool_uri, bins, chunks, columns=columns, dtypes=dtypes, mode=mode, **kwargs)', '    create(cool_uri, bins, chunks, columns=columns, dtypes=dtypes, mode="w", **kwargs)')]),
    dict(name='second pass merges first-pass uris', edits=[(CR, '        final_uris = uris2\n', '        final_uris = uris\n')]),
    dict(name='default agg mean', edits=[(RED, '        self.agg = {col: "sum" for col in self.columns}\n        if agg is not None:\n            self.agg.update(agg)\n\n        # check compatibility', '        self.agg = {col: "mean" for col in self.columns}\n        if agg is not None:\n            self.agg.update(agg)\n\n        # check compatibility')]),
    dict(kind='refactor', name='comprehension as loop var rename', edits=[(RED, 'stops = [index[bin1_id] for index in indexes]', 'stops = [offs[bin1_id] for offs in indexes]')]),
    dict(kind='refactor', name='rename lo/hi in breakpoints', edits=[(RED, '''        if hi == lo:
            # This means number of records to nearest mark exceeds `bufsize`.
            # Check for oversized chunks afterwards.
            hi += 1''', '''        if lo == hi:
            hi = hi + 1''')]),
]
