"""Self-test variants for C05."""
ING = 'src/cooler/create/_ingest.py'
UT = 'src/cooler/util.py'
VARIANTS = [
    dict(name='negative guard dropped', edits=[(ING, '        is_neg = (anchor1 < 0) | (anchor2 < 0)\n        if np.any(is_neg):', '        is_neg = (anchor1 < 0) | (anchor2 < 0)\n        if False and np.any(is_neg):')]),
    dict(name='upper guard weakened further', edits=[(ING, 'is_excess = (anchor1 > chromsizes1) | (anchor2 > chromsizes2)', 'is_excess = (anchor1 > chromsizes1 + 1) | (anchor2 > chromsizes2 + 1)')]),
    dict(name='anchor2 shift dropped', edits=[(ING, '        anchor1 -= 1\n        anchor2 -= 1\n', '        anchor1 -= 1\n')]),
    dict(name='side 2 uses chrom1 offsets', edits=[(ING, 'chunk["bin2_id"] = chrom_binoffset[chrom2_ids] + anchor2 // binsize', 'chunk["bin2_id"] = chrom_binoffset[chrom1_ids] + anchor2 // binsize')]),
    dict(name='searchsorted side left', edits=[(ING, '''                    start_abspos[lo:hi], chrom_abspos[cid1] + pos1, side="right"
                )''', '''                    start_abspos[lo:hi], chrom_abspos[cid1] + pos1, side="left"
                )''')]),
    dict(name='drop arm forgets anchor2', edits=[(ING, '                anchor1 = anchor1[mask]\n                anchor2 = anchor2[mask]\n', '                anchor1 = anchor1[mask]\n')]),
    dict(name='reflect without anchor swap', edits=[(ING, '                anchor1[is_tril], anchor2[is_tril] = anchor2[is_tril], anchor1[is_tril]\n', '')]),
    dict(name='is_tril non-strict', edits=[(ING, '(chrom1_ids == chrom2_ids) & (anchor1 > anchor2)', '(chrom1_ids == chrom2_ids) & (anchor1 >= anchor2)')]),
    dict(name='is_tril ignores chromosomes', edits=[(ING, '''        is_tril = (chrom1_ids > chrom2_ids) | (
            (chrom1_ids == chrom2_ids) & (anchor1 > anchor2)
        )''', '''        is_tril = (
            (chrom1_ids == chrom2_ids) & (anchor1 > anchor2)
        )''')]),
    dict(name='size to count', edits=[(ING, 'agg["bin1_id"] = "size"', 'agg["bin1_id"] = "count"')]),
    dict(name='pixels shift one column', edits=[(ING, '        chunk[bin1_field] -= 1\n        chunk[bin2_field] -= 1\n', '        chunk[bin1_field] -= 1\n')]),
    dict(name='pixels swap dropped for second', edits=[(ING, '''                ) = (
                    chunk.loc[is_tril, bin2_field],
                    chunk.loc[is_tril, bin1_field],
                )''', '''                ) = (
                    chunk.loc[is_tril, bin2_field],
                    chunk.loc[is_tril, bin2_field],
                )''')]),
    dict(name='unknown chrom drop forgets chrom2', edits=[(ING, '        chrom1_ids = chrom1_ids[mask]\n        chrom2_ids = chrom2_ids[mask]\n        chunk = chunk[mask].copy()\n\n    # Handle empty', '        chrom1_ids = chrom1_ids[mask]\n        chunk = chunk[mask].copy()\n\n    # Handle empty')]),
    dict(name='binoffset without leading zero', edits=[(UT, 'self.chrom_binoffset = np.r_[0, np.cumsum(nbins_per_chrom)]', 'self.chrom_binoffset = np.cumsum(nbins_per_chrom)')]),
    dict(name='abspos from bin counts', edits=[(UT, 'self.chrom_abspos = np.r_[0, np.cumsum(chromsizes.values)]', 'self.chrom_abspos = np.r_[0, np.cumsum(nbins_per_chrom)]')]),
    dict(name='tabix decr twice', edits=[(ING, '                        bin2_id = chrom_binoffset[cid2] + (pos2 // binsize)\n\n                    accumulator[bin2_id] += 1\n\n                if not accumulator:\n                    continue\n\n                rows.append(', '                        bin2_id = chrom_binoffset[cid2] + ((pos2 - decr) // binsize)\n\n                    accumulator[bin2_id] += 1\n\n                if not accumulator:\n                    continue\n\n                rows.append(')]),
    dict(name='tabix accumulator never cleared', edits=[(ING, '                accumulator.clear()\n\n        logger.info(f"Finished {chrom1}:{start}-{end}|*")\n\n        return pd.concat(rows, axis=0) if len(rows) else None\n\n    def __iter__(self) -> Iterator[dict[str, np.ndarray]]:\n        granges = balanced_partition(self.gs, self.n_chunks, self.file_contigs)\n        for df in self._map(self.aggregate, granges):\n            if df is not None:\n                yield {k: v.values for k, v in df.items()}\n\n\nclass PairixAggregator', '        logger.info(f"Finished {chrom1}:{start}-{end}|*")\n\n        return pd.concat(rows, axis=0) if len(rows) else None\n\n    def __iter__(self) -> Iterator[dict[str, np.ndarray]]:\n        granges = balanced_partition(self.gs, self.n_chunks, self.file_contigs)\n        for df in self._map(self.aggregate, granges):\n            if df is not None:\n                yield {k: v.values for k, v in df.items()}\n\n\nclass PairixAggregator')]),
    dict(name='preset pairs anchored on start', edits=[(ING, '        "anchor_field": "pos",', '        "anchor_field": "start",')]),
    dict(name='read_csv names no longer sorted', edits=[('src/cooler/cli/cload.py', '    input_field_names = sorted(input_field_names, key=input_field_numbers.get)\n', '')]),
    dict(kind='refactor', name='floor_divide spelled with np.floor', edits=[(ING, 'chunk["bin1_id"] = chrom_binoffset[chrom1_ids] + anchor1 // binsize', 'chunk["bin1_id"] = chrom_binoffset[chrom1_ids] + np.floor(anchor1 / binsize).astype(int)')]),
    dict(kind='refactor', name='temporaries in variable path', edits=[(ING, '''            lo = chrom_binoffset[cid2]
            hi = chrom_binoffset[cid2 + 1]
            bin2_ids.append(
                lo
                + np.searchsorted(
                    start_abspos[lo:hi], chrom_abspos[cid2] + pos2, side="right"
                )
                - 1
            )''', '''            lo2 = chrom_binoffset[cid2]
            hi2 = chrom_binoffset[1 + cid2]
            abs2 = pos2 + chrom_abspos[cid2]
            k2 = np.searchsorted(start_abspos[lo2:hi2], abs2, side="right")
            bin2_ids.append(k2 + lo2 - 1)''')]),
]
