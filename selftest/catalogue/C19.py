"""Self-test variants for C19 / C20 / C16."""
UT = 'src/cooler/util.py'
VARIANTS = [
    dict(name='float between numeral and int', edits=[(UT, '''    try:
        value = Decimal(value)
    except InvalidOperation as e:
        raise ValueError(f"Invalid numeric value '{value}'") from e''', '''    value = float(value)''')]),
    dict(name='unit table entry changed', edits=[(UT, '    elif unit in ("M", "MB"):\n        value *= 1000000\n', '    elif unit in ("M", "MB"):\n        value *= 1024000\n')]),
    dict(name='unknown unit returns', edits=[(UT, '''    else:
        raise ValueError(f"Unknown unit '{unit}'")
    return int(value)''', '''    return int(value)''')]),
    dict(name='uri prefix test inverted', edits=[(UT, '        if not group_path.startswith("/"):\n            group_path = "/" + group_path', '        if group_path.startswith("/"):\n            group_path = "/" + group_path')]),
    dict(name='uri more than two parts accepted', edits=[(UT, '''    elif len(parts) == 2:
        file_path, group_path = parts
        if not group_path.startswith("/"):
            group_path = "/" + group_path
    else:
        raise ValueError("Invalid Cooler URI string")''', '''    else:
        file_path, group_path = parts[0], parts[1]
        if not group_path.startswith("/"):
            group_path = "/" + group_path''')]),
    dict(name='COORD without fractional part', edits=[(UT, r'("COORD", r"[0-9,]+(\.[0-9]*)?(?:[a-z]+)?"),', r'("COORD", r"[0-9,]+(?:[a-z]+)?"),')]),
    dict(name='token order changed', edits=[(UT, r'''            ("HYPHEN", r"-"),
            ("COORD", r"[0-9,]+(\.[0-9]*)?(?:[a-z]+)?"),
            ("OTHER", r".+"),''', r'''            ("OTHER", r".+"),
            ("HYPHEN", r"-"),
            ("COORD", r"[0-9,]+(\.[0-9]*)?(?:[a-z]+)?"),''')]),
    dict(name='binnify floor', props=['C20'], edits=[(UT, '        n_bins = int(np.ceil(clen / binsize))', '        n_bins = int(np.floor(clen / binsize))')]),
    dict(name='binnify last edge not replaced', props=['C20'], edits=[(UT, '        binedges[-1] = clen\n', '')]),
    dict(name='binnify start end swapped', props=['C20'], edits=[(UT, '{"chrom": [chrom] * n_bins, "start": binedges[:-1], "end": binedges[1:]},\n            columns=["chrom", "start", "end"],\n        )\n\n    bintable', '{"chrom": [chrom] * n_bins, "start": binedges[1:], "end": binedges[:-1]},\n            columns=["chrom", "start", "end"],\n        )\n\n    bintable')]),
    dict(name='chromsizes keep first', props=['C20'], edits=[(UT, '        bins.drop_duplicates(["chrom"], keep="last")[["chrom", "end"]]\n        .reset_index(drop=True)\n        .rename(columns={"chrom": "name", "end": "length"})\n    )\n    chroms, lengths = list(chromtable["name"]), list(chromtable["length"])\n    return pd.Series(index=chroms, data=lengths)', '        bins.drop_duplicates(["chrom"], keep="first")[["chrom", "end"]]\n        .reset_index(drop=True)\n        .rename(columns={"chrom": "name", "end": "length"})\n    )\n    chroms, lengths = list(chromtable["name"]), list(chromtable["length"])\n    return pd.Series(index=chroms, data=lengths)')]),
    dict(name='get_binsize lt instead of le', props=['C20'], kind='refactor', edits=[(UT, '        return binsize if max_last <= binsize else None', '        return binsize if not (max_last > binsize) else None')]),
    dict(kind='refactor', name='Fraction instead of Decimal', edits=[(UT, 'from decimal import Decimal, InvalidOperation\n', 'from decimal import Decimal, InvalidOperation\nfrom fractions import Fraction\n'), (UT, '        value = Decimal(value)\n', '        value = Fraction(value)\n')]),
    dict(kind='refactor', name='ceil via negated floor division', props=['C20'], edits=[(UT, '        n_bins = int(np.ceil(clen / binsize))', '        n_bins = -(-clen // binsize)')]),
]
