"""Self-test variants for C10 / C11."""
BAL = 'src/cooler/_balance.py'
PAR = 'src/cooler/parallel.py'
VARIANTS = [
    dict(name='zero_diags inclusive', edits=[(BAL, 'mask = np.abs(pixels["bin1_id"] - pixels["bin2_id"]) < n_diags', 'mask = np.abs(pixels["bin1_id"] - pixels["bin2_id"]) <= n_diags')]),
    dict(name='min_nnz comparator', edits=[(BAL, '        bias[marg_nnz < min_nnz] = 0', '        bias[marg_nnz <= min_nnz] = 0')]),
    dict(name='nan marking dropped in transonly', edits=[(BAL, '''    scale = nzmarg.mean()
    bias[bias == 0] = np.nan
    if rescale_marginals:
        bias /= np.sqrt(scale)

    return bias, scale, var


def balance_cooler(''', '''    scale = nzmarg.mean()
    if rescale_marginals:
        bias /= np.sqrt(scale)

    return bias, scale, var


def balance_cooler(''')]),
    dict(name='sqrt dropped in cis sweep', edits=[(BAL, '            bias[lo:hi] /= np.sqrt(scale)', '            bias[lo:hi] /= scale')]),
    dict(name='zero_cis mask inverted', edits=[(BAL, '''def _zero_cis(chunk, data):
    chrom_ids = chunk["bins"]["chrom"]
    pixels = chunk["pixels"]
    mask = chrom_ids[pixels["bin1_id"]] == chrom_ids[pixels["bin2_id"]]''', '''def _zero_cis(chunk, data):
    chrom_ids = chunk["bins"]["chrom"]
    pixels = chunk["pixels"]
    mask = chrom_ids[pixels["bin1_id"]] != chrom_ids[pixels["bin2_id"]]''')]),
    dict(name='convergence le', edits=[(BAL, '''        var = nzmarg.var()
        logger.info(f"variance is {var}")
        if var < tol:
            break
    else:
        warnings.warn(
            "Iteration limit reached without convergence.",
            ConvergenceWarning,
            stacklevel=1,
        )

    scale = nzmarg.mean()
    bias[bias == 0] = np.nan
    if rescale_marginals:
        bias /= np.sqrt(scale)

    return bias, scale, var


def _balance_cisonly(''', '''        var = nzmarg.var()
        logger.info(f"variance is {var}")
        if var <= tol:
            break
    else:
        warnings.warn(
            "Iteration limit reached without convergence.",
            ConvergenceWarning,
            stacklevel=1,
        )

    scale = nzmarg.mean()
    bias[bias == 0] = np.nan
    if rescale_marginals:
        bias /= np.sqrt(scale)

    return bias, scale, var


def _balance_cisonly(''')]),
    dict(name='stage writes chunk', props=['C11'], edits=[(BAL, '''def _binarize(chunk, data):
    data[data != 0] = 1
    return data''', '''def _binarize(chunk, data):
    chunk["pixels"]["count"][data != 0] = 1
    data[data != 0] = 1
    return data''')]),
    dict(name='init without copy', props=['C11', 'C10'], edits=[(BAL, '    return np.copy(chunk["pixels"]["count"])', '    return chunk["pixels"]["count"]')]),
    dict(name='fold with sub', props=['C11', 'C10'], edits=[(BAL, 'from operator import add\n', 'from operator import sub as add\n')]),
    dict(name='getter reads one record short', props=['C11'], edits=[(PAR, 'chunk["pixels"] = get(grp["pixels"], lo, hi, as_dict=True)', 'chunk["pixels"] = get(grp["pixels"], lo, hi - 1, as_dict=True)')]),
    dict(name='pipe mutates shared stage list', props=['C11'], edits=[(PAR, '        other.funcs = list(self.funcs)\n', '        other.funcs = self.funcs\n')]),
    dict(name='partition min dropped', props=['C11'], edits=[('src/cooler/util.py', '    return ((i, min(i + step, stop)) for i in range(start, stop, step))', '    return ((i, i + step) for i in range(start, stop, step))')]),
    dict(kind='refactor', name='np.add for operator.add is not accepted - but renaming locals is', props=['C10', 'C11'], edits=[(BAL, '''        nzmarg = marg[marg != 0]
        if not len(nzmarg):
            scale = np.nan
            bias[:] = np.nan
            var = 0.0
            break

        marg = marg / nzmarg.mean()
        marg[marg == 0] = 1
        bias /= marg

        var = nzmarg.var()
        logger.info(f"variance is {var}")
        if var < tol:
            break
    else:
        warnings.warn(
            "Iteration limit reached without convergence.",
            ConvergenceWarning,
            stacklevel=1,
        )

    scale = nzmarg.mean()
    bias[bias == 0] = np.nan
    if rescale_marginals:
        bias /= np.sqrt(scale)

    return bias, scale, var


def _balance_cisonly(''', '''        nonzero = marg[marg != 0]
        if not len(nonzero):
            scale = np.nan
            bias[:] = np.nan
            var = 0.0
            break

        marg = marg / nonzero.mean()
        marg[marg == 0] = 1
        bias /= marg

        var = nonzero.var()
        logger.info(f"variance is {var}")
        if tol > var:
            break
    else:
        warnings.warn(
            "Iteration limit reached without convergence.",
            ConvergenceWarning,
            stacklevel=1,
        )

    scale = nonzero.mean()
    bias[bias == 0] = np.nan
    if rescale_marginals:
        bias /= np.sqrt(scale)

    return bias, scale, var


def _balance_cisonly(''')]),
]
