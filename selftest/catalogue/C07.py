"""Self-test variants for C07."""
RED = 'src/cooler/_reduce.py'
VARIANTS = [
    dict(name='resolution refusal becomes warning', edits=[(RED, '                raise ValueError("Coolers must have the same resolution")', '                warnings.warn("Coolers must have the same resolution")')]),
    dict(name='mixed mode check dropped', edits=[(RED, '''    else:
        raise ValueError("Cannot merge symmetric and non-symmetric coolers.")''', '''    else:
        symmetric_upper = True''')]),
    dict(name='dtype of first input only', edits=[(RED, 'dtypes[col] = np.result_type(*dtype_map[col])', 'dtypes[col] = dtype_map[col][0]')]),
    dict(name='assembly not forwarded', edits=[(RED, '        assembly=assembly,\n        symmetric_upper=symmetric_upper,\n        **kwargs,\n    )\n\n\ndef _greedy', '        symmetric_upper=symmetric_upper,\n        **kwargs,\n    )\n\n\ndef _greedy')]),
    dict(name='chromsizes compared for first pair only', edits=[(RED, '            for i in range(1, len(coolers)):\n                if not np.all(coolers[i].chromsizes == chromsizes):', '            for i in range(1, 2):\n                if not np.all(coolers[i].chromsizes == chromsizes):')]),
    dict(name='bin table length only', edits=[(RED, 'if (len(bins2) != len(bins)) or not np.all(bins2 == bins):', 'if (len(bins2) != len(bins)):')]),
    dict(name='missing column tolerated', edits=[(RED, '''            if col not in pixel_dtypes:
                raise ValueError(
                    f"Pixel value column '{col}' not found in "
                    f"input '{clr.filename}'."
                )
            else:
                dtype_map[col].append(pixel_dtypes[col])''', '''            if col in pixel_dtypes:
                dtype_map[col].append(pixel_dtypes[col])''')]),
    dict(kind='refactor', name='set comprehension as loop', edits=[(RED, '            if len({c.binsize for c in coolers}) > 1:', '            if 1 < len({clr.binsize for clr in coolers}):')]),
]
