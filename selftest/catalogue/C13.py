"""Self-test variants for C13 / C15 / C17 / C18."""
CR = 'src/cooler/create/_create.py'
FO = 'src/cooler/fileops.py'
VARIANTS = [
    dict(name='write_info before write_pixels', edits=[(CR, '''    logger.info("Writing pixels")
    target = posixpath.join(group_path, "pixels")''', '''    with h5py.File(file_path, "r+") as f:
        write_info(f[group_path], {"nbins": n_bins, "nnz": 0})
    logger.info("Writing pixels")
    target = posixpath.join(group_path, "pixels")''')]),
    dict(name='validator mapped on a copy that is dropped', edits=[(CR, '        iterable = map(validator, iterable)\n', '        checked = map(validator, iterable)\n')]),
    dict(name='parent group deleted', edits=[(CR, '''            except ValueError:
                del f[group_path]
                f.create_group(group_path)

    # Write chroms, bins and pixels''', '''            except ValueError:
                del f[posixpath.dirname(group_path)]
                f.create_group(group_path)

    # Write chroms, bins and pixels''')], props=['C13', 'C15']),
    dict(name='first open constant w', edits=[(CR, '''    # Create root group
    with h5py.File(file_path, mode) as f:
        logger.info(f'Creating cooler at "{file_path}::{group_path}"')
        if group_path == "/":
            for name in ["chroms", "bins", "pixels", "indexes"]:''', '''    # Create root group
    with h5py.File(file_path, "w") as f:
        logger.info(f'Creating cooler at "{file_path}::{group_path}"')
        if group_path == "/":
            for name in ["chroms", "bins", "pixels", "indexes"]:''')], props=['C13', 'C15']),
    dict(name='stream advanced inside with', edits=[(CR, '''    nnz = 0
    total = 0
    for i, chunk in enumerate(iterable):
        if isinstance(chunk, pd.DataFrame):
            chunk = {k: v.values for k, v in chunk.items()}

        try:
            if lock is not None:
                lock.acquire()

            logger.debug(f"writing chunk {i}")

            with h5py.File(filepath, "r+") as fw:
                grp = fw[grouppath]''', '''    nnz = 0
    total = 0
    with h5py.File(filepath, "r+") as fw:
      for i, chunk in enumerate(iterable):
        if isinstance(chunk, pd.DataFrame):
            chunk = {k: v.values for k, v in chunk.items()}

        try:
            if lock is not None:
                lock.acquire()

            logger.debug(f"writing chunk {i}")

            if True:
                grp = fw[grouppath]''')]),
    dict(name='triucheck default off', edits=[(CR, '''    boundscheck=True,
    triucheck=True,
    dupcheck=True,
    ensure_sorted=False,
    lock=None,
    append=False,''', '''    boundscheck=True,
    triucheck=False,
    dupcheck=True,
    ensure_sorted=False,
    lock=None,
    append=False,''')]),
    dict(name='is_cooler dangling-link handler removed', props=['C15', 'C13'], edits=[(FO, '''        try:
            grp = f[grouppath]
        except KeyError:
            return False  # dangling link
        return _is_cooler(grp)''', '''        return _is_cooler(f[grouppath])''')]),
    dict(name='visititems names children by obj.name again', props=['C15'], edits=[(FO, '''                name = path.rstrip("/") + "/" + key''', '''                name = child.obj.name''')]),
    dict(name='visititems no longer skips dangling children', props=['C15'], edits=[(FO, '''                if child.obj is None:
                    continue  # dangling link
''', '')]),
    dict(name='rename deletes before link', props=['C15'], edits=[(FO, '''                src[dst_group] = src[src_group]
                if rename:
                    del src[src_group]''', '''                if rename:
                    obj = src[src_group]
                    del src[src_group]
                    src[dst_group] = obj
                else:
                    src[dst_group] = src[src_group]''')]),
    dict(name='rename deletes destination', props=['C15'], edits=[(FO, '                    del src[src_group]\n', '                    del src[dst_group]\n')]),
    dict(name='hard link across files no longer refused', props=['C15'], edits=[(FO, '''            if link:
                raise OSError("Can't hard link between two different files.")
            elif soft_link:''', '''            if soft_link or link:''')]),
    dict(name='destination truncated when it exists', props=['C15'], edits=[(FO, '    if not os.path.isfile(dst_path) or overwrite:', '    if os.path.isfile(dst_path) or overwrite:')]),
    dict(name='scool pixels by constant key', props=['C17'], edits=[(CR, '            cell_name_pixels_dict[key],\n', '            cell_name_pixels_dict[cell_names[0]],\n')]),
    dict(name='scool bins/start written instead of linked', props=['C17'], edits=[(CR, '            dst[dst_group]["bins/start"] = src["bins/start"]\n', '            dst[dst_group]["bins"].create_dataset("start", data=bins["start"])\n')]),
    dict(name='scool ncells off by one', props=['C17'], edits=[(CR, 'info["ncells"] = len(cell_name_pixels_dict)', 'info["ncells"] = len(cell_name_pixels_dict) - 1')]),
    dict(name='rename deletes bins/start', props=['C18'], edits=[(CR, '    del grp["chroms/name"]\n', '    del grp["chroms/name"]\n    del grp["bins/start"]\n')]),
    dict(name='rename enum from old names', props=['C18'], edits=[(CR, '        idmap = dict(zip(new_names, range(n_chroms)))\n        chrom_ids = bins["chrom"].cat.codes', '        idmap = dict(zip(chroms.index.values, range(n_chroms)))\n        chrom_ids = bins["chrom"].cat.codes')]),
    dict(name='refresh dropped', props=['C18'], edits=[(CR, '        _rename_chroms(f, rename_dict, h5opts)\n    clr._refresh()\n', '        _rename_chroms(f, rename_dict, h5opts)\n')]),
    dict(name='refresh inside with', props=['C18'], edits=[(CR, '        _rename_chroms(f, rename_dict, h5opts)\n    clr._refresh()\n', '        _rename_chroms(f, rename_dict, h5opts)\n        clr._refresh()\n')]),
    dict(kind='refactor', name='membership test spelt with not (... in ...)', props=['C15', 'C13'], edits=[(FO, '''        if grouppath not in f:
            return False
        try:''', '''        if not (grouppath in f):
            return False
        try:''')]),
    dict(kind='refactor', name='logging changes in create', props=['C13', 'C15', 'C17', 'C01', 'C02'], edits=[(CR, '        logger.info("Writing indexes")\n', '        logger.debug("indexes")\n')]),
]
