#!/bin/sh
# usage: tools/try_benign.sh <patch.diff>  -- run ALL 20 checks on a scratch copy with a (behaviour-preserving) patch; all must exit 0
P="$1"
T=$(mktemp -d /tmp/cverif-benign-XXXXXX)
mkdir -p $T/src $T/docs && cp -r /repo/src/cooler $T/src/ && cp /repo/docs/*.rst $T/docs/ 2>/dev/null
(cd $T && patch -s -p1 < "$P") || { echo "PATCH FAILED $P"; rm -rf $T; exit 3; }
cd /verif
for p in C01 C02 C03 C04 C05 C06 C07 C08 C09 C10 C11 C12 C13 C14 C15 C16 C17 C18 C19 C20; do echo $p; done | xargs -P ${JOBS:-4} -I{} sh -c "/venv/bin/python -B -m cverif.main {} --repo $T --evidence-dir $T/ev > $T/out.{} 2>&1; echo \"{} rc=\$?\"" | grep -v "rc=0" | sort
for f in $T/out.C*; do grep -A3 "^   rule\|^UNREC\|^ANALYSIS" $f | cut -c1-${W:-300}; done | awk '!seen[$0]++' | head -${LINES_MAX:-40}
rm -rf $T
