#!/bin/sh
# usage: tools/run_benign.sh  -- every stored behaviour-preserving maintenance change (benign/<id>/patch.diff) is applied to a
# scratch copy and ALL 20 checks are run on it; prints SILENT <id> or ALARM <id> <properties that are not silent>
cd /verif
for d in benign/C*/; do
  id=$(basename $d)
  T=$(mktemp -d /tmp/cverif-benign-XXXXXX)
  mkdir -p $T/src $T/docs && cp -r /repo/src/cooler $T/src/ && cp /repo/docs/*.rst $T/docs/ 2>/dev/null
  if (cd $T && patch -s -p1 < /verif/$d/patch.diff) >/dev/null 2>&1; then
    bad=$(for p in C01 C02 C03 C04 C05 C06 C07 C08 C09 C10 C11 C12 C13 C14 C15 C16 C17 C18 C19 C20; do echo $p; done | xargs -P ${JOBS:-8} -I{} sh -c "/venv/bin/python -B -m cverif.main {} --repo $T --evidence-dir $T/ev > /dev/null 2>&1 || echo {}" | sort | tr '\n' ' ')
    [ -z "$bad" ] && echo "SILENT $id" || echo "ALARM  $id  $bad"
  else echo "PATCH-FAILED $id"; fi
  rm -rf $T
done
