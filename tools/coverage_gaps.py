#!/venv/bin/python
"""Developer tool: package functions that have no reference model (candidates for blind spots).
usage: tools/coverage_gaps.py [repo_root]"""
import sys, os
sys.path.insert(0, '/verif')
from cverif.model import Repo
from cverif.props import reflib, refs_misc
root = sys.argv[1] if len(sys.argv) > 1 else '/repo'
repo = Repo(root)
lib = dict(reflib.LIB); lib.update(reflib._mods())
for q, r in refs_misc.REFS.items():
    lib.setdefault(q, r)
nested = set()
for q, r in lib.items():
    for a, b in r.get('nested', ()) or ():
        nested.add(q + '.<locals>.' + a.split('#')[0])
rows = []
for fi in repo.all_functions():
    q = fi.qualname
    if q in lib or q in nested or q in reflib.EXCLUDE_AUTO:
        continue
    n = (fi.node.end_lineno or fi.node.lineno) - fi.node.lineno + 1
    rows.append((os.path.relpath(fi.file, root), fi.node.lineno, q, n))
for r in sorted(rows):
    print('%-40s %5d %-70s %4d' % r)
print(len(rows), 'functions without reference;', len(lib), 'references')
