#!/usr/bin/env python3
"""Print the sub-agent prompt for one property (only the property text + its scratch worktree)."""
import json, sys
pid = sys.argv[1]
n = int(sys.argv[2]) if len(sys.argv) > 2 else 3
props = {json.loads(l)['id']: json.loads(l) for l in open('/verif/properties.jsonl')}
p = props[pid]
wt = f'/tmp/wt/{pid}'
out = f'/tmp/seed_out/{pid}'
print(f"""You are given a scratch git worktree of the Python library open2c/cooler (sparse Hi-C contact matrices in HDF5) at {wt}. Work ONLY inside {wt} and {out}. Never touch /repo or /verif (do not read, list or write anything under /verif). There is no network.

How to run things (always with these variables so that your copy of the library and a private temp dir are used):
  cd {wt} && TMPDIR={wt}/.tmp PYTHONPATH={wt}/src /venv/bin/python <script or -m pytest ...>
Existing test suite (about 35-60 s; at baseline exactly 134 tests pass, 4 are skipped and tests/test_create.py::test_roundtrip fails -- that one failure is expected and must be ignored):
  cd {wt} && TMPDIR={wt}/.tmp PYTHONPATH={wt}/src /venv/bin/python -m pytest -q -p no:cacheprovider --no-cov --timeout=900
Do not run tests with xdist / in parallel.

Here is a semantic property that users of the library rely on:

  Title: {p['title']}
  Statement: {p['statement']}
  It must hold for: {p['quantifier']['text']}
  Code it is anchored in: {', '.join(p['anchors']['files'])}
  Mechanisms: {'; '.join(m['name'] + ' (' + m['where'] + ')' for m in p['anchors']['mechanism'])}

YOUR TASK: produce {n} DISTINCT, realistic changes to the library source (files under src/cooler/ only, never the tests) that each BREAK this property while the code still compiles and the existing test suite still gives the same result (the same 134 tests pass). Each change should look like a plausible regression a developer could introduce (an off-by-one, a wrong comparator, a dropped step, a swapped argument, a wrong default, an ordering change, a 'simplification' or refactoring that is subtly wrong, two cooperating sites that each look fine alone ...) and should need something SPECIFIC to manifest -- an unusual input, a particular configuration/option combination, a multi-step sequence of operations, a fault at a particular point, a boundary case -- not something ordinary use or the existing tests would expose at once. Make the {n} changes differ in kind and, where possible, touch different functions/mechanisms of the property. Keep each change small (a few lines).

For each change k = 1..{n}:
  1. Start from a clean tree (git -C {wt} checkout -- . ; git -C {wt} status must be clean).
  2. Edit the source. Run the full test suite as above and confirm the result is still 134 passed / 1 failed (test_roundtrip) / 4 skipped. If another test fails, the change is not acceptable: revise it.
  3. Write a demonstration {out}/{{k}}/demo.py: a small self-contained program using the library's public API/CLI (it may create files under its own tempfile.mkdtemp()) that exits 0 when the property holds and exits non-zero (e.g. AssertionError) when it is violated. Run it with the change applied (must FAIL) and, after saving the diff and `git checkout -- .` (NEVER use `git stash`: the stash is shared between worktrees and other agents run concurrently), on the clean tree (must PASS, exit 0). The demo must be deterministic and finish in under a minute.
  4. Save the change as {out}/{{k}}/patch.diff produced by `git -C {wt} diff` (it must apply to a clean checkout with `git apply`).
  5. Write {out}/{{k}}/notes.txt: one paragraph saying what the change does, why it breaks the property, and exactly what it needs in order to manifest (input / option / sequence), plus the pytest summary line you observed with the change applied.
  6. Restore the clean tree (git -C {wt} checkout -- . and remove untracked files you created in the worktree other than .tmp).

Finish with the worktree clean. In your final message list, for each k, the file and function changed, a one-line description, and confirm: suite result with change, demo fails with change, demo passes without. If you cannot find {n}, deliver as many as you can; never deliver a change whose suite result differs from baseline or whose demo does not discriminate.""")
