#!/usr/bin/env python3
"""(Re)generate 'Appendix D' of DESIGN.md from /verif/seeded/*/meta.json (developer tool)."""
import json, os, re, glob
rows = []
for d in sorted(glob.glob('/verif/seeded/C*-*')):
    m = json.load(open(os.path.join(d, 'meta.json')))
    sid = os.path.basename(d)
    notes = re.sub(r'\s+', ' ', m.get('what_it_does_and_needs_to_manifest', '')).strip()
    notes = notes.replace('|', '/')
    short = notes[:230] + ('…' if len(notes) > 230 else '')
    files = ', '.join(f.replace('src/cooler/', '') for f in m['files_changed'])
    rule = '; '.join(m.get('detecting_rules', [])[:2]) or '-'
    rows.append(f'| {sid} | {files} | {short} | {rule} |')
txt = ['## Appendix D. Independently seeded changes and the checks that catch them', '',
       'Each change was produced by a fresh sub-agent that was given only the text of one property and its own',
       'scratch git worktree of `/repo` (nothing from `/verif`), and was kept only after I confirmed in a scratch',
       'worktree that (i) it applies to the current `/repo` HEAD, (ii) the unedited suite still gives 134 passed +',
       'the one baseline failure, (iii) its demonstration exits 0 on the clean tree and non-zero with the change.',
       'Patch, demonstration and `meta.json` are in `/verif/seeded/<id>/`; `tools/try_patch.sh <patch> <PROP>` re-runs a',
       'check against a scratch copy with the change applied. Rules named `…[changed-effect#k]`, `[missing-effect#k]`,',
       '`[extra-effect#k]` are reference-model comparisons (E2b); the others are structural rules.', '',
       'Ids `Cxx-k` are the first round; ids `Cxx-r2-k` a second round whose prompt asked for changes in helper functions,',
       'option plumbing and callers rather than in the function the property names (to probe the edges of what each check reads).',
       'Ids `Cxx-r3-k` and `Cxx-r4-k` are a third and fourth round whose prompt demanded changes that need something specific to manifest',
       '(an unusual input, a multi-step history, a particular chunking, two cooperating sites) and mostly sit outside the anchored function;',
       'round 4 was commissioned after the scope of each property was narrowed (change log item 18) as an independent test of it.',
       'Changes that a check missed when first tried, and what was strengthened, are listed in the change log (items 10 and 16).', '',
       f'{len(rows)} confirmed changes, {sum(1 for r in rows if not r.endswith("| - |"))} detected by the owning check.', '',
       '| id | file(s) | what the change does / needs (from the author\'s notes) | first rule(s) that report it |',
       '|----|---------|----------------------------------------------------------|------------------------------|'] + rows + ['']
p = '/verif/DESIGN.md'
s = open(p).read()
i = s.find('## Appendix D.')
j = s.find('## Appendix E.')
tail = ('\n\n' + s[j:]) if j >= 0 else ''
if i >= 0:
    s = s[:i].rstrip() + '\n\n'
else:
    s = s.rstrip() + '\n\n---------------------------------------------------------------------------\n\n'
s += '\n'.join(txt).rstrip() + tail
open(p, 'w').write(s)
print(len(rows), 'rows')
