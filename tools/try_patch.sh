#!/bin/sh
# usage: tools/try_patch.sh <patch.diff> <PROP> [<PROP>...]  -- run checks against a scratch copy with the patch applied
P="$1"; shift
T=$(mktemp -d /tmp/cverif-try-XXXXXX)
mkdir -p $T/src $T/docs && cp -r /repo/src/cooler $T/src/ && cp /repo/docs/*.rst $T/docs/ 2>/dev/null
(cd $T && patch -s -p1 < "$P") || { echo "PATCH FAILED"; rm -rf $T; exit 3; }
cd /verif
for p in "$@"; do
  /venv/bin/python -B -m cverif.main $p --repo $T --evidence-dir $T/ev 2>&1 | grep -v "^KNOWN-FINDING" | cut -c1-400 | head -${LINES_MAX:-12}
done
rm -rf $T
