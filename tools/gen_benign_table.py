#!/usr/bin/env python3
"""Write benign/INDEX.json and Appendix E of DESIGN.md from a status file produced by tools/run_benign.sh
(usage: tools/run_benign.sh > status.txt; tools/gen_benign_table.py status.txt)."""
import json, os, re, sys
status = {}
for line in open(sys.argv[1]):
    parts = line.split()
    if not parts:
        continue
    if parts[0] == 'SILENT':
        status[parts[1]] = []
    elif parts[0] == 'ALARM':
        status[parts[1]] = parts[2:]
WHY = {
    'C01-4': 'algebraic identity on arrays: `(lo + i)[mask]` for `lo + i[mask]`',
    'C02-2': 'relies on a loop invariant (`(binsize,) = sizes` after an early return inside the loop) instead of the explicit `len(sizes) == 1` test',
    'C20-2': 'same rewrite of get_binsize as C02-2, by another author',
    'C02-3': 'four copy-pasted `create_dataset` calls become a loop over a list that is extended conditionally before the loop (not a literal at the loop)',
    'C06-3': 'selector creation hoisted out of the epoch loop (map fusion: `zip([c.pixels() for c in cs], ...)` for `zip(cs, ...)` + `c.pixels()`)',
    'C07-2': 'index loops `for i in range(1, len(xs))` become `for other in xs[1:]` together with an early return',
    'C09-1': 'hand-rolled `while` countdown rewritten as nested `for` loops with `break` (a different loop structure)',
    'C11-4': 'accumulate-in-a-loop becomes a list comprehension inside `np.concatenate`',
    'C12-4': 'sentinel test `extra is not None` on the result of a package function (its non-None-ness is not known)',
    'C14-2': 'uses `fields[0]` for the leaked loop variable `field` (equal only because the list has one element in that branch)',
    'C18-4': 'same rewrite of tableops.get as C14-2, by another author',
    'C14-4': 'inlines a KNOWN helper (`api.chroms`) that takes **kwargs',
    'C16-1': 'needs integer reasoning about `len(parts)` (`> 2` for `!= 1 and != 2`, a split never being empty)',
    'C18-3': '`{} if x is None else dict(x)` for `{}` + conditional `.update(x)` (two allocations for one)',
    'C19-2': 'if-ladder over unit suffixes becomes a lookup table in a module-level dict; regex hoisted to a module constant',
    'C19-3': 'nested generator lifted to a module-level generator function',
    'C20-1': 'nested closure lifted to a module-level function with the captured variables as new parameters',
    'C20-3': 'a verbatim copy of a block is replaced by a call of the (known) function it duplicates',
    'C01-r2-1': 'the lock acquire / try / finally / release pair of write_pixels becomes a context-manager class (`with _holding(lock):`)',
    'C13-r2-2': 'the same lock pair becomes a generator-based `@contextmanager` helper',
    'C02-r2-1': 'same de-duplication of prepare_pixels as C02-3: a loop over a list built at run time (conditional append, concatenated comprehension)',
    'C08-r2-2': 'the per-axis re-binning is folded into a local closure applied in `for axis in (1, 2)` with computed column names',
    'C09-r2-1': 'same rewrite as C09-1: the `while` countdown becomes `for`/`range` loops with `continue` (a different loop structure)',
    'C12-r2-3': 'two copy-pasted one-based loops merged into one loop over a column list built from the flags',
    'C16-r2-1': 'parse_field_param restructured with guard clauses: the loop over the property list now iterates a differently built (path-dependent) term, and refusals are regrouped',
    'C18-r2-1': '`shape=(len(new_names),)` for `shape=(n_chroms,)` in an extracted helper (equal only because both count the chromosomes)',
    'C18-r2-3': '`{name: i for i, name in enumerate(names)}` for `dict(zip(frame["name"], range(len(frame))))` (needs `len(frame) == len(frame[col])` and store-to-load forwarding)',
    'C19-r2-3': 'three nested closures (one a generator) lifted to module-level functions - no longer applies after the F24 repair of the same function',
    'C20-r2-2': 'nested closure `_each` lifted to a module-level function with the captured variables as parameters, `map` -> comprehension',
    'C14-r2-3': '(silent when written; no longer applies after the F25 repair of the same function)',
    'C14-4': '(no longer applies after the F25 repair of the same function)',
    'C19-3': 'nested generator lifted to a module-level generator function - no longer applies after the F24 repair of the same function',
    'C01-r3-3': 'the identical sparse and dense branches of api.matrix merged into one path with `mat if sparse else arr` values',
    'C06-r3-2': 'the epoch body extracted into a helper that returns None when no input has records; the caller tests `is not None` (needs: the frame the other branch returns is not None)',
    'C08-r3-1': 'the two per-axis re-binning blocks folded into a conditional value per axis',
    'C10-r3-3': '`for ... else` with two `break`s becomes a `finished` flag with a single `break` (a different loop structure)',
    'C15-r3-2': 'the recursive nested helper of visititems renamed and re-parameterised (closes over func and the result dict instead of passing them)',
    'C16-r3-3': 'cload pairs: nested tril_action ifs flattened and the dtype-override branch restructured around a named condition',
}
rows = []
idx = []
for d in sorted(os.listdir('/verif/benign')):
    if not re.match(r'C\d\d-(r[23]-)?\d$', d):
        continue
    notes = ''
    p = f'/verif/benign/{d}/notes.txt'
    if os.path.exists(p):
        notes = ' '.join(open(p, errors='replace').read().split())[:230]
    files = sorted(set(re.findall(r'^\+\+\+ b/src/cooler/(\S+)', open(f'/verif/benign/{d}/patch.diff', errors='replace').read(), re.M)))
    st = status.get(d)
    verdict = 'silent (all 20 checks)' if st == [] else ('patch no longer applies to the repaired tree' if st is None else 'reported by ' + ' '.join(st))
    idx.append({'id': d, 'files': files, 'silent': st == [], 'applies': st is not None, 'reported_by': st or [], 'why_reported': WHY.get(d, '') if st else ''})
    rows.append(f'| {d} | {", ".join(files)} | {notes.replace("|", "/")} | {verdict}{(" - " + WHY[d]) if (st or st is None) and d in WHY else ""} |')
json.dump(idx, open('/verif/benign/INDEX.json', 'w'), indent=1)
n_s = sum(1 for x in idx if x['silent'])
txt = ['## Appendix E. Behaviour-preserving maintenance changes (false-alarm probe)', '',
       'Produced by fresh sub-agents that were given only the text of one property and a scratch worktree and asked to act as a',
       'careful maintainer: four (first probe, ids `Cxx-k`) or three (second and third probe with fresh authors each time, ids `Cxx-r2-k`, `Cxx-r3-k`) realistic, behaviour-preserving changes each (renames, restructured conditionals, guard clauses,',
       'idiom replacements, extracted or inlined helpers, temporaries, reordering, docstrings / logging, dead-code removal), each',
       'with the unedited suite at baseline and a differential digest (`equiv.py`: outputs, exception classes, file contents on',
       'many inputs) identical before and after. `tools/run_benign.sh` applies each to a scratch copy and runs **all 20** checks.',
       'A change that is reported is a false alarm of the machinery by the standard of the brief; they are listed with the reason,',
       'not hidden - the classes that remain are the limitation stated in section 6.', '',
       f'{len(idx)} changes: {n_s} leave every check silent, {sum(1 for x in idx if x["applies"] and not x["silent"])} are reported, {sum(1 for x in idx if not x["applies"])} no longer apply to the repaired tree.', '',
       '| id | file(s) | what the author did (from the notes) | result |', '|----|---------|----|----|'] + rows + ['']
p = '/verif/DESIGN.md'
s = open(p).read()
i = s.find('## Appendix E.')
if i >= 0:
    s = s[:i].rstrip() + '\n\n'
else:
    s = s.rstrip() + '\n\n'
open(p, 'w').write(s + '\n'.join(txt))
print(len(idx), 'rows;', n_s, 'silent')
