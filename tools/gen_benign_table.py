#!/usr/bin/env python3
"""Write benign/INDEX.json and Appendix E of DESIGN.md from a status file produced by tools/run_benign.sh
(usage: tools/run_benign.sh > status.txt; tools/gen_benign_table.py status.txt)."""
import json, os, re, sys
status = {}
for line in open(sys.argv[1]):
    parts = line.split()
    if not parts:
        continue
    if parts[0] == 'SILENT':
        status[parts[1]] = []
    elif parts[0] == 'ALARM':
        status[parts[1]] = parts[2:]
WHY = {
    'C01-4': 'algebraic identity on arrays: `(lo + i)[mask]` for `lo + i[mask]`',
    'C02-2': 'relies on a loop invariant (`(binsize,) = sizes` after an early return inside the loop) instead of the explicit `len(sizes) == 1` test',
    'C20-2': 'same rewrite of get_binsize as C02-2, by another author',
    'C02-3': 'four copy-pasted `create_dataset` calls become a loop over a list that is extended conditionally before the loop (not a literal at the loop)',
    'C06-3': 'selector creation hoisted out of the epoch loop (map fusion: `zip([c.pixels() for c in cs], ...)` for `zip(cs, ...)` + `c.pixels()`)',
    'C07-2': 'index loops `for i in range(1, len(xs))` become `for other in xs[1:]` together with an early return',
    'C09-1': 'hand-rolled `while` countdown rewritten as nested `for` loops with `break` (a different loop structure)',
    'C11-4': 'accumulate-in-a-loop becomes a list comprehension inside `np.concatenate`',
    'C12-4': 'sentinel test `extra is not None` on the result of a package function (its non-None-ness is not known)',
    'C14-2': 'uses `fields[0]` for the leaked loop variable `field` (equal only because the list has one element in that branch)',
    'C18-4': 'same rewrite of tableops.get as C14-2, by another author',
    'C14-4': 'inlines a KNOWN helper (`api.chroms`) that takes **kwargs',
    'C16-1': 'needs integer reasoning about `len(parts)` (`> 2` for `!= 1 and != 2`, a split never being empty)',
    'C18-3': '`{} if x is None else dict(x)` for `{}` + conditional `.update(x)` (two allocations for one)',
    'C19-2': 'if-ladder over unit suffixes becomes a lookup table in a module-level dict; regex hoisted to a module constant',
    'C19-3': 'nested generator lifted to a module-level generator function',
    'C20-1': 'nested closure lifted to a module-level function with the captured variables as new parameters',
    'C20-3': 'a verbatim copy of a block is replaced by a call of the (known) function it duplicates',
}
rows = []
idx = []
for d in sorted(os.listdir('/verif/benign')):
    if not re.match(r'C\d\d-\d$', d):
        continue
    notes = ''
    p = f'/verif/benign/{d}/notes.txt'
    if os.path.exists(p):
        notes = ' '.join(open(p, errors='replace').read().split())[:230]
    files = sorted(set(re.findall(r'^\+\+\+ b/src/cooler/(\S+)', open(f'/verif/benign/{d}/patch.diff', errors='replace').read(), re.M)))
    st = status.get(d)
    verdict = 'silent (all 20 checks)' if st == [] else ('not run' if st is None else 'reported by ' + ' '.join(st))
    idx.append({'id': d, 'files': files, 'silent': st == [], 'reported_by': st or [], 'why_reported': WHY.get(d, '') if st else ''})
    rows.append(f'| {d} | {", ".join(files)} | {notes.replace("|", "/")} | {verdict}{(" - " + WHY[d]) if st and d in WHY else ""} |')
json.dump(idx, open('/verif/benign/INDEX.json', 'w'), indent=1)
n_s = sum(1 for x in idx if x['silent'])
txt = ['## Appendix E. Behaviour-preserving maintenance changes (false-alarm probe)', '',
       'Produced by fresh sub-agents that were given only the text of one property and a scratch worktree and asked to act as a',
       'careful maintainer: four realistic, behaviour-preserving changes each (renames, restructured conditionals, guard clauses,',
       'idiom replacements, extracted or inlined helpers, temporaries, reordering, docstrings / logging, dead-code removal), each',
       'with the unedited suite at baseline and a differential digest (`equiv.py`: outputs, exception classes, file contents on',
       'many inputs) identical before and after. `tools/run_benign.sh` applies each to a scratch copy and runs **all 20** checks.',
       'A change that is reported is a false alarm of the machinery by the standard of the brief; they are listed with the reason,',
       'not hidden - the classes that remain are the limitation stated in section 6.', '',
       f'{len(idx)} changes: {n_s} leave every check silent, {len(idx) - n_s} are reported.', '',
       '| id | file(s) | what the author did (from the notes) | result |', '|----|---------|----|----|'] + rows + ['']
p = '/verif/DESIGN.md'
s = open(p).read()
i = s.find('## Appendix E.')
if i >= 0:
    s = s[:i].rstrip() + '\n\n'
else:
    s = s.rstrip() + '\n\n'
open(p, 'w').write(s + '\n'.join(txt))
print(len(idx), 'rows;', n_s, 'silent')
