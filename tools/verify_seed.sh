#!/bin/sh
# usage: tools/verify_seed.sh <PROP> <k>   -- confirm a seeded change: applies to /repo HEAD in a scratch worktree,
# suite still at baseline, demo fails with the change and passes without. Prints a one-line JSON verdict.
P="$1"; K="$2"; D=${SEED_ROOT:-/tmp/seed_out}/$P/$K
WT=$(mktemp -d /tmp/seedverify-XXXXXX); rmdir $WT
git -C /repo worktree add -q --detach $WT HEAD || exit 3
mkdir -p $WT/.tmp
cd $WT
run() { TMPDIR=$WT/.tmp PYTHONPATH=$WT/src "$@"; }
run timeout 300 /venv/bin/python $D/demo.py > $WT/.tmp/demo_clean.log 2>&1; CLEAN=$?
if git apply --check $D/patch.diff 2>/dev/null; then git apply $D/patch.diff; APPLY=ok; else
  if patch -p1 --dry-run < $D/patch.diff >/dev/null 2>&1; then patch -s -p1 < $D/patch.diff; APPLY=fuzzy; else APPLY=fail; fi; fi
if [ "$APPLY" != fail ]; then
  git diff > $WT/.tmp/applied.diff
  run timeout 300 /venv/bin/python $D/demo.py > $WT/.tmp/demo_mut.log 2>&1; MUT=$?
  run timeout 1200 /venv/bin/python -m pytest -q -p no:cacheprovider --no-cov --timeout=900 > $WT/.tmp/suite.log 2>&1
  SUITE=$(grep -E "passed|failed" $WT/.tmp/suite.log | tail -1)
  FAILED=$(grep "^FAILED" $WT/.tmp/suite.log | sed 's/ - .*//' | tr '\n' ';')
  cp $WT/.tmp/applied.diff $D/applied.diff
else MUT=-1; SUITE="patch does not apply"; FAILED=""; fi
echo "{\"prop\":\"$P\",\"k\":$K,\"apply\":\"$APPLY\",\"demo_clean_exit\":$CLEAN,\"demo_mutant_exit\":$MUT,\"suite\":\"$SUITE\",\"failed\":\"$FAILED\"}" | tee $D/verify.json
cd /; git -C /repo worktree remove --force $WT
