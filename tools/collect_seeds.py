#!/usr/bin/env python3
"""Copy confirmed seeded changes from /tmp/seed_out into /verif/seeded/<prop>-<k>/ with meta.json,
and record which check/rule detects each (developer tool)."""
import json, os, re, shutil, subprocess, sys
OUT = '/verif/seeded'
ROOT = os.environ.get('SEED_ROOT', '/tmp/seed_out')
TAG = os.environ.get('SEED_TAG', '')     # e.g. 'r2-' for the second round
os.makedirs(OUT, exist_ok=True)
rows = []
for prop in [f'C{i:02d}' for i in range(1, 21)]:
    for k in (1, 2, 3):
        d = f'{ROOT}/{prop}/{k}'
        vj = os.path.join(d, 'verify.json')
        if not os.path.exists(vj):
            continue
        v = json.load(open(vj))
        ok = (v['demo_clean_exit'] == 0 and v['demo_mutant_exit'] not in (0, -1) and '134 passed' in v['suite']
              and v['failed'].count('FAILED') == 1 and 'test_roundtrip' in v['failed'])
        if not ok:
            print('skip (not confirmed on current tree):', prop, k, v)
            continue
        patch = os.path.join(d, 'applied.diff') if os.path.exists(os.path.join(d, 'applied.diff')) else os.path.join(d, 'patch.diff')
        # detection: run the owning check (and all checks that share the file) on a patched scratch copy
        r = subprocess.run(['/verif/tools/try_patch.sh', patch, prop], capture_output=True, text=True, errors='replace', env=dict(os.environ, LINES_MAX='400'))
        out = r.stdout
        rules = re.findall(r'rule (\S+) \[([^\]]*)\]', out)
        detected = 'VIOLATION property=' in out
        tgt = os.path.join(OUT, f'{prop}-{TAG}{k}')
        os.makedirs(tgt, exist_ok=True)
        shutil.copy(patch, os.path.join(tgt, 'patch.diff'))
        shutil.copy(os.path.join(d, 'demo.py'), os.path.join(tgt, 'demo.py'))
        notes = next((open(os.path.join(d, n)).read().strip() for n in ("notes.txt", "notes.md") if os.path.exists(os.path.join(d, n))), "")
        files = sorted(set(re.findall(r'^\+\+\+ b/(\S+)', open(patch).read(), re.M)))
        meta = {
            'property': prop,
            'origin': 'independent sub-agent given only the property text and a scratch git worktree of /repo',
            'files_changed': files,
            'what_it_does_and_needs_to_manifest': notes,
            'what_was_run': [
                f'git worktree add <scratch> HEAD; python demo.py  -> exit {v["demo_clean_exit"]} (clean tree)',
                f'git apply patch.diff ({v["apply"]}); python demo.py -> exit {v["demo_mutant_exit"]} (with the change)',
                f'pytest -q -p no:cacheprovider --no-cov (with the change) -> {v["suite"]}; failing: tests/test_create.py::test_roundtrip only (the baseline always-fail)',
                f'tools/try_patch.sh patch.diff {prop}  (check on a scratch copy of the source with the change)',
            ],
            'detected_by_check': prop if detected else None,
            'detecting_rules': [f'{a} [{b}]' for a, b in rules][:6],
            'repo_head_when_confirmed': subprocess.check_output(['git', '-C', '/repo', 'rev-parse', '--short', 'HEAD']).decode().strip(),
        }
        json.dump(meta, open(os.path.join(tgt, 'meta.json'), 'w'), indent=1)
        rows.append((prop, k, detected, meta['detecting_rules'][:1], files))
        print(prop, k, 'DETECTED' if detected else 'MISSED', meta['detecting_rules'][:1])
idx_path = os.path.join(OUT, 'INDEX.json')
old = json.load(open(idx_path)) if os.path.exists(idx_path) else []
new = [{'id': f'{p}-{TAG}{k}', 'detected': d, 'rule': r, 'files': f} for p, k, d, r, f in rows]
ids = {x['id'] for x in new}
json.dump(sorted([x for x in old if x['id'] not in ids] + new, key=lambda x: x['id']), open(idx_path, 'w'), indent=1)
print(sum(1 for r in rows if r[2]), '/', len(rows), 'detected')
