#!/usr/bin/env python3
"""Regenerate MANIFEST.json from the property modules that exist (developer tool)."""
import importlib, json, os, sys
HERE = os.path.dirname(os.path.dirname(os.path.abspath(__file__)))
sys.path.insert(0, HERE)
props = [json.loads(l) for l in open(os.path.join(HERE, 'properties.jsonl'))]
checks, na = [], []
NA_REASONS = {}
try:
    NA_REASONS = json.load(open(os.path.join(HERE, 'tools', 'not_applicable.json')))
except OSError:
    pass
for p in props:
    pid = p['id']
    try:
        mod = importlib.import_module(f'cverif.props.{pid}')
    except ModuleNotFoundError:
        na.append({'property_id': pid, 'reason': NA_REASONS.get(pid, 'check not built yet (static-analysis machinery under construction; planned clauses in DESIGN.md section 4)')})
        continue
    if pid in NA_REASONS:
        na.append({'property_id': pid, 'reason': NA_REASONS[pid]})
        continue
    M = mod.META
    checks.append({
        'property_id': pid,
        'quick_cmd': f'./check {pid} --tier quick',
        'thorough_cmd': f'./check {pid} --tier thorough',
        'evidence_file': f'/verif/evidence/{pid}.json',
        'replay_cmd_template': f'./check {pid} --replay {{path}}',
        'engine': 'cverif',
        'level_claimed': {
            'category': 'other',
            'text': M.get('level_text') or ('Static decision of structural necessary conditions of the property (clause level), not of the behaviour: ' + M['explanation']),
            'design_ref': f'DESIGN.md section 4, {pid}',
        },
        'level_note': M.get('level_note') or ('Trusted: CPython ast parser, the cverif normaliser/evaluator, the frozen expectation tables; numpy/pandas/h5py library semantics are assumed. Not decided: ' + '; '.join(M.get('not_decided', []))),
        'technique': M.get('technique', 'static analysis: ast-based symbolic dataflow (term reconstruction + normalisation), guard/ordering rules and agreement tables over the current source') + '; effect-level comparison of the property\'s mechanism functions (named by its anchors), of what they call (depth 2) and of the plumbing that calls them, with reference models derived from the property, in case-split normal form (conditional expressions lifted into complete path conditions; propositional and integer-aware comparison of the guarded effects)',
    })
m = {
    'version': 1,
    'setup_cmd': 'sh -c \'if [ -x /venv/bin/python ]; then /venv/bin/python -m compileall -q cverif selftest >/dev/null; else python3 -m compileall -q cverif selftest >/dev/null; fi; true\'',
    'hooks': {
        'guard': 'OPEN2C_COOLER_VERIF',
        'enable': 'no hooks: nothing in /repo is instrumented; every check parses the working tree with ast',
        'baseline_off_cmd': 'cd /repo && /venv/bin/python -m pytest -ra -q -p no:cacheprovider --timeout=900 --continue-on-collection-errors',
        'source_commits': [],
        'add_only': True,
    },
    'engines': [
        {'name': 'cverif', 'path': '/verif/cverif', 'serves_properties': [c['property_id'] for c in checks],
         'kind_free_text': 'repository-specific static analysis on Python ast: program model, symbolic dataflow term reconstruction with idiom normalisation, effect-level comparison with reference models (guarded effects, case-split normal form, in-place evaluation of helpers unknown to the checker), guard/ordering/ownership rules, agreement tables, finite-domain small-model enumeration (C03)'},
    ],
    'checks': checks,
    'notes': 'All checks are pure static analysis of /repo/src/cooler (and docs/schema_v3.rst); nothing from the repository is imported or executed. Exit 0 = all obligations discharged (KNOWN-FINDING lines allowed), 1 = VIOLATION, 2 = ANALYSIS-ERROR (vanished anchor / unrecognised construct). Known findings: /verif/known_findings.json. Validation of the checker itself (never part of a verdict): selftest/run.py (catalogue of mutants and refactors), selftest/automutate.py [--union] (AST mutation sweeps), selftest/autorefactor.py (22 behaviour-preserving rewrite operators), selftest/mutate_benign.py (mutants of refactored code), tools/run_seeds.sh (239 independently seeded breaking changes in seeded/, four rounds), tools/run_benign.sh (independently written behaviour-preserving maintenance changes in benign/, three probes), tools/coverage_gaps.py (package functions without a reference model).',
    'not_applicable': na,
}
json.dump(m, open(os.path.join(HERE, 'MANIFEST.json'), 'w'), indent=1)
print(len(checks), 'checks;', len(na), 'not applicable')
