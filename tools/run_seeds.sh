#!/bin/sh
# usage: tools/run_seeds.sh  -- every stored seeded change must make the check of its property exit 1
cd /verif
ls -d seeded/C*/ | xargs -P ${JOBS:-12} -I{} sh -c '
d={}; id=$(basename $d); p=$(echo $id | cut -c1-3)
T=$(mktemp -d /tmp/cverif-seed-XXXXXX)
mkdir -p $T/src $T/docs && cp -r /repo/src/cooler $T/src/ && cp /repo/docs/*.rst $T/docs/ 2>/dev/null
if (cd $T && patch -s -p1 < /verif/$d/patch.diff) >/dev/null 2>&1; then
  /venv/bin/python -B -m cverif.main $p --repo $T --evidence-dir $T/ev >/dev/null 2>&1; rc=$?
  [ $rc -eq 1 ] && echo "DETECTED $id" || echo "MISSED rc=$rc $id"
else echo "PATCH-FAILED $id"; fi
rm -rf $T'
